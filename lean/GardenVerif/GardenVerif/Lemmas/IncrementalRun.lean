import GardenVerif.Lemmas.Incremental
import GardenVerif.Lemmas.IncrementalMono
/-!
Helper lemmas for C11 (incremental = batch): the frame parametricity of `dispatch`
(Lemmas/Incremental.lean) lifted to `step` and to whole requests.

`LF T R sb c` = the machine state `c` with the toplevel frame extended by `fx T R` and
`stop_at_expr_id = sb`.
* `step_diff`: a step of an EARLIER input seen from the concatenated run (other stop id, the later
  inputs' entries below): the concatenated run continues and stays the lift.
* `step_same`: a step seen from a state that only has further VALUES below (same stop id): the same step.
* `evalC`: the checked reference evaluation of one request; `seg_same`, `seg_diff`: whole requests.
-/
set_option linter.unusedVariables false
set_option linter.unusedSimpArgs false

-- ====================================================================== step level

namespace Incr
open Machine Resume

variable (T : List (St × Expr)) (R : List Value)

/-- Apply `g` to the LAST (bottom = toplevel) frame of the call stack. -/
def mapLast (g : Frame → Frame) : List Frame → List Frame
  | [] => []
  | [f] => [g f]
  | f :: f2 :: rest => f :: mapLast g (f2 :: rest)

/-- the frame transformer for the top frame: the bottom frame is extended, the others are not -/
def gsel (rest : List Frame) : Frame → Frame := if rest = [] then fx T R else id

theorem mapLast_cons' (g : Frame → Frame) (f : Frame) (rest : List Frame) :
    mapLast g (f :: rest) = (if rest = [] then g f else f) :: mapLast g rest := by
  cases rest <;> simp [mapLast]

theorem mapLast_cons (f : Frame) (rest : List Frame) :
    mapLast (fx T R) (f :: rest) = gsel T R rest f :: mapLast (fx T R) rest := by
  rw [mapLast_cons']; unfold gsel; split <;> simp

theorem mapLast_length (g : Frame → Frame) : ∀ l : List Frame, (mapLast g l).length = l.length
  | [] => rfl
  | [f] => rfl
  | f :: f2 :: rest => by simp [mapLast, mapLast_length g (f2 :: rest)]

theorem mapF_id (d : Disp) : mapF id d = d := by cases d <;> rfl

/-- The state with the bottom frame extended and another `stop_at_expr_id`. -/
def LF (sb : Option Nat) (c : State) : State :=
  { c with stopAt := sb, frames := mapLast (fx T R) c.frames }

def hasEntry (c : State) : Bool :=
  match c.frames with
  | f :: _ => !f.exprs.isEmpty
  | [] => false

/-- the node id the step's stop test looks at -/
def hitId (c : State) : Option Nat :=
  match c.frames with
  | f :: callers =>
    match f.exprs with
    | (_, e) :: _ => some e.id
    | [] => match callers with
      | [] => none
      | _ => f.callerId
  | [] => none

/-- the step is one of the three that drop the rest of the toplevel frame's pending entries -/
def escStep (c : State) : Bool :=
  match c.frames with
  | [f] => match f.exprs with
    | (st, e) :: rest => escapes { f with exprs := rest } st e
    | [] => false
  | _ => false

/-- What the concatenated run needs from a step of an earlier input: it does not drop the later
inputs' entries and does not touch the node the concatenated run stops at. -/
def guard (b : Nat) (c : State) : Bool := !escStep c && (hitId c != some b)

theorem gsel_pushV (rest : List Frame) (f : Frame) (v : Value) :
    (gsel T R rest f).pushV v = gsel T R rest (f.pushV v) := by
  unfold gsel; split <;> simp [fx_pushV]

theorem gsel_exprs_cons (rest : List Frame) (f : Frame) (x : St × Expr) (xs : List (St × Expr))
    (h : f.exprs = x :: xs) : (gsel T R rest f).exprs = x :: (gsel T R rest { f with exprs := xs }).exprs := by
  unfold gsel; split <;> simp [h]

theorem gsel_setExprs (rest : List Frame) (f : Frame) (xs : List (St × Expr)) :
    ({ gsel T R rest f with exprs := (gsel T R rest { f with exprs := xs }).exprs } : Frame) =
      gsel T R rest { f with exprs := xs } := by
  unfold gsel; split <;> simp [fx]

theorem gsel_values_nil (rest : List Frame) (f : Frame) (h : (gsel T R rest f).values = []) : f.values = [] := by
  unfold gsel at h; split at h <;> simp_all

theorem dispatch_gsel (p : Program) (rest : List Frame) (f : Frame) (st : St) (e : Expr)
    (hp : isPanic (dispatch p f st e) = false) (hesc : rest = [] → (T = [] ∨ escapes f st e = false)) :
    dispatch p (gsel T R rest f) st e = mapF (gsel T R rest) (dispatch p f st e) := by
  unfold gsel
  split
  · rename_i h; exact dispatch_fx T R p f st e hp (hesc h)
  · simp [mapF_id]

theorem stopCheck_ne (a : State) (f : Frame) (st : St) (e : Expr) (h : a.stopAt ≠ some e.id) :
    stopCheck a f st e = .cont a := by
  unfold stopCheck
  have : (a.stopAt == some e.id) = false := by simpa using h
  simp [this]

theorem stopCheck_shape (a : State) (f : Frame) (st : St) (e : Expr) :
    stopCheck a f st e = .cont a ∨ ∃ v, stopCheck a f st e = .done a v := by
  unfold stopCheck
  repeat' split
  all_goals simp

theorem stopCheck_res (a : State) (f : Frame) (st : St) (e : Expr) (s1 : State)
    (h : stopCheck a f st e = .cont s1 ∨ ∃ v, stopCheck a f st e = .done s1 v) : s1 = a := by
  rcases stopCheck_shape a f st e with hh | ⟨v, hh⟩ <;> rw [hh] at h <;>
    rcases h with h1 | ⟨v', h1⟩ <;> simp at h1 <;> simp [h1]

/-- **One step of an earlier input, seen from the concatenated run** (different stop id): whether
the step continues or is the one at which the incremental request stops, the concatenated run
continues, and stays the lift of the incremental state. -/
theorem step_diff (b : Nat) (c c' : State) (hg : guard b c = true)
    (h : step c = .cont c' ∨ (∃ v, step c = .done c' v ∧ hasEntry c = true)) :
    step (LF T R (some b) c) = .cont (LF T R (some b) c') := by
  simp only [guard, Bool.and_eq_true, Bool.not_eq_true', bne_iff_ne, ne_eq] at hg
  obtain ⟨hesc, hhit⟩ := hg
  match hf : c.frames with
  | [] =>
    rcases h with h | ⟨v, h, _⟩ <;> simp [step, hf] at h
  | f :: callers =>
    match he : f.exprs with
    | [] =>
      cases callers with
      | nil =>
        rcases h with h | ⟨v, h, hen⟩
        · simp only [step, hf, he] at h; cases hv : f.values <;> simp [hv] at h
        · simp [hasEntry, hf, he] at hen
      | cons caller rest =>
        rcases h with h | ⟨v, h, hen⟩
        · simp only [step, hf, he] at h
          cases hv : f.values with
          | nil => simp [hv] at h
          | cons rv vs =>
            simp only [hv] at h
            have hcid : f.callerId ≠ some b := by simpa [hitId, hf, he] using hhit
            split at h
            · simp at h
            · rename_i hstop
              simp at h
              subst h
              unfold step
              simp only [LF, hf, mapLast, he, hv]
              have : (f.callerId.isSome && (some b == f.callerId)) = false := by
                cases hc : f.callerId with
                | none => simp
                | some x => simp [hc] at hcid ⊢; exact fun h => hcid h.symm
              rw [mapLast_cons]
              simp only [this, Bool.false_eq_true, if_false]
              rw [mapLast_cons]
              cases f.callerUses <;> simp [gsel_pushV]
        · simp [hasEntry, hf, he] at hen
    | (st, e) :: restE =>
      have hid : some b ≠ some e.id := by
        have : hitId c = some e.id := by simp [hitId, hf, he]
        rw [this] at hhit; exact fun h => hhit h.symm
      have hesc' : callers = [] → (T = [] ∨ escapes { f with exprs := restE } st e = false) := by
        intro hc; subst hc; right; simpa [escStep, hf, he] using hesc
      -- what the incremental step did
      have hstep : ∃ s1 : State, (step c = .cont s1 ∨ ∃ v, step c = .done s1 v) ∧ s1 = c' := by
        rcases h with h | ⟨v, h, _⟩
        · exact ⟨c', Or.inl h, rfl⟩
        · exact ⟨c', Or.inr ⟨v, h⟩, rfl⟩
      obtain ⟨s1, hs1, hc'⟩ := hstep
      subst hc'
      unfold step at hs1 ⊢
      simp only [hf, he] at hs1
      simp only [LF, hf]
      rw [mapLast_cons]
      simp only [gsel_exprs_cons T R callers f (st, e) restE he, gsel_setExprs]
      by_cases c1 : (c.interrupted || c.interruptAt.contains (c.ticks + 1)) = true
      · rw [if_pos c1] at hs1; simp at hs1
      · rw [if_neg c1] at hs1
        by_cases c2 : limitReached c.tickLimit (c.ticks + 1) = true
        · rw [if_pos c2] at hs1; simp at hs1
        · rw [if_neg c2] at hs1
          by_cases c3 : limitExceeded c.stackLimit (f :: callers).length = true
          · rw [if_pos c3] at hs1; simp at hs1
          · rw [if_neg c3] at hs1
            have hlen : (gsel T R callers f :: mapLast (fx T R) callers).length = (f :: callers).length := by
              simp [mapLast_length]
            simp only [c1, c2, hlen, c3, if_false, Bool.false_eq_true]
            have hnp : isPanic (dispatch c.prog { f with exprs := restE } st e) = false := by
              cases hd : dispatch c.prog { f with exprs := restE } st e <;> simp [isPanic]
              simp [hd] at hs1
            rw [dispatch_gsel T R c.prog callers _ st e hnp hesc']
            cases hd : dispatch c.prog { f with exprs := restE } st e with
            | ok f' =>
              simp only [hd] at hs1
              simp only [mapF]
              rw [stopCheck_ne _ _ _ _ (by simpa [setTop] using hid)]
              have hs1' := stopCheck_res _ _ _ _ _ hs1
              subst hs1'
              have c1' : c.interrupted = false ∧ ¬ c.ticks + 1 ∈ c.interruptAt := by simpa using c1
              simp [setTop, hf, mapLast_cons, c1']
            | okOut f' o =>
              simp only [hd] at hs1
              simp only [mapF]
              rw [stopCheck_ne _ _ _ _ (by simpa [setTop] using hid)]
              have hs1' := stopCheck_res _ _ _ _ _ hs1
              subst hs1'
              have c1' : c.interrupted = false ∧ ¬ c.ticks + 1 ∈ c.interruptAt := by simpa using c1
              simp [setTop, hf, mapLast_cons, c1']
            | newFrame f' callee =>
              simp only [hd] at hs1
              simp only [mapF]
              rcases hs1 with h1 | ⟨v, h1⟩ <;> simp at h1
              subst h1
              have c1' : c.interrupted = false ∧ ¬ c.ticks + 1 ∈ c.interruptAt := by simpa using c1
              simp [mapLast, mapLast_cons, c1']
              try (cases callers <;> simp [mapLast, gsel, mapLast_cons])
            | err f' st' vals er => simp [hd] at hs1
            | panic site => simp [hd] at hs1
            | unsupported w => simp [hd] at hs1

end Incr

namespace Incr
open Machine Resume

variable (R : List Value)

theorem stopCheck_lift (a a2 : State) (f' f2 : Frame) (st : St) (e : Expr) (hst : a2.stopAt = a.stopAt)
    (hv : (a.stopAt == some e.id) = true → doneSub st e = true →
      f2.values = f'.values ∨ ∃ v vs vs2, f'.values = v :: vs ∧ f2.values = v :: vs2) :
    stopCheck a2 f2 st e = C08.mapState (fun _ => a2) (stopCheck a f' st e) := by
  unfold stopCheck
  rw [hst]
  by_cases h1 : (a.stopAt == some e.id) = true
  · rw [if_pos h1, if_pos h1]
    by_cases h2 : doneSub st e = true
    · rw [if_pos h2, if_pos h2]
      rcases hv h1 h2 with h | ⟨v, vs, vs2, h3, h4⟩
      · rw [h]; cases f'.values <;> simp [C08.mapState]
      · rw [h3, h4]; simp [C08.mapState]
    · rw [if_neg h2, if_neg h2]
      repeat' split
      all_goals simp [C08.mapState]
  · rw [if_neg h1, if_neg h1]; simp [C08.mapState]

theorem setTop_stopAt (s : State) (f : Frame) : (setTop s f).stopAt = s.stopAt := by
  unfold setTop; split <;> rfl

/-- the state after the tick of an entry step -/
def tick (c : State) : State :=
  { c with ticks := c.ticks + 1, interrupted := c.interrupted || c.interruptAt.contains (c.ticks + 1) }

/-- Normal form of a step that pops an entry and passes the interrupt / limit tests. -/
theorem step_entry (c : State) (f : Frame) (callers : List Frame) (st : St) (e : Expr)
    (restE : List (St × Expr)) (hf : c.frames = f :: callers) (he : f.exprs = (st, e) :: restE)
    (c1 : ¬ (c.interrupted || c.interruptAt.contains (c.ticks + 1)) = true)
    (c2 : ¬ limitReached c.tickLimit (c.ticks + 1) = true)
    (c3 : ¬ limitExceeded c.stackLimit (f :: callers).length = true) :
    step c = match dispatch c.prog { f with exprs := restE } st e with
      | .ok f' => stopCheck (setTop (tick c) f') f' st e
      | .okOut f' o => stopCheck (setTop { tick c with out := c.out ++ o } f') f' st e
      | .newFrame f' callee => .cont { tick c with frames := callee :: f' :: callers }
      | .err f' st' vals er => .error (setTop (tick c) (restore f' st' e vals)) er
      | .panic site => .panic site
      | .unsupported w => .unsupported w := by
  unfold step
  simp only [hf, he, c1, c2, c3, if_false, Bool.false_eq_true, tick] <;> rfl

theorem step_entry_ok (c : State) (f : Frame) (callers : List Frame) (st : St) (e : Expr)
    (restE : List (St × Expr)) (hf : c.frames = f :: callers) (he : f.exprs = (st, e) :: restE)
    (hok : C11.okStep (step c) = true) :
    (¬ (c.interrupted || c.interruptAt.contains (c.ticks + 1)) = true) ∧
    (¬ limitReached c.tickLimit (c.ticks + 1) = true) ∧
    (¬ limitExceeded c.stackLimit (f :: callers).length = true) := by
  unfold step at hok
  simp only [hf, he] at hok
  by_cases c1 : (c.interrupted || c.interruptAt.contains (c.ticks + 1)) = true
  · rw [if_pos c1] at hok; simp [C11.okStep] at hok
  · rw [if_neg c1] at hok
    by_cases c2 : limitReached c.tickLimit (c.ticks + 1) = true
    · rw [if_pos c2] at hok; simp [C11.okStep] at hok
    · rw [if_neg c2] at hok
      by_cases c3 : limitExceeded c.stackLimit (f :: callers).length = true
      · rw [if_pos c3] at hok; simp [C11.okStep] at hok
      · exact ⟨c1, c2, c3⟩

/-- **One step, seen from a state whose toplevel frame has further values below** (same stop id,
no further entries): exactly the same step. -/
theorem step_same (sb : Option Nat) (c : State) (hsb : c.stopAt = sb) (hok : C11.okStep (step c) = true)
    (hval : ∀ s' v f', step c = .done s' v → hasEntry c = true → s'.frames = [f'] → f'.values ≠ []) :
    step (LF [] R sb c) = C08.mapState (LF [] R sb) (step c) := by
  subst hsb
  match hf : c.frames with
  | [] => simp [step, hf, C11.okStep] at hok
  | f :: callers =>
    match he : f.exprs with
    | [] =>
      cases callers with
      | nil =>
        simp only [step, hf, he] at hok ⊢
        cases hv : f.values with
        | nil => simp [hv, C11.okStep] at hok
        | cons v vals =>
          simp [LF, hf, mapLast, he, hv, C08.mapState, setTop, fx]
      | cons caller rest =>
        simp only [step, hf, he] at hok ⊢
        cases hv : f.values with
        | nil => simp [hv, C11.okStep] at hok
        | cons rv vs =>
          simp only [LF, hf, mapLast, he, hv]
          rw [mapLast_cons]
          by_cases hstop : (f.callerId.isSome && c.stopAt == f.callerId) = true
          · simp [hstop, C08.mapState, LF, mapLast_cons]
          · simp only [hstop, Bool.false_eq_true, if_false, C08.mapState]
            cases f.callerUses <;> simp [gsel_pushV, LF, mapLast_cons]
    | (st, e) :: restE =>
      have hesc' : callers = [] → (([] : List (St × Expr)) = [] ∨ escapes { f with exprs := restE } st e = false) :=
        fun _ => Or.inl rfl
      obtain ⟨c1, c2, c3⟩ := step_entry_ok c f callers st e restE hf he hok
      have hc := step_entry c f callers st e restE hf he c1 c2 c3
      have hL := step_entry (LF [] R c.stopAt c) (gsel [] R callers f) (mapLast (fx [] R) callers) st e
        (gsel [] R callers { f with exprs := restE }).exprs
        (by simp [LF, hf, mapLast_cons]) (gsel_exprs_cons [] R callers f (st, e) restE he)
        (by simpa [LF] using c1) (by simpa [LF] using c2) (by simpa [LF, mapLast_length] using c3)
      rw [gsel_setExprs] at hL
      rw [hL, hc]
      rw [hc] at hok hval
      have hnp : isPanic (dispatch c.prog { f with exprs := restE } st e) = false := by
        cases hd : dispatch c.prog { f with exprs := restE } st e <;> simp [isPanic]
        simp [hd, C11.okStep] at hok
      have hprog : (LF [] R c.stopAt c).prog = c.prog := rfl
      rw [hprog, dispatch_gsel [] R c.prog callers _ st e hnp hesc']
      have hvals : ∀ (a : State) (f' : Frame), a.stopAt = c.stopAt → a.frames = f' :: callers →
          (∀ v, stopCheck a f' st e = .done a v → callers = [] → f'.values ≠ []) →
          (a.stopAt == some e.id) = true → doneSub st e = true →
          (gsel [] R callers f').values = f'.values ∨
            ∃ v vs vs2, f'.values = v :: vs ∧ (gsel [] R callers f').values = v :: vs2 := by
        intro a f' hsa hfa hv' h1 h2
        cases callers with
        | cons x xs => left; simp [gsel]
        | nil =>
          right
          have hdone : ∃ v, stopCheck a f' st e = .done a v := by
            unfold stopCheck
            rw [if_pos h1, if_pos h2]
            cases f'.values <;> simp
          obtain ⟨v, hdone⟩ := hdone
          have := hv' v hdone rfl
          cases hv : f'.values with
          | nil => exact absurd hv this
          | cons w ws => exact ⟨w, ws, ws ++ R, rfl, by simp [gsel, hv]⟩
      cases hd : dispatch c.prog { f with exprs := restE } st e with
      | ok f' =>
        simp only [hd] at hok hval
        simp only [mapF]
        rw [stopCheck_lift (a := setTop (tick c) f') (a2 := setTop (tick (LF [] R c.stopAt c)) (gsel [] R callers f')) (f' := f') (f2 := gsel [] R callers f') (st := st) (e := e)
          (by simp [setTop_stopAt, LF, tick])]
        · rcases stopCheck_shape (setTop (tick c) f') f' st e with hh | ⟨v, hh⟩ <;>
            rw [hh] <;> simp [C08.mapState, setTop, hf, mapLast_cons, LF, tick]
        · apply hvals (setTop (tick c) f') f' (by simp [setTop_stopAt, tick]) (by simp [setTop, tick, hf])
          intro v hv hcs
          subst hcs
          exact hval _ v f' hv (by simp [hasEntry, hf, he]) (by simp [setTop, tick, hf])
      | okOut f' o =>
        simp only [hd] at hok hval
        simp only [mapF]
        rw [stopCheck_lift (a := setTop { tick c with out := c.out ++ o } f') (a2 := setTop { tick (LF [] R c.stopAt c) with out := (LF [] R c.stopAt c).out ++ o } (gsel [] R callers f')) (f' := f') (f2 := gsel [] R callers f') (st := st) (e := e)
          (by simp [setTop_stopAt, LF, tick])]
        · rcases stopCheck_shape (setTop { tick c with out := c.out ++ o } f') f' st e with hh | ⟨v, hh⟩ <;>
            rw [hh] <;> simp [C08.mapState, setTop, hf, mapLast_cons, LF, tick]
        · apply hvals (setTop { tick c with out := c.out ++ o } f') f' (by simp [setTop_stopAt, tick]) (by simp [setTop, tick, hf])
          intro v hv hcs
          subst hcs
          exact hval _ v f' hv (by simp [hasEntry, hf, he]) (by simp [setTop, tick, hf])
      | newFrame f' callee =>
        simp [mapF, C08.mapState, LF, mapLast, mapLast_cons, tick]
      | err f' st' vals er => simp [hd, C11.okStep] at hok
      | panic site => simp [hd, C11.okStep] at hok
      | unsupported w => simp [hd, C11.okStep] at hok

end Incr

-- ====================================================================== run level

namespace Incr
open Machine Resume

/-- the request has come to rest: one frame, nothing pending -/
def settled (c : State) : Bool :=
  match c.frames with
  | [f] => f.exprs.isEmpty
  | _ => false

def topValuesNonempty (c : State) : Bool :=
  match c.frames with
  | f :: _ => !f.values.isEmpty
  | [] => false

/-- **The checked reference evaluation of one request** (`eval` of src/eval.rs with the side
conditions of C11 tested on the way): every step continues or finishes (no error, no crash, within
the fuel); when it finishes the stack is back at the toplevel frame with nothing pending (this
excludes the eval-up-to special case that leaves a `for` loop pending, and a stop inside a call) and
a value stopped at by `stop_at_expr_id` is really there. With `ob = some b` (the request is not the
last one; `b` = the node the concatenated run stops at) additionally `guard b` at every step. -/
def guardO (ob : Option Nat) (c : State) : Bool :=
  match ob with
  | some b => guard b c
  | none => true

def endOK (c c' : State) : Bool := settled c' && (!hasEntry c || topValuesNonempty c')

def evalC (ob : Option Nat) : Nat → State → Option (State × Value)
  | 0, _ => none
  | n + 1, c =>
    if guardO ob c then
      match step c with
      | .cont c' => evalC ob n c'
      | .done c' v =>
        if endOK c c' then some (c', v) else none
      | _ => none
    else none

theorem step_cont_stopAt (s s' : State) (h : step s = .cont s') : s'.stopAt = s.stopAt := by
  have := C11.step_cont_prog s s' h
  unfold step at h
  match hf : s.frames with
  | [] => simp [hf] at h
  | f :: callers =>
    simp only [hf] at h
    match he : f.exprs with
    | [] =>
      simp only [he] at h
      cases callers with
      | nil => cases hv : f.values <;> simp [hv] at h
      | cons caller rest =>
        cases hv : f.values with
        | nil => simp [hv] at h
        | cons v vs => simp only [hv] at h; split at h <;> simp at h; subst h; rfl
    | (st, e0) :: rest =>
      simp only [he] at h
      repeat' split at h
      all_goals (try (unfold stopCheck at h; repeat' split at h))
      all_goals (try (simp at h))
      all_goals (try (subst h; simp [setTop, hf]))

/-- **A whole request, seen from a state whose toplevel frame has further values below.** -/
theorem seg_same (R : List Value) (ob : Option Nat) : ∀ (n : Nat) (c c' : State) (v : Value) (sb : Option Nat),
    c.stopAt = sb → evalC ob n c = some (c', v) →
    Resume.eval n (LF [] R sb c) = .done (LF [] R sb c') v := by
  intro n
  induction n with
  | zero => intro c c' v sb _ h; simp [evalC] at h
  | succ n ih =>
    intro c c' v sb hsb h
    by_cases hgd : guardO ob c = true
    · simp only [evalC, hgd, if_true] at h
      cases hs : step c with
      | cont c1 =>
        simp only [hs] at h
        have := step_same R sb c hsb (by simp [hs, C11.okStep]) (by intro s' v f' hd; simp [hs] at hd)
        simp only [Resume.eval, this, hs, C08.mapState]
        exact ih c1 c' v sb (by rw [step_cont_stopAt c c1 hs]; exact hsb) h
      | done c1 v1 =>
        simp only [hs] at h
        by_cases hcond : endOK c c1 = true
        · simp only [hcond, if_true, Option.some.injEq, Prod.mk.injEq] at h
          obtain ⟨h1, h2⟩ := h
          subst h1 h2
          have := step_same R sb c hsb (by simp [hs, C11.okStep]) (by
            intro s' v f' hd hen hfr
            simp [hs] at hd
            obtain ⟨hd1, _⟩ := hd
            subst hd1
            simp only [endOK, Bool.and_eq_true, Bool.or_eq_true, Bool.not_eq_true'] at hcond
            rcases hcond.2 with h0 | h0
            · rw [hen] at h0; simp at h0
            · simp [topValuesNonempty, hfr] at h0; exact h0)
          simp only [Resume.eval, this, hs, C08.mapState]
        · simp [hcond] at h
      | error s e => simp [hs] at h
      | panic site => simp [hs] at h
      | unsupported w => simp [hs] at h
    · simp [evalC, hgd] at h

/-- The bottom frame of a request that has come to rest, with `T` pending and `R'` as values. -/
def LFend (T : List (St × Expr)) (R' : List Value) (sb : Option Nat) (c : State) : State :=
  { c with stopAt := sb, frames := c.frames.map (fun f => { f with exprs := T, values := R' }) }

theorem eval_cont (s s' : State) (h : step s = .cont s') (k : Nat) :
    Resume.eval (k + 1) s = Resume.eval k s' := by
  simp [Resume.eval, h]

/-- **A whole request that is not the last one, seen from the concatenated run**: after at most
`n` steps the concatenated run is where the next input starts — the same state, the next inputs'
entries pending, some values on the value stack. -/
theorem seg_diff (T : List (St × Expr)) (b : Nat) : ∀ (n : Nat) (c c' : State) (v : Value) (R : List Value),
    evalC (some b) n c = some (c', v) →
    ∃ (m : Nat) (R' : List Value), ∀ k,
      Resume.eval (m + k) (LF T R (some b) c) = Resume.eval k (LFend T R' (some b) c') := by
  intro n
  induction n with
  | zero => intro c c' v R h; simp [evalC] at h
  | succ n ih =>
    intro c c' v R h
    by_cases hg : guard b c = true
    · simp only [evalC, guardO, hg, if_true] at h
      cases hs : step c with
      | cont c1 =>
        simp only [hs] at h
        obtain ⟨m, R', hm⟩ := ih c1 c' v R h
        have hd := step_diff T R b c c1 hg (Or.inl hs)
        refine ⟨m + 1, R', fun k => ?_⟩
        rw [show m + 1 + k = (m + k) + 1 by omega, eval_cont _ _ hd]
        exact hm k
      | done c1 v1 =>
        simp only [hs] at h
        by_cases hcond : endOK c c1 = true
        · simp only [hcond, if_true, Option.some.injEq, Prod.mk.injEq] at h
          obtain ⟨h1, h2⟩ := h
          subst h1 h2
          simp only [endOK, Bool.and_eq_true, Bool.or_eq_true, Bool.not_eq_true'] at hcond
          obtain ⟨hset, _⟩ := hcond
          -- the shape of the settled state
          match hfr : c1.frames, hset with
          | [f1], hset =>
            have hf1 : f1.exprs = [] := by simpa [settled, hfr] using hset
            by_cases hen : hasEntry c = true
            · -- the request stopped at its last expression: the concatenated run continues
              have hd := step_diff T R b c c1 hg (Or.inr ⟨v1, hs, hen⟩)
              refine ⟨1, f1.values ++ R, fun k => ?_⟩
              rw [show 1 + k = k + 1 by omega, eval_cont _ _ hd]
              have : LF T R (some b) c1 = LFend T (f1.values ++ R) (some b) c1 := by
                simp [LF, LFend, hfr, mapLast, fx, hf1]
              rw [this]
            · -- a frame came to its end
              have hen' : hasEntry c = false := by simpa using hen
              match hf : c.frames with
              | [] => simp [step, hf] at hs
              | [f] =>
                have he : f.exprs = [] := by
                  cases hx : f.exprs with
                  | nil => rfl
                  | cons x xs => simp [hasEntry, hf, hx] at hen'
                -- the toplevel frame itself: the concatenated run is already there
                simp only [step, hf, he] at hs
                cases hv : f.values with
                | nil => simp [hv] at hs
                | cons w ws =>
                  simp [hv] at hs
                  obtain ⟨hs1, hs2⟩ := hs
                  refine ⟨0, f.values ++ R, fun k => ?_⟩
                  have : LF T R (some b) c = LFend T (f.values ++ R) (some b) c1 := by
                    subst hs1
                    simp [LF, LFend, hf, mapLast, fx, he, setTop]
                  simp [this]
              | f :: caller :: rest =>
                have he : f.exprs = [] := by
                  cases hx : f.exprs with
                  | nil => rfl
                  | cons x xs => simp [hasEntry, hf, hx] at hen'
                simp only [step, hf, he] at hs
                cases hv : f.values with
                | nil => simp [hv] at hs
                | cons rv vs =>
                  simp only [hv] at hs
                  split at hs
                  · simp at hs
                    obtain ⟨hs1, hs2⟩ := hs
                    subst hs1
                    simp at hfr
                    obtain ⟨hfr1, hfr2⟩ := hfr
                    subst hfr1 hfr2
                    -- the call returns: the concatenated run pushes the value and goes on
                    have hcid : f.callerId ≠ some b := by
                      simp only [guard, Bool.and_eq_true, Bool.not_eq_true', bne_iff_ne, ne_eq] at hg
                      simpa [hitId, hf, he] using hg.2
                    have hnb : (f.callerId.isSome && (some b == f.callerId)) = false := by
                      cases hc : f.callerId with
                      | none => simp
                      | some x => simp [hc] at hcid ⊢; exact fun h => hcid h.symm
                    refine ⟨1, (if f.callerUses then rv :: (caller.values ++ R) else caller.values ++ R), fun k => ?_⟩
                    have hstep : step (LF T R (some b) c) =
                        .cont (LFend T (if f.callerUses then rv :: (caller.values ++ R) else caller.values ++ R) (some b)
                          { c with frames := [caller] }) := by
                      unfold step
                      simp only [LF, hf, mapLast, he, hv, hnb, Bool.false_eq_true, if_false]
                      cases f.callerUses <;> simp [LFend, fx, Frame.pushV, hf1]
                    rw [show 1 + k = k + 1 by omega, eval_cont _ _ hstep]
                  · simp at hs
          | [], hset => simp [settled, hfr] at hset
          | _ :: _ :: _, hset => simp [settled, hfr] at hset
        · simp [hcond] at h
      | error s e => simp [hs] at h
      | panic site => simp [hs] at h
      | unsupported w => simp [hs] at h
    · simp [evalC, guardO, hg] at h

end Incr
