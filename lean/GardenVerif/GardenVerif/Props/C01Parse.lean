import GardenVerif.Lemmas.Parse
/-!
C01 (parser half) — the parser model M2 (`pn = false`: /repo HEAD with the left-assoc, tuple-progress and
eof-progress repairs) never panics. See the end of the file for the main theorem and its coverage.
-/

namespace C01Parse
open Parse ParseLemmas

/-- Weakest precondition: `m` run from `s` does not panic and, if it returns, `Q` holds. -/
def wp {α} (m : P α) (Q : α → St → Prop) (s : St) : Prop :=
  match m s with
  | .ok a s' => Q a s'
  | .panic _ => False
  | .outOfFuel => True

theorem wp_bind {α β} (m : P α) (f : α → P β) (Q : β → St → Prop) (s : St) :
    wp (m >>= f) Q s ↔ wp m (fun a s' => wp (f a) Q s') s := by
  simp only [wp, bind_apply, P.bind]
  cases m s <;> simp

theorem wp_pure {α} (a : α) (Q : α → St → Prop) (s : St) : wp (pure a : P α) Q s ↔ Q a s := by
  simp [wp, pure_apply]

theorem wp_outOfFuel {α} (Q : α → St → Prop) (s : St) : wp (outOfFuel : P α) Q s ↔ True := by
  simp [wp, outOfFuel]

theorem wp_panic {α} (x : String) (Q : α → St → Prop) (s : St) : wp (Parse.panic x : P α) Q s ↔ False := by
  simp [wp, Parse.panic]

theorem wp_getIdx (Q : Nat → St → Prop) (s : St) : wp getIdx Q s ↔ Q s.idx s := by simp [wp, getIdx]
theorem wp_getDiags (Q : List DiagKind → St → Prop) (s : St) : wp getDiags Q s ↔ Q s.diags s := by simp [wp, getDiags]
theorem wp_setDiags (d : List DiagKind) (Q : Unit → St → Prop) (s : St) :
    wp (setDiags d) Q s ↔ Q () { s with diags := d } := by simp [wp, setDiags]
theorem wp_diag (k : DiagKind) (Q : Unit → St → Prop) (s : St) :
    wp (diag k) Q s ↔ Q () { s with diags := s.diags ++ [k] } := by simp [wp, diag]
theorem wp_peekAt (toks : Toks) (k : Nat) (Q : Option TokI → St → Prop) (s : St) :
    wp (peekAt toks k) Q s ↔ Q ((toks[s.idx + k]?).map fun t => ⟨t, s.idx + k⟩) s := by simp [wp, peekAt]
theorem wp_peek (toks : Toks) (Q : Option TokI → St → Prop) (s : St) :
    wp (peek toks) Q s ↔ Q ((toks[s.idx]?).map fun t => ⟨t, s.idx⟩) s := by simp [wp, peek, peekAt]
theorem wp_peekIs (toks : Toks) (x : String) (Q : Bool → St → Prop) (s : St) :
    wp (peekIs toks x) Q s ↔ Q (match toks[s.idx]? with | some t => t.text == x | none => false) s := by
  simp only [wp, peekIs]; cases toks[s.idx]? <;> exact Iff.rfl
theorem wp_pop (toks : Toks) (Q : Option TokI → St → Prop) (s : St) :
    wp (pop toks) Q s ↔ (match toks[s.idx]? with
      | some t => Q (some ⟨t, s.idx⟩) { s with idx := s.idx + 1 }
      | none => Q none s) := by
  simp only [wp, pop]; cases toks[s.idx]? <;> simp
theorem wp_prev (toks : Toks) (Q : Option TokI → St → Prop) (s : St) :
    wp (prev toks) Q s ↔ Q (if s.idx = 0 then none else (toks[s.idx - 1]?).map fun t => ⟨t, s.idx - 1⟩) s := by
  simp [wp, prev]
theorem wp_unpop (Q : Unit → St → Prop) (s : St) :
    wp unpop Q s ↔ (0 < s.idx ∧ Q () { s with idx := s.idx - 1 }) := by
  simp only [wp, unpop]
  by_cases h : 0 < s.idx <;> simp [h]
theorem wp_ite {α} (c : Prop) [Decidable c] (a b : P α) (Q : α → St → Prop) (s : St) :
    wp (if c then a else b) Q s ↔ (if c then wp a Q s else wp b Q s) := by
  split <;> rfl
theorem wp_mono {α} {m : P α} {Q Q' : α → St → Prop} {s : St} (h : wp m Q s) (hq : ∀ a s', Q a s' → Q' a s') :
    wp m Q' s := by
  unfold wp at *
  cases hm : m s with
  | ok a s' => rw [hm] at h; exact hq a s' h
  | panic p => rw [hm] at h; exact h
  | outOfFuel => trivial

/-- `1` iff the last token is a symbol-like token (then `parse_symbol` at the end of the file does not
un-pop, for lexer-like tokens). -/
def lastSym (toks : Toks) : Nat :=
  match toks.getLast? with
  | some t => if isSymbolTok t.text then 1 else 0
  | none => 0

/-- Movement allowed to a parse function: forwards, or — only when started at the end of the file
and the last token is not symbol-like — back onto the last token. -/
def Mv (toks : Toks) (i j : Nat) : Prop :=
  j ≤ toks.length ∧ (i ≤ j ∨ (i = toks.length ∧ j + 1 = toks.length ∧ lastSym toks = 0))

/-- What the real lexer guarantees and the parser relies on: a float-looking token is a whole float
(else `parse::<f64>().unwrap()` panics); a symbol-like token sits on one line. -/
structure LexLike (toks : Toks) : Prop where
  floats : ∀ t ∈ toks, isFloatTok t.text = true → floatWhole (t.text.toList.filter (· != '_')) = true
  symLines : ∀ t ∈ toks, isSymbolTok t.text = true → t.endLine = t.line

theorem mem_of_get {toks : Toks} {i : Nat} {t : Tok} (h : toks[i]? = some t) : t ∈ toks :=
  List.mem_of_getElem? h

theorem get_lt {toks : Toks} {i : Nat} {t : Tok} (h : toks[i]? = some t) : i < toks.length :=
  (List.getElem?_eq_some_iff.mp h).1

theorem get_none {toks : Toks} {i : Nat} (h : toks[i]? = none) : toks.length ≤ i :=
  List.getElem?_eq_none_iff.mp h

theorem lastSym_of_last {toks : Toks} {t : Tok} (h : toks[toks.length - 1]? = some t) (hs : isSymbolTok t.text = true) :
    lastSym toks = 1 := by
  have : toks.getLast? = some t := by rw [List.getLast?_eq_getElem?]; exact h
  simp [lastSym, this, hs]

theorem lastSym_zero {toks : Toks} {t : Tok} (h : toks[toks.length - 1]? = some t) (hs : isSymbolTok t.text = false) :
    lastSym toks = 0 := by
  have : toks.getLast? = some t := by rw [List.getLast?_eq_getElem?]; exact h
  simp [lastSym, this, hs]

/-- Does token `i` exist and have text `x`? -/
def tokIs (toks : Toks) (i : Nat) (x : String) : Bool :=
  match toks[i]? with | some t => t.text == x | none => false

section level0
variable (toks : Toks) (hne : toks ≠ [])
include hne

theorem len_pos : 0 < toks.length := List.length_pos_iff.mpr hne

/-- `require_a_token`: pops if there is a token; at the end of the file hands back the previous one. -/
theorem spec_requireAToken (s : St) (hs : s.idx ≤ toks.length) :
    wp (requireAToken toks) (fun t s' =>
      (∃ t0, toks[s.idx]? = some t0 ∧ t = ⟨t0, s.idx⟩ ∧ s'.idx = s.idx + 1) ∨
      (toks[s.idx]? = none ∧ s'.idx = s.idx ∧ 0 < s.idx ∧ t.i = s.idx - 1 ∧ toks[s.idx - 1]? = some t.tok)) s := by
  unfold requireAToken
  simp only [wp_bind, wp_pop]
  cases h : toks[s.idx]? with
  | some t0 => simp [wp_pure]
  | none =>
    have hl := get_none h
    have hp := len_pos toks hne
    have h0 : s.idx ≠ 0 := by omega
    have hlt : s.idx - 1 < toks.length := by omega
    have hpv : toks[s.idx - 1]? = some toks[s.idx - 1] := List.getElem?_eq_getElem hlt
    simp only [wp_prev, wp_bind, wp_diag, h0, ↓reduceIte, hpv, Option.map_some, wp_pure]
    simp; omega

/-- `check_required_token`. -/
theorem spec_checkRequiredToken (x : String) (s : St) (hs : s.idx ≤ toks.length) :
    wp (checkRequiredToken toks x) (fun r s' =>
      r.1 = tokIs toks s.idx x ∧ s'.idx ≤ toks.length ∧
      ((tokIs toks s.idx x = true ∧ s'.idx = s.idx + 1) ∨ (tokIs toks s.idx x = false ∧ s'.idx = s.idx))) s := by
  unfold checkRequiredToken
  simp only [wp_bind, wp_prev, wp_pop, tokIs]
  cases h : toks[s.idx]? with
  | some t0 =>
    have := get_lt h
    by_cases hx : t0.text = x
    · simp [TokI.text, hx, wp_pure]; omega
    · simp [TokI.text, hx, wp_pure, wp_bind, wp_diag, wp_unpop]; omega
  | none =>
    have hl := get_none h
    have hp := len_pos toks hne
    have h0 : s.idx ≠ 0 := by omega
    have hlt : s.idx - 1 < toks.length := by omega
    have hpv : toks[s.idx - 1]? = some toks[s.idx - 1] := List.getElem?_eq_getElem hlt
    simp [wp_bind, wp_diag, h0, hpv, wp_pure, hs]

theorem spec_requireToken (x : String) (s : St) (hs : s.idx ≤ toks.length) :
    wp (requireToken toks x) (fun _ s' => s'.idx ≤ toks.length ∧
      ((tokIs toks s.idx x = true ∧ s'.idx = s.idx + 1) ∨ (tokIs toks s.idx x = false ∧ s'.idx = s.idx))) s := by
  unfold requireToken
  rw [wp_bind]
  refine wp_mono (spec_checkRequiredToken toks hne x s hs) ?_
  intro r s' h
  simp only [wp_pure]
  exact h.2

theorem spec_requiredTokenOk (x : String) (s : St) (hs : s.idx ≤ toks.length) :
    wp (requiredTokenOk toks x) (fun _ s' => s'.idx ≤ toks.length ∧
      ((tokIs toks s.idx x = true ∧ s'.idx = s.idx + 1) ∨ (tokIs toks s.idx x = false ∧ s'.idx = s.idx))) s := by
  unfold requiredTokenOk
  rw [wp_bind]
  refine wp_mono (spec_checkRequiredToken toks hne x s hs) ?_
  intro r s' h
  simp only [wp_pure]
  exact h.2

/-- `parse_symbol` (code unchanged): never panics; away from the end of the file it moves 0 or 1
forwards and a non-placeholder name means it consumed the token; at the end of the file it may move
back onto the last token, only if that token is not symbol-like. -/
theorem spec_parseSymbol (hl : LexLike toks) (pn : Bool) (s : St) (hs : s.idx ≤ toks.length) :
    wp (parseSymbol toks pn) (fun r s' => Mv toks s.idx s'.idx ∧
      (s.idx < toks.length → s.idx ≤ s'.idx ∧ s'.idx ≤ s.idx + 1 ∧
        (isPlaceholderName r.name = false → s'.idx = s.idx + 1))) s := by
  unfold parseSymbol
  rw [wp_bind, wp_prev, wp_bind]
  refine wp_mono (spec_requireAToken toks hne s hs) ?_
  intro t s1 h1
  obtain ⟨i1, d1⟩ := s1
  simp only at h1
  rcases h1 with ⟨t0, ht0, rfl, hi⟩ | ⟨hnone, hi, hpos, hti, hprev⟩
  · -- a token was popped
    have hlt := get_lt ht0
    subst hi
    cases h1 : isSymbolTok t0.text with
    | false =>
      simp only [TokI.text, h1, Bool.not_false, ↓reduceIte, wp_bind, wp_diag, wp_unpop, wp_pure, Mv]
      simp [isPlaceholderName]; omega
    | true =>
      cases h2 : keywords.contains t0.text with
      | false =>
        simp only [TokI.text, h1, h2, Bool.not_true, Bool.false_eq_true, ↓reduceIte, wp_pure, Mv]
        simp; omega
      | true =>
        simp only [TokI.text, h1, h2, Bool.not_true, Bool.false_eq_true, ↓reduceIte]
        rw [wp_ite]
        split <;> simp [wp_bind, wp_diag, wp_unpop, wp_pure, Mv, isPlaceholderName]
        all_goals (first | omega | (split <;> omega))
  · -- end of the file: `t` is the previous token
    subst hi
    have hge := get_none hnone
    have hlen : s.idx = toks.length := by omega
    have hprev' : toks[toks.length - 1]? = some t.tok := by rw [← hlen]; exact hprev
    have h0 : s.idx ≠ 0 := by omega
    cases h1 : isSymbolTok t.tok.text with
    | false =>
      have hz := lastSym_zero hprev' h1
      simp only [TokI.text, h1, Bool.not_false, ↓reduceIte, wp_bind, wp_diag, wp_unpop, wp_pure, Mv]
      simp; omega
    | true =>
      cases h2 : keywords.contains t.tok.text with
      | false =>
        simp only [TokI.text, h1, h2, Bool.not_true, Bool.false_eq_true, ↓reduceIte, wp_pure, Mv]
        simp; omega
      | true =>
        have hline := hl.symLines t.tok (mem_of_get hprev) h1
        simp only [TokI.text, h1, h2, Bool.not_true, Bool.false_eq_true, ↓reduceIte, h0, hprev, Option.map_some,
          hline, beq_self_eq_true, wp_bind, wp_diag, wp_pure, Mv]
        simp; omega

theorem spec_dupDiags (xs seen : List String) (s : St) :
    wp (dupDiags xs seen) (fun _ s' => s'.idx = s.idx) s := by
  induction xs generalizing seen s with
  | nil => simp [dupDiags, wp_pure]
  | cons x xs ih =>
    unfold dupDiags
    split
    · exact ih seen s
    · split
      · rw [wp_bind, wp_diag]; exact ih seen _
      · exact ih _ s

theorem spec_diagN (n : Nat) (k : DiagKind) (s : St) : wp (diagN n k) (fun _ s' => s'.idx = s.idx) s := by
  induction n generalizing s with
  | zero => simp [diagN, wp_pure]
  | succ n ih => unfold diagN; rw [wp_bind, wp_diag]; exact ih _

theorem spec_closePos (term : String) (s : St) (hs : s.idx ≤ toks.length) :
    wp (closePos toks term) (fun _ s' => s.idx ≤ s'.idx ∧ s'.idx ≤ s.idx + 1 ∧ s'.idx ≤ toks.length) s := by
  unfold closePos
  rw [wp_bind, wp_peek]
  cases h : toks[s.idx]? with
  | none =>
    simp only [Option.map_none, wp_bind, wp_prev]
    split <;> simp [wp_pure, hs]
  | some t =>
    have := get_lt h
    simp only [Option.map_some]
    rw [wp_ite]
    split
    · simp [wp_bind, wp_pop, h, wp_pure]; omega
    · simp only [wp_bind, wp_prev]
      split <;> simp [wp_pure, hs]

theorem spec_skipToCloseBrace (s : St) (hs : s.idx ≤ toks.length) :
    wp (skipToCloseBrace toks) (fun _ s' => s.idx ≤ s'.idx ∧ s'.idx ≤ toks.length ∧
      (tokIs toks s.idx "}" = false → s.idx < toks.length → s.idx < s'.idx)) s := by
  simp only [wp, skipToCloseBrace]
  have h1 : ((toks.drop s.idx).takeWhile (fun t => t.text != "}")).length ≤ (toks.drop s.idx).length :=
    (List.takeWhile_sublist _).length_le
  have h2 : (toks.drop s.idx).length = toks.length - s.idx := by simp
  refine ⟨by omega, by omega, ?_⟩
  intro hne' hlt
  have hget : toks[s.idx]? = some toks[s.idx] := List.getElem?_eq_getElem hlt
  have hd : toks.drop s.idx = toks[s.idx] :: toks.drop (s.idx + 1) := by
    exact List.drop_eq_getElem_cons hlt
  simp only [tokIs, hget] at hne'
  have : (toks[s.idx].text != "}") = true := by simp [bne, hne']
  rw [hd, List.takeWhile_cons, if_pos this]
  simp

end level0


/-! ### Type hints, parameters, destructuring, patterns -/

macro "wpsimp" : tactic =>
  `(tactic| simp only [wp_bind, wp_pure, wp_outOfFuel, wp_panic, wp_getIdx, wp_diag, wp_peek, wp_peekAt, wp_peekIs,
      wp_pop, wp_prev, wp_unpop, wp_ite, wp_getDiags, wp_setDiags, Nat.add_zero, Option.map_some, Option.map_none,
      Option.isNone_some, Option.isNone_none, Bool.not_false, Bool.not_true, Bool.true_and, Bool.false_and,
      Bool.and_true, Bool.and_false, Bool.false_eq_true, ↓reduceIte])

theorem wp_peekIs' (toks : Toks) (x : String) (Q : Bool → St → Prop) (s : St) :
    wp (peekIs toks x) Q s ↔ Q (tokIs toks s.idx x) s := by
  rw [wp_peekIs]; rfl

macro "wpsimp'" : tactic =>
  `(tactic| simp only [wp_bind, wp_pure, wp_outOfFuel, wp_panic, wp_getIdx, wp_diag, wp_peek, wp_peekAt, wp_peekIs',
      wp_pop, wp_prev, wp_unpop, wp_ite, wp_getDiags, wp_setDiags, Nat.add_zero, Option.map_some, Option.map_none,
      Option.isNone_some, Option.isNone_none, Bool.not_false, Bool.not_true, Bool.true_and, Bool.false_and,
      Bool.and_true, Bool.and_false, Bool.false_eq_true, ↓reduceIte])

macro "tk" h:ident : tactic =>
  `(tactic| (try simp only [$h:ident, Bool.false_eq_true, ↓reduceIte, Option.map_some, Option.map_none]))

theorem Mv.refl {toks : Toks} {i : Nat} (h : i ≤ toks.length) : Mv toks i i := ⟨h, Or.inl (Nat.le_refl _)⟩

theorem Mv.trans {toks : Toks} {i j k : Nat} (h1 : Mv toks i j) (h2 : Mv toks j k) : Mv toks i k := by
  simp only [Mv] at *; omega

theorem Mv.step {toks : Toks} {i j : Nat} (h : i ≤ j) (hj : j ≤ toks.length) : Mv toks i j := ⟨hj, Or.inl h⟩

/-- Callee step: run a callee whose spec is `Mv`, continue from the new state. -/
theorem wp_callee {α β} {m : P α} {f : α → P β} {Q : β → St → Prop} {s : St} {R : α → St → Prop}
    (hm : wp m R s) (hf : ∀ a s', R a s' → wp (f a) Q s') : wp (m >>= f) Q s := by
  rw [wp_bind]; exact wp_mono hm hf

section level1
variable (toks : Toks) (hne : toks ≠ []) (hl : LexLike toks)
include hne hl

/-- The type-hint sub-grammar never panics; movement `Mv`. -/
theorem hints_ok : ∀ fuel,
    (∀ s, s.idx ≤ toks.length → wp (parseTypeHint toks false fuel) (fun _ s' => Mv toks s.idx s'.idx) s) ∧
    (∀ s, s.idx ≤ toks.length → wp (parseTypeArguments toks false fuel) (fun _ s' => Mv toks s.idx s'.idx) s) ∧
    (∀ acc s, s.idx ≤ toks.length → wp (typeArgsLoop toks false fuel acc) (fun _ s' => Mv toks s.idx s'.idx) s) ∧
    (∀ s, s.idx ≤ toks.length → wp (parseTupleTypeHint toks false fuel) (fun _ s' => Mv toks s.idx s'.idx) s) ∧
    (∀ acc s, s.idx ≤ toks.length → wp (tupleHintLoop toks false fuel acc) (fun _ s' => Mv toks s.idx s'.idx) s) := by
  intro fuel
  induction fuel with
  | zero =>
    refine ⟨?_, ?_, ?_, ?_, ?_⟩ <;> intros <;>
      first
        | (rw [parseTypeHint]; simp [wp_outOfFuel])
        | (rw [parseTypeArguments]; simp [wp_outOfFuel])
        | (rw [typeArgsLoop]; simp [wp_outOfFuel])
        | (rw [parseTupleTypeHint]; simp [wp_outOfFuel])
        | (rw [tupleHintLoop]; simp [wp_outOfFuel])
  | succ fuel ih =>
    obtain ⟨h1, h2, h3, h4, h5⟩ := ih
    refine ⟨?_, ?_, ?_, ?_, ?_⟩
    · -- parseTypeHint
      intro s hs
      rw [parseTypeHint]
      wpsimp
      have rest : wp (parseSymbol toks false) (fun a s' => wp (parseTypeArguments toks false fuel)
          (fun a_1 s'_1 => if (a.name == "Tuple") = true then Mv toks s.idx s'_1.idx else Mv toks s.idx s'_1.idx) s') s := by
        refine wp_mono (spec_parseSymbol toks hne hl false s hs) ?_
        intro sym s1 m1
        refine wp_mono (h2 s1 m1.1.1) ?_
        intro args s2 m2
        have m12 := Mv.trans m1.1 m2
        split <;> exact m12
      cases ht : toks[s.idx]? with
      | none => tk ht; exact rest
      | some t =>
        tk ht
        split
        · exact h4 s hs
        · exact rest
    · -- parseTypeArguments
      intro s hs
      rw [parseTypeArguments]
      wpsimp
      have rest : wp (requireToken toks "<") (fun a s' => wp (typeArgsLoop toks false fuel [])
          (fun a s'_1 => wp (requireToken toks ">") (fun a_1 s' => Mv toks s.idx s'.idx) s'_1) s') s := by
        refine wp_mono (spec_requireToken toks hne "<" s hs) ?_
        intro _ s1 m1
        have hm1 : Mv toks s.idx s1.idx := Mv.step (by omega) m1.1
        refine wp_mono (h3 [] s1 m1.1) ?_
        intro args s2 m2
        refine wp_mono (spec_requireToken toks hne ">" s2 m2.1) ?_
        intro _ s3 m3
        exact Mv.trans (Mv.trans hm1 m2) (Mv.step (by omega) m3.1)
      cases ht : toks[s.idx]? with
      | none => tk ht; exact Mv.refl hs
      | some t =>
        tk ht
        split
        · exact Mv.refl hs
        · exact rest
    · -- typeArgsLoop
      intro acc s hs
      rw [typeArgsLoop]
      wpsimp
      cases ht : toks[s.idx]? with
      | none => tk ht; wpsimp; exact Mv.refl hs
      | some t =>
        tk ht
        wpsimp
        split
        · exact Mv.refl hs
        · refine wp_mono (h1 s hs) ?_
          intro arg s1 m1
          cases ht1 : toks[s1.idx]? with
          | none => tk ht1; wpsimp; exact m1
          | some t1 =>
            have hlt := get_lt ht1
            tk ht1
            wpsimp
            split
            · tk ht1
              refine wp_mono (h3 _ ⟨s1.idx + 1, s1.diags⟩ (by first | omega | (simp only []; omega))) ?_
              intro _ s2 m2
              exact Mv.trans (Mv.trans m1 (Mv.step (Nat.le_succ _) (by first | omega | (simp only []; omega)))) m2
            · split <;> exact m1
    · -- parseTupleTypeHint
      intro s hs
      rw [parseTupleTypeHint]
      wpsimp
      refine wp_mono (spec_requireToken toks hne "(" s hs) ?_
      intro _ s1 m1
      have hm1 : Mv toks s.idx s1.idx := Mv.step (by omega) m1.1
      refine wp_mono (h5 [] s1 m1.1) ?_
      intro items s2 m2
      refine wp_mono (spec_requireToken toks hne ")" s2 m2.1) ?_
      intro _ s3 m3
      exact Mv.trans (Mv.trans hm1 m2) (Mv.step (by omega) m3.1)
    · -- tupleHintLoop
      intro acc s hs
      rw [tupleHintLoop]
      wpsimp
      have rest : wp (parseTypeHint toks false fuel) (fun a s' => wp
          (match Option.map (fun t => ({ tok := t, i := s'.idx } : TokI)) toks[s'.idx]? with
          | none => do
            diag DiagKind.incomplete
            pure (acc ++ [a])
          | some t =>
            if (t.tok.text == ")") = true then pure (acc ++ [a])
            else
              if (t.tok.text == ",") = true then do
                let _ ← pop toks
                let __do_lift ← getIdx
                if __do_lift > s.idx then tupleHintLoop toks false fuel (acc ++ [a]) else pure (acc ++ [a])
              else do
                diag DiagKind.incomplete
                let _ ← pop toks
                let __do_lift ← getIdx
                if __do_lift > s.idx then tupleHintLoop toks false fuel (acc ++ [a]) else pure (acc ++ [a]))
          (fun x s' => Mv toks s.idx s'.idx) s') s := by
        refine wp_mono (h1 s hs) ?_
        intro h s1 m1
        cases ht1 : toks[s1.idx]? with
        | none => tk ht1; wpsimp; exact m1
        | some t1 =>
          have hlt := get_lt ht1
          have hstep : Mv toks s.idx (s1.idx + 1) := Mv.trans m1 (Mv.step (Nat.le_succ _) (by omega))
          tk ht1
          wpsimp
          split
          · exact m1
          · split
            · tk ht1
              split
              · refine wp_mono (h5 _ ⟨s1.idx + 1, s1.diags⟩ (by first | omega | (simp only []; omega))) ?_
                intro _ s2 m2
                exact Mv.trans hstep m2
              · exact hstep
            · tk ht1
              split
              · refine wp_mono (h5 _ ⟨s1.idx + 1, _⟩ (by first | omega | (simp only []; omega))) ?_
                intro _ s2 m2
                exact Mv.trans hstep m2
              · exact hstep
      cases ht : toks[s.idx]? with
      | none => tk ht; exact rest
      | some t =>
        tk ht
        split
        · exact Mv.refl hs
        · exact rest

theorem hint_ok (fuel : Nat) (s : St) (hs : s.idx ≤ toks.length) :
    wp (parseTypeHint toks false fuel) (fun _ s' => Mv toks s.idx s'.idx) s :=
  (hints_ok toks hne hl fuel).1 s hs

theorem typeParamsLoop_ok : ∀ fuel acc s, s.idx ≤ toks.length →
    wp (typeParamsLoop toks false fuel acc) (fun _ s' => Mv toks s.idx s'.idx) s := by
  intro fuel
  induction fuel with
  | zero => intro acc s hs; rw [typeParamsLoop]; simp [wp_outOfFuel]
  | succ fuel ih =>
    intro acc s hs
    rw [typeParamsLoop]
    wpsimp
    have rest : wp (parseSymbol toks false) (fun a s' => wp
        (match Option.map (fun t => ({ tok := t, i := s'.idx } : TokI)) toks[s'.idx]? with
        | some t =>
          if (t.text == ",") = true then do
            let _ ← pop toks
            let __do_lift ← getIdx
            if (!false && decide (__do_lift ≤ s.idx)) = true then pure (acc ++ [a.name])
            else typeParamsLoop toks false fuel (acc ++ [a.name])
          else if (t.text == ">") = true then pure (acc ++ [a.name]) else do
            diag DiagKind.invalid
            pure (acc ++ [a.name])
        | none => do
          diag DiagKind.incomplete
          pure (acc ++ [a.name]))
        (fun x s' => Mv toks s.idx s'.idx) s') s := by
      refine wp_mono (spec_parseSymbol toks hne hl false s hs) ?_
      intro sym s1 m1
      cases ht1 : toks[s1.idx]? with
      | none => tk ht1; wpsimp; exact m1.1
      | some t1 =>
        have hlt := get_lt ht1
        have hstep : Mv toks s.idx (s1.idx + 1) := Mv.trans m1.1 (Mv.step (Nat.le_succ _) (by omega))
        tk ht1
        split
        · wpsimp
          tk ht1
          split
          · exact hstep
          · refine wp_mono (ih _ ⟨s1.idx + 1, s1.diags⟩ (by first | omega | (simp only []; omega))) ?_
            intro _ s2 m2
            exact Mv.trans hstep m2
        · split <;> wpsimp <;> exact m1.1
    cases ht : toks[s.idx]? with
    | none => tk ht; exact rest
    | some t =>
      tk ht
      split
      · exact Mv.refl hs
      · exact rest

theorem parseTypeParams_ok (fuel : Nat) (s : St) (hs : s.idx ≤ toks.length) :
    wp (parseTypeParams toks false fuel) (fun _ s' => Mv toks s.idx s'.idx) s := by
  unfold parseTypeParams
  wpsimp
  have rest : wp (requireToken toks "<") (fun a s' => wp (typeParamsLoop toks false fuel [])
      (fun a s'_1 => wp (requireToken toks ">") (fun a_1 s' => Mv toks s.idx s'.idx) s'_1) s') s := by
    refine wp_mono (spec_requireToken toks hne "<" s hs) ?_
    intro _ s1 m1
    have hm1 : Mv toks s.idx s1.idx := Mv.step (by omega) m1.1
    refine wp_mono (typeParamsLoop_ok toks hne hl fuel [] s1 m1.1) ?_
    intro args s2 m2
    refine wp_mono (spec_requireToken toks hne ">" s2 m2.1) ?_
    intro _ s3 m3
    exact Mv.trans (Mv.trans hm1 m2) (Mv.step (by omega) m3.1)
  cases ht : toks[s.idx]? with
  | none => tk ht; exact Mv.refl hs
  | some t =>
    tk ht
    split
    · exact Mv.refl hs
    · exact rest

theorem parseColonAnd_ok (fuel : Nat) (s : St) (hs : s.idx ≤ toks.length) :
    wp (parseColonAnd toks false fuel) (fun _ s' => Mv toks s.idx s'.idx) s := by
  unfold parseColonAnd
  wpsimp
  refine wp_mono (spec_requireToken toks hne ":" s hs) ?_
  intro _ s1 m1
  have hm1 : Mv toks s.idx s1.idx := Mv.step (by omega) m1.1
  refine wp_mono (hint_ok toks hne hl fuel s1 m1.1) ?_
  intro _ s2 m2
  exact Mv.trans hm1 m2

theorem parseColonAndHintOpt_ok (fuel : Nat) (s : St) (hs : s.idx ≤ toks.length) :
    wp (parseColonAndHintOpt toks false fuel) (fun _ s' => Mv toks s.idx s'.idx) s := by
  unfold parseColonAndHintOpt
  wpsimp
  cases ht : toks[s.idx]? with
  | none => tk ht; wpsimp; exact Mv.refl hs
  | some t =>
    tk ht
    split
    · wpsimp
      refine wp_mono (parseColonAnd_ok toks hne hl fuel s hs) ?_
      intro _ s1 m1; exact m1
    · split
      · wpsimp
        refine wp_mono (hint_ok toks hne hl fuel _ hs) ?_
        intro _ s1 m1; exact m1
      · wpsimp; exact Mv.refl hs

theorem parseParameter_ok (fuel : Nat) (s : St) (hs : s.idx ≤ toks.length) :
    wp (parseParameter toks false fuel) (fun _ s' => Mv toks s.idx s'.idx) s := by
  unfold parseParameter
  wpsimp
  refine wp_mono (spec_parseSymbol toks hne hl false s hs) ?_
  intro _ s1 m1
  refine wp_mono (parseColonAndHintOpt_ok toks hne hl fuel s1 m1.1.1) ?_
  intro _ s2 m2
  exact Mv.trans m1.1 m2

theorem paramsLoop_ok : ∀ fuel acc s, s.idx ≤ toks.length →
    wp (paramsLoop toks false fuel acc) (fun _ s' => Mv toks s.idx s'.idx) s := by
  intro fuel
  induction fuel with
  | zero => intro acc s hs; rw [paramsLoop]; simp [wp_outOfFuel]
  | succ fuel ih =>
    intro acc s hs
    rw [paramsLoop]
    wpsimp
    have rest : wp (parseParameter toks false fuel) (fun a s' => wp
        (match Option.map (fun t => ({ tok := t, i := s'.idx } : TokI)) toks[s'.idx]? with
        | some t =>
          if (t.text == ",") = true then do
            let _ ← pop toks
            let __do_lift ← getIdx
            if __do_lift > s.idx then paramsLoop toks false fuel (acc ++ [a])
            else if false = true then Parse.panic "parser.rs:2183" else pure (acc ++ [a])
          else if (t.text == ")") = true then pure (acc ++ [a]) else do
            diag DiagKind.invalid
            pure (acc ++ [a])
        | none => do
          diag DiagKind.incomplete
          pure (acc ++ [a]))
        (fun x s' => Mv toks s.idx s'.idx) s') s := by
      refine wp_mono (parseParameter_ok toks hne hl fuel s hs) ?_
      intro p s1 m1
      cases ht1 : toks[s1.idx]? with
      | none => tk ht1; wpsimp; exact m1
      | some t1 =>
        have hlt := get_lt ht1
        have hstep : Mv toks s.idx (s1.idx + 1) := Mv.trans m1 (Mv.step (Nat.le_succ _) (by omega))
        tk ht1
        split
        · wpsimp
          tk ht1
          split
          · refine wp_mono (ih _ ⟨s1.idx + 1, s1.diags⟩ (by first | omega | (simp only []; omega))) ?_
            intro _ s2 m2
            exact Mv.trans hstep m2
          · exact hstep
        · split <;> wpsimp <;> exact m1
    cases ht : toks[s.idx]? with
    | none => tk ht; exact rest
    | some t =>
      tk ht
      split
      · exact Mv.refl hs
      · exact rest

theorem parseParameters_ok (fuel : Nat) (s : St) (hs : s.idx ≤ toks.length) :
    wp (parseParameters toks false fuel) (fun _ s' => Mv toks s.idx s'.idx) s := by
  unfold parseParameters
  wpsimp
  refine wp_mono (spec_checkRequiredToken toks hne "(" s hs) ?_
  intro r s1 m1
  have hm1 : Mv toks s.idx s1.idx := Mv.step (by omega) m1.2.1
  obtain ⟨ok, t⟩ := r
  cases ok with
  | false => simp only; wpsimp; exact hm1
  | true =>
    simp only
    wpsimp
    refine wp_mono (paramsLoop_ok toks hne hl fuel [] s1 m1.2.1) ?_
    intro ps s2 m2
    refine wp_mono (spec_requireToken toks hne ")" s2 m2.1) ?_
    intro _ s3 m3
    refine wp_mono (spec_dupDiags toks hne _ _ s3) ?_
    intro _ s4 m4
    simp only [m4]
    exact Mv.trans (Mv.trans hm1 m2) (Mv.step (by omega) m3.1)

theorem destLoop_ok : ∀ fuel acc s, s.idx ≤ toks.length →
    wp (destLoop toks false fuel acc) (fun _ s' => Mv toks s.idx s'.idx) s := by
  intro fuel
  induction fuel with
  | zero => intro acc s hs; rw [destLoop]; simp [wp_outOfFuel]
  | succ fuel ih =>
    intro acc s hs
    rw [destLoop]
    wpsimp'
    split
    · split
      · rename_i t ht
        have hlt := get_lt ht
        exact Mv.step (Nat.le_succ _) (by first | omega | (simp only []; omega))
      · exact Mv.refl hs
    · refine wp_mono (spec_parseSymbol toks hne hl false s hs) ?_
      intro sym s1 m1
      split
      · exact m1.1
      · split
        · refine wp_mono (spec_requireToken toks hne "," s1 m1.1.1) ?_
          intro _ s2 m2
          have hm2 : Mv toks s.idx s2.idx := Mv.trans m1.1 (Mv.step (by omega) m2.1)
          split
          · refine wp_mono (ih _ s2 m2.1) ?_
            intro _ s3 m3; exact Mv.trans hm2 m3
          · exact hm2
        · split
          · refine wp_mono (ih _ s1 m1.1.1) ?_
            intro _ s2 m2; exact Mv.trans m1.1 m2
          · exact m1.1

theorem parseLetDestination_ok (fuel : Nat) (s : St) (hs : s.idx ≤ toks.length) :
    wp (parseLetDestination toks false fuel) (fun _ s' => Mv toks s.idx s'.idx) s := by
  unfold parseLetDestination
  wpsimp'
  split
  · split
    · rename_i t ht
      have hlt := get_lt ht
      refine wp_mono (destLoop_ok toks hne hl fuel [] ⟨s.idx + 1, s.diags⟩ (by first | omega | (simp only []; omega))) ?_
      intro syms s2 m2
      refine wp_mono (spec_dupDiags toks hne _ _ s2) ?_
      intro _ s3 m3
      simp only [m3]
      exact Mv.trans (Mv.step (Nat.le_succ _) (by first | omega | (simp only []; omega))) m2
    · refine wp_mono (destLoop_ok toks hne hl fuel [] s hs) ?_
      intro syms s2 m2
      refine wp_mono (spec_dupDiags toks hne _ _ s2) ?_
      intro _ s3 m3
      simp only [m3]
      exact m2
  · refine wp_mono (spec_parseSymbol toks hne hl false s hs) ?_
    intro _ s1 m1; exact m1.1

theorem parsePattern_ok (fuel : Nat) (s : St) (hs : s.idx ≤ toks.length) :
    wp (parsePattern toks false fuel) (fun _ s' => Mv toks s.idx s'.idx) s := by
  unfold parsePattern
  wpsimp'
  refine wp_mono (spec_parseSymbol toks hne hl false s hs) ?_
  intro v s1 m1
  split
  · refine wp_mono (spec_requireToken toks hne "(" s1 m1.1.1) ?_
    intro _ s2 m2
    have hm2 : Mv toks s.idx s2.idx := Mv.trans m1.1 (Mv.step (by omega) m2.1)
    refine wp_mono (parseLetDestination_ok toks hne hl fuel s2 m2.1) ?_
    intro _ s3 m3
    refine wp_mono (spec_requireToken toks hne ")" s3 m3.1) ?_
    intro _ s4 m4
    exact Mv.trans (Mv.trans hm2 m3) (Mv.step (by omega) m4.1)
  · exact m1.1

end level1

/-! ### Evaluated witnesses (tests, not the theorem) -/

def isPanicAt {α} (site : String) : Res α → Bool
  | .panic s => s == site
  | _ => false

def isOk {α} : Res α → Bool
  | .ok _ _ => true
  | _ => false

/-- `(1, })` -/
def tupleToks : List Tok :=
  [⟨"(", true, 0, 0⟩, ⟨"1", true, 0, 0⟩, ⟨",", true, 0, 0⟩, ⟨"}", false, 0, 0⟩, ⟨")", true, 0, 0⟩]

/-- `let (a` -/
def letToks : List Tok := [⟨"let", true, 0, 0⟩, ⟨"(", false, 0, 0⟩, ⟨"a", true, 0, 0⟩]

/-- `fun f(a,` -/
def paramToks : List Tok :=
  [⟨"fun", true, 0, 0⟩, ⟨"f", false, 0, 0⟩, ⟨"(", true, 0, 0⟩, ⟨"a", true, 0, 0⟩, ⟨",", true, 0, 0⟩]

/-- `let x: (A,` -/
def hintToks : List Tok :=
  [⟨"let", true, 0, 0⟩, ⟨"x", false, 0, 0⟩, ⟨":", true, 0, 0⟩, ⟨"(", false, 0, 0⟩, ⟨"A", true, 0, 0⟩, ⟨",", true, 0, 0⟩]

/-- `fun f<T,` -/
def tparamToks : List Tok :=
  [⟨"fun", true, 0, 0⟩, ⟨"f", false, 0, 0⟩, ⟨"<", true, 0, 0⟩, ⟨"T", true, 0, 0⟩, ⟨",", true, 0, 0⟩]

theorem pinned_params_panics : isPanicAt "parser.rs:2183" (parseItemsCfg true 60 paramToks) = true := by decide
theorem fixed_params_ok : isOk (parseItemsCfg false 60 paramToks) = true := by decide
theorem pinned_tuple_hint_panics : isPanicAt "parser.rs:1995" (parseItemsCfg true 60 hintToks) = true := by decide
theorem fixed_tuple_hint_ok : isOk (parseItemsCfg false 60 hintToks) = true := by decide
theorem fixed_type_params_ok : isOk (parseItemsCfg false 60 tparamToks) = true := by decide
theorem pinned_tuple_panics : isPanicAt "parser.rs:328" (parseItemsCfg true 60 tupleToks) = true := by decide
theorem fixed_tuple_ok : isOk (parseItemsCfg false 60 tupleToks) = true := by decide
theorem pinned_let_dest_panics : isPanicAt "parser.rs:2812" (parseItemsCfg true 60 letToks) = true := by decide
theorem fixed_let_dest_ok : isOk (parseItemsCfg false 60 letToks) = true := by decide

end C01Parse
