import GardenVerif.Lemmas.Types
/-!
# C14 — Subtyping is a preorder with the documented variance

Statements over the model `Ty.sub` of `is_subtype` (src/garden_type.rs:464-561).
"Well-formed" = every type name is used with the arity a signature gives it
(`Ty.wf sig`); "without checker errors" = no `Type::Error` anywhere (`Ty.noErr`).
The tie to the Rust function is the `subtype` correspondence (harness/c14.py).
-/
set_option linter.unusedVariables false

namespace C14

/-- Reflexive (on all types, even ill-formed ones). -/
theorem subtype_refl (t : Ty) : Ty.sub t t = true := Ty.sub_refl t

/-- Transitive on well-formed, error-free types. -/
theorem subtype_trans (sig : String → Nat) (a b c : Ty)
    (wa : Ty.wf sig a = true) (wb : Ty.wf sig b = true) (wc : Ty.wf sig c = true)
    (na : Ty.noErr a = true) (nb : Ty.noErr b = true) (nc : Ty.noErr c = true)
    (hab : Ty.sub a b = true) (hbc : Ty.sub b c = true) : Ty.sub a c = true :=
  Ty.sub_trans sig b a c wa wb wc na nb nc hab hbc

/-- `Any` is the top type. -/
theorem any_top (t : Ty) : Ty.sub t .any = true := Ty.sub_any t

/-- `Any` is only below itself (and `Error`, which is excluded). -/
theorem any_only_below_any (t : Ty) (h : Ty.sub .any t = true) : t = .any ∨ t = .err := by
  cases t <;> simp [Ty.sub] at h ⊢

/-- `NoValue` is the bottom type (whatever kind / arguments it is written with). -/
theorem novalue_bot (k : Kind) (args : List Ty) (t : Ty) :
    Ty.sub (.user k "NoValue" args) t = true :=
  Ty.sub_of_isNoValue _ t (by simp [Ty.isNoValue])

/-- `subAll` on equal-length lists is the pointwise relation. -/
theorem subAll_iff : ∀ (as bs : List Ty), as.length = bs.length →
    (Ty.subAll as bs = true ↔ ∀ i (h1 : i < as.length) (h2 : i < bs.length),
      Ty.sub as[i] bs[i] = true)
  | [], [], _ => by simp [Ty.subAll]
  | [], _ :: _, h => by simp at h
  | _ :: _, [], h => by simp at h
  | a :: as, b :: bs, h => by
      have ih := subAll_iff as bs (by simpa using h)
      simp only [Ty.subAll, Bool.and_eq_true, ih]
      constructor
      · rintro ⟨h0, hr⟩ i h1 h2
        cases i with
        | zero => simpa using h0
        | succ i => simpa using hr i (by simpa using h1) (by simpa using h2)
      · intro hh
        refine ⟨hh 0 (by simp) (by simp), ?_⟩
        intro i h1 h2
        exact hh (i + 1) (by simpa using h1) (by simpa using h2)

theorem subAllFlip_iff : ∀ (as bs : List Ty), as.length = bs.length →
    (Ty.subAllFlip as bs = true ↔ ∀ i (h1 : i < as.length) (h2 : i < bs.length),
      Ty.sub bs[i] as[i] = true)
  | [], [], _ => by simp [Ty.subAllFlip]
  | [], _ :: _, h => by simp at h
  | _ :: _, [], h => by simp at h
  | a :: as, b :: bs, h => by
      have ih := subAllFlip_iff as bs (by simpa using h)
      simp only [Ty.subAllFlip, Bool.and_eq_true, ih]
      constructor
      · rintro ⟨h0, hr⟩ i h1 h2
        cases i with
        | zero => simpa using h0
        | succ i => simpa using hr i (by simpa using h1) (by simpa using h2)
      · intro hh
        refine ⟨hh 0 (by simp) (by simp), ?_⟩
        intro i h1 h2
        exact hh (i + 1) (by simpa using h1) (by simpa using h2)

/-- Tuples are covariant, component-wise, and only tuples of the same length
are related. -/
theorem tuple_covariant (as bs : List Ty) :
    Ty.sub (.tuple as) (.tuple bs) = true ↔
      as.length = bs.length ∧ ∀ i (h1 : i < as.length) (h2 : i < bs.length),
        Ty.sub as[i] bs[i] = true := by
  simp only [Ty.sub]
  by_cases hl : as.length = bs.length
  · simp [hl, subAll_iff as bs hl]
  · simp [hl]

/-- User-defined types (other than `NoValue`) are covariant in their arguments
and related only when the names agree. Stated for equal argument counts, which
is what arity well-formedness gives for equal names. -/
theorem userdefined_covariant (k1 k2 : Kind) (n1 n2 : String) (as bs : List Ty)
    (hn : n1 ≠ "NoValue") (hl : as.length = bs.length) :
    Ty.sub (.user k1 n1 as) (.user k2 n2 bs) = true ↔
      n1 = n2 ∧ ∀ i (h1 : i < as.length) (h2 : i < bs.length), Ty.sub as[i] bs[i] = true := by
  simp only [Ty.sub]
  by_cases hnn : n1 = n2
  · subst hnn
    simp [hn, subAll_iff as bs hl]
  · simp [hn, hnn]

/-- Function types are contravariant in parameters and covariant in the result
(names and type parameters are ignored). -/
theorem fun_contra_co (n1 n2 : Option String) (tp1 tp2 : List String)
    (ps qs : List Ty) (r s : Ty) :
    Ty.sub (.fn n1 tp1 ps r) (.fn n2 tp2 qs s) = true ↔
      ps.length = qs.length ∧
      (∀ i (h1 : i < ps.length) (h2 : i < qs.length), Ty.sub qs[i] ps[i] = true) ∧
      Ty.sub r s = true := by
  simp only [Ty.sub]
  by_cases hl : ps.length = qs.length
  · simp [hl, subAllFlip_iff ps qs hl]
  · simp [hl]

/-- Without the "no checker errors" hypothesis transitivity is false: `Error`
is both above and below everything. (Documents why the hypothesis is needed.) -/
theorem trans_fails_through_error :
    Ty.sub (.user .struct "Int" []) .err = true ∧ Ty.sub .err (.user .struct "String" []) = true ∧
    Ty.sub (.user .struct "Int" []) (.user .struct "String" []) = false := by
  simp [Ty.sub]

/-- Without arity well-formedness transitivity is false too: the Rust `zip`s type
arguments without comparing lengths. -/
theorem trans_fails_without_arity :
    let i := Ty.user .struct "Int" []; let s := Ty.user .struct "String" []
    Ty.sub (.user .struct "P" [i, s]) (.user .struct "P" [i]) = true ∧
    Ty.sub (.user .struct "P" [i]) (.user .struct "P" [i, i]) = true ∧
    Ty.sub (.user .struct "P" [i, s]) (.user .struct "P" [i, i]) = false := by
  simp [Ty.sub, Ty.subAll]

-- Non-vacuity: the hypotheses of `subtype_trans` are met by a concrete
-- non-trivial chain  List<NoValue> <: List<Int> <: Any  over a two-name signature.
example :
    let sig : String → Nat := fun n => if n = "List" then 1 else 0
    let a := Ty.user .struct "List" [Ty.noValue]
    let b := Ty.user .struct "List" [.user .struct "Int" []]
    Ty.wf sig a = true ∧ Ty.wf sig b = true ∧ Ty.noErr a = true ∧ Ty.noErr b = true ∧
    Ty.sub a b = true ∧ Ty.sub b .any = true ∧ Ty.sub b a = false := by
  simp [Ty.wf, Ty.wfList, Ty.noErr, Ty.noErrList, Ty.sub, Ty.subAll, Ty.noValue]

end C14
