import GardenVerif.Lemmas.LspDispatch
/-!
# C28 — The LSP server answers every request and never dies

Statements over the dispatch model `LspDispatch.handle` / `LspDispatch.run` of src/lsp.rs
(`handle_message`, `push_request_response`, `run_lsp`), for EVERY method table satisfying the decidable
well-formedness predicate `wfTable` (the table of the pinned tree, `gardenMethods`, satisfies it by
`decide`: `gardenMethods_wf`), every server state and every message / message sequence.

Scope. The bodies of the request handlers (hover, completion, …) are total functions in the model:
their panic-freedom is the front end's (C01) and is only *tested* here (the harness watches the real
process).  "Request" below = a message whose id is present and not `null` and whose method is one of the
table's request arms (`initialize`, the `textDocument/*` requests, `shutdown`) or is unknown to the table;
a message that does not even parse as a JSON-RPC envelope is answered iff it has an `id` member.
A notification-typed method sent WITH an id (`initialized`, `textDocument/did*`, `exit`) is not answered
(`notification_method_no_response`): the Rust arms never look at the id.
-/
set_option linter.unusedVariables false

namespace C28
open LspDispatch

/-- The method is dispatched to a request arm, or to no arm at all. -/
def requestOrUnknown (tbl : List LspMethod) (name : String) : Bool :=
  match lookup tbl name with
  | none => true
  | some e => e.isRequest

/-- Every request gets exactly one response, carrying the request's id — whatever the state, whether
the params parse or not, whether the method exists or not. -/
theorem request_one_response (tbl : List LspMethod) (st : State) (m : Msg) (i : Id) (name : String)
    (henv : m.envelopeOk = true) (hid : m.id = some i) (hm : m.method = some name)
    (hreq : requestOrUnknown tbl name = true) :
    responseIds (handle tbl st m).2 = [i] := by
  rw [handle_responseIds]
  unfold expectedId requestOrUnknown at *
  simp only [henv, Bool.not_true, Bool.false_eq_true, ↓reduceIte, hm]
  cases hl : lookup tbl name with
  | none => simp [hid]
  | some e => simp [hl] at hreq; simp [hreq, hid]

example : responseIds (handle gardenMethods {}
    { envelopeOk := true, rawId := some "7", method := some "textDocument/hover",
      params := .malformed, sync := none }).2 = ["7"] :=
  request_one_response _ _ _ "7" "textDocument/hover" rfl (by decide) rfl (by decide)

/-- … and says what the response is: an error for an unknown method / unparsable params, a result
otherwise. -/
theorem request_response_shape (tbl : List LspMethod) (st : State) (m : Msg) (i : Id) (name : String)
    (henv : m.envelopeOk = true) (hid : m.id = some i) (hm : m.method = some name) :
    (lookup tbl name = none → (handle tbl st m).2 = [.response i (.error .methodNotFound)]) ∧
    (∀ e, lookup tbl name = some e → e.kind = .request →
        ((∀ p, m.params ≠ .good p) → (handle tbl st m).2 = [.response i (.error .invalidParams)]) ∧
        (∀ p, m.params = .good p → ∃ r, (r = .value ∨ r = .empty) ∧
            (handle tbl st m).2 = [.response i r])) ∧
    (∀ e, lookup tbl name = some e → e.kind = .shutdown →
        (handle tbl st m).2 = [.response i .null]) := by
  refine ⟨?_, ?_, ?_⟩
  · intro hl
    simp [handle, henv, hm, hl, hid]
  · intro e hl hk
    obtain ⟨n, k, d⟩ := e
    simp only at hk
    subst hk
    constructor
    · intro hp
      simp only [handle, henv, hm, hl, handleKnown, hid, answer, Bool.not_true, Bool.false_eq_true,
        ↓reduceIte]
      cases hpp : m.params with
      | absent => simp
      | malformed => simp
      | good p => exact absurd hpp (hp p)
    · intro p hp
      simp only [handle, henv, hm, hl, handleKnown, hid, answer, hp, Bool.not_true, Bool.false_eq_true,
        ↓reduceIte]
      cases d
      · exact ⟨.value, Or.inl rfl, by simp⟩
      · cases p with
        | none => exact ⟨.empty, Or.inr rfl, by simp⟩
        | some q =>
          cases hq : (st.get q).isSome
          · exact ⟨.empty, Or.inr rfl, by simp [hq]⟩
          · exact ⟨.value, Or.inl rfl, by simp [hq]⟩
  · intro e hl hk
    obtain ⟨n, k, d⟩ := e
    simp only at hk
    subst hk
    simp [handle, henv, hm, hl, handleKnown, hid]

/-- A message that is not a JSON-RPC envelope but has an `id` member is answered once, with that id
(even `null`), with InvalidRequest; without an `id` member it is dropped. -/
theorem bad_envelope_response (tbl : List LspMethod) (st : State) (m : Msg)
    (henv : m.envelopeOk = false) :
    (handle tbl st m).2 = (m.rawId.map (fun i => Out.response i (.error .invalidRequest))).toList ∧
    (handle tbl st m).1 = st := by
  unfold handle
  simp only [henv, Bool.not_false, ↓reduceIte]
  cases m.rawId <;> simp

/-- A message without an id (absent or `null`) is never answered. -/
theorem notification_no_response (tbl : List LspMethod) (st : State) (m : Msg)
    (henv : m.envelopeOk = true) (hid : m.id = none) :
    responseIds (handle tbl st m).2 = [] := by
  rw [handle_responseIds]
  unfold expectedId
  simp only [henv, Bool.not_true, Bool.false_eq_true, ↓reduceIte, hid]
  cases m.method with
  | none => simp
  | some name => simp only []; cases lookup tbl name <;> simp

example : responseIds (handle gardenMethods {}
    { envelopeOk := true, rawId := some "null", method := some "textDocument/hover",
      params := .good (some "/x.gdn"), sync := none }).2 = [] :=
  notification_no_response _ _ _ rfl (by decide)

/-- A message whose method is one of the table's notification arms is never answered, even when it
carries an id; neither is a message without a method (a response from the client). -/
theorem notification_method_no_response (tbl : List LspMethod) (st : State) (m : Msg)
    (henv : m.envelopeOk = true)
    (hm : m.method = none ∨ ∃ name e, m.method = some name ∧ lookup tbl name = some e ∧ e.isRequest = false) :
    responseIds (handle tbl st m).2 = [] := by
  rw [handle_responseIds]
  unfold expectedId
  simp only [henv, Bool.not_true, Bool.false_eq_true, ↓reduceIte]
  rcases hm with hm | ⟨name, e, hm, hl, hr⟩
  · simp [hm]
  · simp [hm, hl, hr]

/-- The server stops only on `exit`: if a step takes a running server to the exited state, the message
was a well-formed envelope whose method is literally `"exit"`. -/
theorem only_exit_stops (tbl : List LspMethod) (wf : wfTable tbl = true) (st : State) (m : Msg)
    (hrun : st.exited = none) (hstop : (handle tbl st m).1.exited ≠ none) :
    m.envelopeOk = true ∧ m.method = some "exit" := by
  rw [handle_exited] at hstop
  by_cases hx : isExit tbl m = true
  · unfold isExit at hx
    simp only [Bool.and_eq_true] at hx
    refine ⟨hx.1, ?_⟩
    cases hm : m.method with
    | none => simp [hm] at hx
    | some name =>
      cases hl : lookup tbl name with
      | none => simp [hm, hl] at hx
      | some e =>
        simp [hm, hl] at hx
        have h1 := wf_exit wf (lookup_mem hl) hx.2
        have h2 := lookup_name hl
        rw [← h2, h1]
  · simp [hx, hrun] at hstop

/-- Conversely `exit` always stops it, with status 0 after a `shutdown` and 1 otherwise. -/
theorem exit_stops (tbl : List LspMethod) (wf : wfTable tbl = true) (st : State) (m : Msg)
    (henv : m.envelopeOk = true) (hm : m.method = some "exit") :
    (handle tbl st m).1.exited = some (if st.shutdown then 0 else 1) ∧ (handle tbl st m).2 = [] := by
  obtain ⟨e, hl, hk⟩ := wf_has_exit wf
  obtain ⟨n, k, d⟩ := e
  simp only at hk
  subst hk
  simp [handle, henv, hm, hl, handleKnown]

/-- The shutdown flag is set by a `shutdown` message (with or without id) and never cleared, so
`shutdown … exit` yields status 0. -/
theorem shutdown_sets_flag (tbl : List LspMethod) (st : State) (m : Msg) (name : String) (e : LspMethod)
    (henv : m.envelopeOk = true) (hm : m.method = some name) (hl : lookup tbl name = some e)
    (hk : e.kind = .shutdown) : (handle tbl st m).1.shutdown = true := by
  simp [handle, henv, hm, hl, handleKnown_shutdown, hk]

theorem shutdown_flag_mono (tbl : List LspMethod) (st : State) (m : Msg)
    (h : st.shutdown = true) : (handle tbl st m).1.shutdown = true :=
  handle_shutdown_mono tbl st m h

/-- Diagnostics are published only by the three document-sync arms, and the text they are computed from
is the text now stored for that document (didOpen/didChange), or the document is gone (didClose). -/
theorem publish_matches_store (tbl : List LspMethod) (st : State) (m : Msg) (uri : String)
    (text : Option String) (h : Out.publish uri text ∈ (handle tbl st m).2) :
    ∃ s, m.sync = some s ∧ s.uri = uri ∧ (handle tbl st m).1.get s.path = text := by
  unfold handle at h ⊢
  by_cases hE : m.envelopeOk = true
  · simp only [hE, Bool.not_true, Bool.false_eq_true, ↓reduceIte] at h ⊢
    cases hm : m.method with
    | none => simp [hm] at h
    | some name =>
      simp only [hm] at h ⊢
      cases hl : lookup tbl name with
      | none => simp only [hl] at h; cases hi : m.id <;> simp [hi] at h
      | some e =>
        simp only [hl] at h ⊢
        obtain ⟨n, k, d⟩ := e
        have ha := answer_respId st ⟨n, .request, d⟩
        unfold handleKnown at h ⊢
        cases k <;> simp only [] at h ⊢
        · cases hi : m.id with
          | none => simp [hi] at h
          | some i => obtain ⟨r, hr⟩ := ha i m.params; simp [hi, hr] at h
        · simp at h
        · cases hs : m.sync with
          | none => simp [hs] at h
          | some s =>
            simp [hs] at h
            refine ⟨s, rfl, h.1.symm, ?_⟩
            simp [State.get, State.insert, h.2]
        · cases hs : m.sync with
          | none => simp [hs] at h
          | some s =>
            simp [hs] at h
            refine ⟨s, rfl, h.1.symm, ?_⟩
            simp [State.get, State.insert, h.2]
        · cases hs : m.sync with
          | none => simp [hs] at h
          | some s =>
            simp [hs] at h
            refine ⟨s, rfl, h.1.symm, ?_⟩
            simp [State.get, State.remove, h.2]
        · cases hi : m.id <;> simp [hi] at h
        · simp at h
  · simp only [Bool.not_eq_true] at hE
    simp only [hE, Bool.not_false, ↓reduceIte] at h
    cases hr : m.rawId <;> simp [hr] at h

/-- Over a whole session: the ids of the responses the server sends, in order, are exactly the ids of the
requests among the messages it consumes (everything up to and including the first `exit`), in order —
one response per request, none for anything else, nothing skipped, nothing after `exit`. -/
theorem run_responses (tbl : List LspMethod) (st : State) (ms : List Msg) (hrun : st.exited = none) :
    responseIds (run tbl st ms).2 = (untilExit tbl ms).filterMap (expectedId tbl) := by
  induction ms generalizing st with
  | nil => simp [run, untilExit, responseIds]
  | cons m ms ih =>
    rw [run_cons tbl st m ms hrun]
    simp only [responseIds_append, handle_responseIds]
    unfold untilExit
    by_cases hx : isExit tbl m = true
    · have hex : (handle tbl st m).1.exited.isSome = true := by
        rw [handle_exited]; simp [hx]
      rw [run_exited_start tbl _ ms hex]
      simp only [hx, ↓reduceIte]
      cases h : expectedId tbl m <;> simp [responseIds, h]
    · have hex : (handle tbl st m).1.exited = none := by
        rw [handle_exited]; simp [hx, hrun]
      rw [ih _ hex]
      simp only [hx, Bool.false_eq_true, ↓reduceIte]
      cases h : expectedId tbl m <;> simp [h]

/-- The server is still running after a session iff the session contains no `exit`. -/
theorem run_alive_iff (tbl : List LspMethod) (st : State) (ms : List Msg) (hrun : st.exited = none) :
    (run tbl st ms).1.exited = none ↔ ∀ m ∈ ms, isExit tbl m = false := by
  induction ms generalizing st with
  | nil => simp [run, hrun]
  | cons m ms ih =>
    rw [run_cons tbl st m ms hrun]
    simp only [List.mem_cons, forall_eq_or_imp]
    by_cases hx : isExit tbl m = true
    · have hex : (handle tbl st m).1.exited.isSome = true := by
        rw [handle_exited]; simp [hx]
      rw [run_exited_start tbl _ ms hex]
      simp only [hx]
      constructor
      · intro h; rw [h] at hex; simp at hex
      · intro h; simp at h
    · have hex : (handle tbl st m).1.exited = none := by
        rw [handle_exited]; simp [hx, hrun]
      rw [ih _ hex]
      simp [hx]

/-! ## Non-vacuity: a concrete session on the table of the pinned tree -/

def open1 : Msg := { envelopeOk := true, rawId := none, method := some "textDocument/didOpen",
                     params := .absent, sync := some ⟨"/d/a.gdn", "file:///d/a.gdn", "let x = 1"⟩ }
def hover1 : Msg := { envelopeOk := true, rawId := some "1", method := some "textDocument/hover",
                      params := .good (some "/d/a.gdn"), sync := none }
def hoverOther : Msg := { hover1 with rawId := some "\"s\"", params := .good (some "/d/other.gdn") }
def unknownReq : Msg := { envelopeOk := true, rawId := some "2", method := some "workspace/symbol",
                          params := .absent, sync := none }
def unknownNote : Msg := { unknownReq with rawId := none, method := some "$/setTrace" }
def badEnv : Msg := { envelopeOk := false, rawId := some "3", method := some "shutdown",
                      params := .absent, sync := none }
def shutdown1 : Msg := { envelopeOk := true, rawId := some "4", method := some "shutdown",
                         params := .absent, sync := none }
def exit1 : Msg := { envelopeOk := true, rawId := none, method := some "exit", params := .absent, sync := none }

example : run gardenMethods {} [open1, hover1, hoverOther, unknownReq, unknownNote, badEnv, shutdown1,
                                 exit1, hover1] =
    ({ docs := [("/d/a.gdn", "let x = 1")], shutdown := true, exited := some 0 },
     [.publish "file:///d/a.gdn" (some "let x = 1"), .response "1" .value, .response "\"s\"" .empty,
      .response "2" (.error .methodNotFound), .response "3" (.error .invalidRequest),
      .response "4" .null]) := by decide

example : (run gardenMethods {} [hover1, exit1]).1.exited = some 1 := by decide

example : requestOrUnknown gardenMethods "textDocument/hover" = true
    ∧ requestOrUnknown gardenMethods "nope" = true
    ∧ requestOrUnknown gardenMethods "initialized" = false := by decide

end C28
