import GardenVerif.Model.Session
/-!
Helper lemmas for C09 / C10 over the session model M6.

`NE m` (the call stack is non-empty) is the fact every `unwrap` / `expect` / index of
json_session.rs, commands.rs and env.rs on the modelled path relies on. It is preserved by every
evaluator step (`step_ne`), hence by `eval` (`eval_ne`), hence by every request.
`Good r` packages what one handled request must satisfy.
-/
set_option linter.unusedVariables false
set_option linter.unusedSimpArgs false
namespace Session
open Machine

def NE (m : Machine.State) : Prop := m.frames ≠ []

theorem setTop_ne (s : Machine.State) (f : Frame) (h : s.frames ≠ []) : (setTop s f).frames ≠ [] := by
  unfold setTop
  split
  · simp_all
  · simp

theorem stopCheck_shape (a : Machine.State) (f : Frame) (st : St) (e : Expr) :
    stopCheck a f st e = .cont a ∨ ∃ v, stopCheck a f st e = .done a v := by
  unfold stopCheck
  repeat' split
  all_goals simp

/-- The state a step result carries, if any. -/
def resState : StepResult → Option Machine.State
  | .cont s => some s
  | .done s _ => some s
  | .error s _ => some s
  | _ => none

theorem resState_stopCheck (a : Machine.State) (f : Frame) (st : St) (e : Expr) :
    resState (stopCheck a f st e) = some a := by
  rcases stopCheck_shape a f st e with h1 | ⟨v, h1⟩ <;> rw [h1] <;> rfl

/-- One evaluator step never empties the call stack. -/
theorem step_ne' (s : Machine.State) (h : s.frames ≠ []) :
    ∀ s', resState (step s) = some s' → s'.frames ≠ [] := by
  intro s' hs
  unfold step at hs
  cases hf : s.frames with
  | nil => exact absurd hf h
  | cons f callers =>
    simp only [hf] at hs
    repeat' split at hs
    all_goals (try rw [resState_stopCheck] at hs)
    all_goals (simp only [resState, Option.some.injEq, reduceCtorEq] at hs)
    all_goals (subst hs)
    all_goals (first | exact setTop_ne _ _ (by simp [hf]) | simp)

theorem step_ne (s : Machine.State) (h : s.frames ≠ []) :
    match step s with
    | .cont s' => s'.frames ≠ []
    | .done s' _ => s'.frames ≠ []
    | .error s' _ => s'.frames ≠ []
    | _ => True := by
  have := step_ne' s h
  cases hr : step s <;> simp_all [resState]

theorem mstep_ne' (cfg : Cfg) (s : Machine.State) (h : s.frames ≠ []) :
    ∀ s', resState (mstep cfg s) = some s' → s'.frames ≠ [] := by
  intro s' hs
  have h0 := step_ne' s h
  unfold mstep at hs
  cases hr : step s with
  | cont a => rw [hr] at hs h0; simp [resState] at hs h0; subst hs; exact h0
  | done a v => rw [hr] at hs h0; simp [resState] at hs h0; subst hs; exact h0
  | error a e => rw [hr] at hs h0; simp [resState] at hs h0; subst hs; exact h0
  | panic site => rw [hr] at hs; simp only at hs; split at hs <;> simp [resState] at hs
  | unsupported w => rw [hr] at hs; simp [resState] at hs

/-- The state an evaluation result carries, if any. -/
def resStateE : EvalRes → Option Machine.State
  | .done m _ => some m
  | .error m _ => some m
  | _ => none

theorem evalLoop_ne (cfg : Cfg) : ∀ (fuel : Nat) (m : Machine.State), m.frames ≠ [] →
    ∀ m', resStateE (evalLoop cfg fuel m) = some m' → m'.frames ≠ []
  | 0, m, h, m', hm => by simp [evalLoop, resStateE] at hm
  | n + 1, m, h, m', hm => by
    have hs := mstep_ne' cfg m h
    unfold evalLoop at hm
    cases hr : mstep cfg m with
    | cont a => rw [hr] at hm hs; exact evalLoop_ne cfg n a (hs a rfl) m' hm
    | done a v => rw [hr] at hm hs; simp [resStateE] at hm; subst hm; exact hs a rfl
    | error a e => rw [hr] at hm hs; simp [resStateE] at hm; subst hm; exact hs a rfl
    | panic site => rw [hr] at hm; simp [resStateE] at hm
    | unsupported w => rw [hr] at hm; simp [resStateE] at hm

theorem eval_ne (cfg : Cfg) (fuel : Nat) (m : Machine.State) (h : m.frames ≠ []) :
    ∀ m', resStateE (eval cfg fuel m) = some m' → m'.frames ≠ [] := by
  intro m' hm
  unfold eval at hm
  split at hm
  · split at hm
    · simp [resStateE] at hm; subst hm; exact h
    · exact evalLoop_ne cfg fuel m h m' hm
  · exact evalLoop_ne cfg fuel m h m' hm

theorem lastList_ne {α : Type} : ∀ (l : List α), l ≠ [] → ∃ a, lastList l = [a]
  | [], h => absurd rfl h
  | [a], _ => ⟨a, rfl⟩
  | a :: b :: rest, _ => by
    have := lastList_ne (b :: rest) (by simp)
    simpa [lastList] using this

theorem lastList_length {α : Type} : ∀ (l : List α), (lastList l).length ≤ 1
  | [] => by simp [lastList]
  | [a] => by simp [lastList]
  | a :: b :: rest => by simpa [lastList] using lastList_length (b :: rest)

theorem popToToplevel_ne (cfg : Cfg) (m : Machine.State) (h : m.frames ≠ []) :
    (popToToplevel cfg m).frames ≠ [] := by
  unfold popToToplevel
  split
  · simp
  · exact h

/-- What one handled request must satisfy: if the session is still serving (`ok`) exactly one
response was produced and the stack is still non-empty; and no panic site of the session layer
(json_session.rs / commands.rs / env.rs) was hit. -/
def Good (r : Result) : Prop :=
  (r.outcome = .ok → r.responses.length = 1 ∧ NE r.state.m) ∧ r.isSessionPanic = false

theorem good_respond (st : State) (r : Resp) (h : NE st.m) : Good (respond st r) := by
  simp [Good, respond, Result.isSessionPanic, h]

theorem good_die (st : State) (o : Outcome) (ho : o ≠ .ok) (hp : ∀ s, o ≠ .sessionPanic s) :
    Good (die st o) := by
  unfold Good die Result.isSessionPanic
  refine ⟨fun h => absurd h ho, ?_⟩
  cases o <;> simp_all

theorem topName_some (m : Machine.State) (h : NE m) : ∃ n, topName m = some n := by
  unfold topName
  cases hf : m.frames with
  | nil => exact absurd hf h
  | cons f rest => exact ⟨_, rfl⟩

theorem good_cmdResp (st : State) (id : Option Nat) (msg : String) (h : NE st.m) :
    Good (cmdResp st id msg) := by
  obtain ⟨n, hn⟩ := topName_some st.m h
  simp [cmdResp, hn, good_respond, h]

theorem good_errToResponse (st : State) (m : Machine.State) (id : Option Nat) (e : Err) (h : NE m) :
    Good (errToResponse st m id e) := by
  obtain ⟨n, hn⟩ := topName_some m h
  simp only [errToResponse, hn]
  exact good_respond _ _ h

theorem good_evalToResponse (cfg : Cfg) (fuel : Nat) (st : State) (h : NE st.m) :
    Good (evalToResponse cfg fuel st) := by
  have he := eval_ne cfg fuel st.m h
  unfold evalToResponse
  split
  · rename_i m v hm
    have he := he m (by rw [hm]; rfl)
    obtain ⟨n, hn⟩ := topName_some m he
    simp only [hn]; exact good_respond _ _ he
  · rename_i m e hm
    have he := he m (by rw [hm]; rfl)
    obtain ⟨n, hn⟩ := topName_some m he
    simp only [hn]; exact good_respond _ _ he
  · exact good_die _ _ (by simp) (by simp)
  · exact good_die _ _ (by simp) (by simp)
  · exact good_die _ _ (by simp) (by simp)

theorem runTests_good (cfg : Cfg) (fuel : Nat) (id : Option Nat) :
    ∀ (ts : List TestDef) (st : State), NE st.m →
    (∀ st', runTests cfg fuel st id ts = .ok st' → NE st'.m) ∧
    (∀ r, runTests cfg fuel st id ts = .error r → Good r)
  | [], st, h => by
    constructor
    · intro st' hs; simp [runTests] at hs; subst hs; exact h
    · intro r hs; simp [runTests] at hs
  | t :: rest, st, h => by
    have hm : ({ st.m with frames := testFrame t :: st.m.frames } : Machine.State).frames ≠ [] := by simp
    have he := eval_ne cfg fuel _ hm
    cases hr : eval cfg fuel { st.m with frames := testFrame t :: st.m.frames } with
    | done m' v =>
      have he := he m' (by rw [hr]; rfl)
      have ih := runTests_good cfg fuel id rest { st with m := popToToplevel cfg m' } (popToToplevel_ne cfg m' he)
      constructor
      · intro st' hs; simp only [runTests, hr] at hs; exact ih.1 st' hs
      · intro r hs; simp only [runTests, hr] at hs; exact ih.2 r hs
    | error m' e =>
      have he := he m' (by rw [hr]; rfl)
      constructor
      · intro st' hs; simp [runTests, hr] at hs
      · intro r hs; simp only [runTests, hr, Except.error.injEq] at hs; subst hs
        exact good_errToResponse _ _ _ _ he
    | panic site =>
      constructor
      · intro st' hs; simp [runTests, hr] at hs
      · intro r hs; simp only [runTests, hr, Except.error.injEq] at hs; subst hs
        exact good_die _ _ (by simp) (by simp)
    | unsupported w =>
      constructor
      · intro st' hs; simp [runTests, hr] at hs
      · intro r hs; simp only [runTests, hr, Except.error.injEq] at hs; subst hs
        exact good_die _ _ (by simp) (by simp)
    | fuel =>
      constructor
      · intro st' hs; simp [runTests, hr] at hs
      · intro r hs; simp only [runTests, hr, Except.error.injEq] at hs; subst hs
        exact good_die _ _ (by simp) (by simp)

theorem setTopExprs_ne (m m' : Machine.State) (es : List Expr) (h : setTopExprs m es = some m') :
    m'.frames ≠ [] := by
  unfold setTopExprs at h
  split at h
  · cases h; simp
  · simp at h

theorem setTopExprs_some (m : Machine.State) (es : List Expr) (h : m.frames ≠ []) :
    ∃ m', setTopExprs m es = some m' := by
  unfold setTopExprs
  cases hf : m.frames with
  | nil => exact absurd hf h
  | cons f rest => exact ⟨_, rfl⟩

end Session
