import GardenVerif.Lemmas.Parse
/-!
C01 (parser half) — forward progress / no panic of the parser model M2 (repaired tree, `pn = false`).

PARTIAL. Proved here, for EVERY token list and every state (no bound):
* `parseSymbol_near` — `parse_symbol` (code unchanged) never panics on a non-empty token list and moves
  the index back by at most one; `parseSymbol_good` — away from the end of the file it never moves
  back. (At the end of the file it un-pops a token it never popped: the root cause of the panics at
  parser.rs:1995 / 2183 / 2812 on `let x: (A,` / `fun f(a,` / `let (a` and of the non-termination on
  `let x: A<B,` / `fun f<T,` / `enum E { A,` / `Foo{ a: 1,`; repaired in the LOOPS by
  parser-fix-eof-progress.diff, which breaks out of an iteration that made no progress.)
* `goodP_checkRequiredToken`, `goodP_requireToken` — `check_required_token` / `require_token` (with
  their `expect("TODO: handle empty file properly")`) never panic on a non-empty token list and never
  move backwards; `goodP_pop/peek/peekIs/diag/getIdx`; the composition rules `good_bind`, `goodP_bind`
  of the invariant `Good` = "not a panic ∧ idx' ≥ idx ∧ idx' ≤ |toks|";
* evaluated witnesses: the pinned model panics at parser.rs:328 on `(1, })`, at parser.rs:2812 on
  `let (a`, 2183 on `fun f(a,`, 1995 on `let x: (A,`, the repaired model returns
  diagnostics on all of them and on `fun f<T,` (on which the pinned parser and model never terminate:
  driver op `parse_tokens_pinned` answers `ERR fuel`, the real binary hangs allocating).

NOT proved (left out, no `sorry`): the full statement
  `parse_no_panic : ∀ fuel toks, toks ≠ [] → parseItems fuel toks ≠ panic`
and its intended route, the mutual invariant `GoodP` for every parse function by induction on fuel
(type-hint block, parameter / destructuring loops — their former assertions 1995 / 2183 / 2812 are now
`break`s —; the 28
functions of the expression block with 328, 404, 1082, 1361, 2334; items loop 3067). The progress
assertions need, besides `Good`, the strict facts "a loop iteration that reaches the assertion
consumed a token", which follow from `Good` of the callee plus the explicit `pop` before each
assertion (tuple-hint, parameter, destructuring, trailing loops) or from the
invalid-or-placeholder break (`parse_expression` returns `Invalid`/placeholder whenever it consumes
nothing: block, comma-separated, dict, tuple loops, items loop). Until then these sites are covered by
the correspondence run (model PANIC ⇔ implementation PANIC at the same line, harness/ast_dump.py
`same_outcome`) and the token-sequence fuzzing of the integrator.
-/

namespace C01Parse
open Parse ParseLemmas

/-- Outcome is not a panic, and on success the index did not move backwards and stays in range. -/
def Good {α} (toks : Toks) (s : St) : Res α → Prop
  | .ok _ s' => s.idx ≤ s'.idx ∧ s'.idx ≤ toks.length
  | .panic _ => False
  | .outOfFuel => True

def GoodP {α} (toks : Toks) (m : P α) : Prop := ∀ s, s.idx ≤ toks.length → Good toks s (m s)

theorem good_bind {α β} {toks : Toks} {m : P α} {f : α → P β} {s : St}
    (hm : Good toks s (m s))
    (hf : ∀ a s', m s = .ok a s' → s.idx ≤ s'.idx → s'.idx ≤ toks.length → Good toks s' (f a s')) :
    Good toks s ((m >>= f) s) := by
  rw [bind_apply]
  unfold P.bind
  cases h : m s with
  | ok a s' =>
    rw [h] at hm
    have := hf a s' h hm.1 hm.2
    simp only
    cases h2 : f a s' with
    | ok b s'' => rw [h2] at this; exact ⟨Nat.le_trans hm.1 this.1, this.2⟩
    | panic p => rw [h2] at this; exact this
    | outOfFuel => trivial
  | panic p => rw [h] at hm; exact hm
  | outOfFuel => trivial

theorem good_pure {α} {toks : Toks} (a : α) (s : St) (h : s.idx ≤ toks.length) : Good toks s ((pure a : P α) s) := by
  simp [pure_apply, Good, h]

theorem goodP_bind {α β} {toks : Toks} {m : P α} {f : α → P β} (hm : GoodP toks m) (hf : ∀ a, GoodP toks (f a)) :
    GoodP toks (m >>= f) :=
  fun s hs => good_bind (hm s hs) (fun a s' _ _ h2 => hf a s' h2)

theorem goodP_pure {α} {toks : Toks} (a : α) : GoodP toks (pure a : P α) := fun s hs => good_pure a s hs

theorem get_lt {toks : Toks} {i : Nat} {t : Tok} (h : toks[i]? = some t) : i < toks.length := by
  have := List.getElem?_eq_some_iff.mp h
  exact this.1

theorem goodP_peek (toks : Toks) : GoodP toks (peek toks) := by
  intro s hs; simp [peek, peekAt, Good, hs]
theorem goodP_peekIs (toks : Toks) (x : String) : GoodP toks (peekIs toks x) := by
  intro s hs; simp [peekIs, Good, hs]
theorem goodP_diag (toks : Toks) (k : DiagKind) : GoodP toks (diag k) := by
  intro s hs; simp [diag, Good, hs]
theorem goodP_getIdx (toks : Toks) : GoodP toks getIdx := by
  intro s hs; simp [getIdx, Good, hs]
theorem goodP_pop (toks : Toks) : GoodP toks (pop toks) := by
  intro s hs
  unfold pop
  cases h : toks[s.idx]? with
  | none => simp [Good, hs]
  | some t => have := get_lt h; simp [Good]; omega

/-- `check_required_token` / `require_token` never panic on a non-empty token list, never move back. -/
theorem goodP_checkRequiredToken (toks : Toks) (hne : toks ≠ []) (x : String) : GoodP toks (checkRequiredToken toks x) := by
  intro s hs
  unfold checkRequiredToken
  simp only [bind_apply, P.bind, prev, pop]
  cases h : toks[s.idx]? with
  | some t =>
    have := get_lt h
    by_cases hx : t.text = x
    · simp [TokI.text, hx, pure_apply, Good]; omega
    · simp [TokI.text, hx, pure_apply, Good, diag, unpop, bind_apply, P.bind]; omega
  | none =>
    by_cases h0 : s.idx = 0
    · have : toks[0]? = none := by rw [h0] at h; exact h
      cases toks with
      | nil => exact absurd rfl hne
      | cons a b => simp at this
    · have hlt : s.idx - 1 < toks.length := by omega
      have hp : toks[s.idx - 1]? = some toks[s.idx - 1] := List.getElem?_eq_getElem hlt
      simp [h0, hp, diag, pure_apply, Good, bind_apply, P.bind, hs]

theorem goodP_requireToken (toks : Toks) (hne : toks ≠ []) (x : String) : GoodP toks (requireToken toks x) := by
  unfold requireToken
  exact goodP_bind (goodP_checkRequiredToken toks hne x) (fun a => goodP_pure _)

/-- Like `Good`, but the index may have moved back by one (what `parse_symbol` does at the end of the
file: `require_a_token` hands back the previous token and the not-a-symbol / keyword-on-another-line
branches un-pop it although it was never popped). -/
def Near {α} (toks : Toks) (s : St) : Res α → Prop
  | .ok _ s' => s.idx ≤ s'.idx + 1 ∧ s'.idx ≤ toks.length
  | .panic _ => False
  | .outOfFuel => True

/-- `parse_symbol` (unchanged code) never panics on a non-empty token list; it moves back by at most
one token. -/
theorem parseSymbol_near (toks : Toks) (hne : toks ≠ []) (pn : Bool) (s : St) (hs : s.idx ≤ toks.length) :
    Near toks s (parseSymbol toks pn s) := by
  unfold parseSymbol
  cases h : toks[s.idx]? with
  | some t =>
    have hlt : s.idx < toks.length := get_lt h
    simp only [bind_apply, P.bind, prev, requireAToken, pop, h, pure_apply]
    cases h1 : isSymbolTok t.text with
    | false => simp [TokI.text, h1, diag, unpop, pure_apply, Near, bind_apply, P.bind]; omega
    | true =>
      cases h2 : keywords.contains t.text with
      | false =>
        have h3 : t.text ∉ keywords := by simpa using h2
        simp [TokI.text, h1, h3, pure_apply, Near]; omega
      | true =>
        simp only [TokI.text, h1, h2, Bool.not_true, Bool.false_eq_true, ↓reduceIte]
        split
        · split <;> simp [diag, unpop, pure_apply, Near, bind_apply, P.bind] <;> omega
        · simp [diag, unpop, pure_apply, Near, bind_apply, P.bind]; omega
  | none =>
    by_cases h0 : s.idx = 0
    · have : toks[0]? = none := by rw [h0] at h; exact h
      cases toks with
      | nil => exact absurd rfl hne
      | cons a b => simp at this
    · have hlt : s.idx - 1 < toks.length := by omega
      have hp : toks[s.idx - 1]? = some toks[s.idx - 1] := List.getElem?_eq_getElem hlt
      have hpos : 0 < s.idx := by omega
      simp only [bind_apply, P.bind, prev, requireAToken, pop, h, h0, ↓reduceIte, hp, Option.map_some, diag,
        pure_apply]
      cases h1 : isSymbolTok (toks[s.idx - 1]).text with
      | false => simp [TokI.text, h1, diag, unpop, pure_apply, Near, bind_apply, P.bind, hpos]; omega
      | true =>
        cases h2 : keywords.contains (toks[s.idx - 1]).text with
        | false =>
          have h3 : (toks[s.idx - 1]).text ∉ keywords := by simpa using h2
          simp [TokI.text, h1, h3, pure_apply, Near]; omega
        | true =>
          simp only [TokI.text, h1, h2, Bool.not_true, Bool.false_eq_true, ↓reduceIte]
          split <;> simp [diag, unpop, pure_apply, Near, bind_apply, P.bind, hpos] <;> omega

/-- Away from the end of the file `parse_symbol` never moves back. -/
theorem parseSymbol_good (toks : Toks) (pn : Bool) (s : St) (t : Tok) (h : toks[s.idx]? = some t) :
    Good toks s (parseSymbol toks pn s) := by
  unfold parseSymbol
  have hlt : s.idx < toks.length := get_lt h
  simp only [bind_apply, P.bind, prev, requireAToken, pop, h, pure_apply]
  cases h1 : isSymbolTok t.text with
  | false => simp [TokI.text, h1, diag, unpop, pure_apply, Good, bind_apply, P.bind]; omega
  | true =>
    cases h2 : keywords.contains t.text with
    | false =>
      have h3 : t.text ∉ keywords := by simpa using h2
      simp [TokI.text, h1, h3, pure_apply, Good]; omega
    | true =>
      simp only [TokI.text, h1, h2, Bool.not_true, Bool.false_eq_true, ↓reduceIte]
      split
      · split <;> simp [diag, unpop, pure_apply, Good, bind_apply, P.bind] <;> omega
      · simp [diag, unpop, pure_apply, Good, bind_apply, P.bind]; omega

/-! ### Evaluated witnesses (tests, not the theorem) -/

def isPanicAt {α} (site : String) : Res α → Bool
  | .panic s => s == site
  | _ => false

def isOk {α} : Res α → Bool
  | .ok _ _ => true
  | _ => false

/-- `(1, })` -/
def tupleToks : List Tok :=
  [⟨"(", true, 0, 0⟩, ⟨"1", true, 0, 0⟩, ⟨",", true, 0, 0⟩, ⟨"}", false, 0, 0⟩, ⟨")", true, 0, 0⟩]

/-- `let (a` -/
def letToks : List Tok := [⟨"let", true, 0, 0⟩, ⟨"(", false, 0, 0⟩, ⟨"a", true, 0, 0⟩]

/-- `fun f(a,` -/
def paramToks : List Tok :=
  [⟨"fun", true, 0, 0⟩, ⟨"f", false, 0, 0⟩, ⟨"(", true, 0, 0⟩, ⟨"a", true, 0, 0⟩, ⟨",", true, 0, 0⟩]

/-- `let x: (A,` -/
def hintToks : List Tok :=
  [⟨"let", true, 0, 0⟩, ⟨"x", false, 0, 0⟩, ⟨":", true, 0, 0⟩, ⟨"(", false, 0, 0⟩, ⟨"A", true, 0, 0⟩, ⟨",", true, 0, 0⟩]

/-- `fun f<T,` -/
def tparamToks : List Tok :=
  [⟨"fun", true, 0, 0⟩, ⟨"f", false, 0, 0⟩, ⟨"<", true, 0, 0⟩, ⟨"T", true, 0, 0⟩, ⟨",", true, 0, 0⟩]

theorem pinned_params_panics : isPanicAt "parser.rs:2183" (parseItemsCfg true 60 paramToks) = true := by decide
theorem fixed_params_ok : isOk (parseItemsCfg false 60 paramToks) = true := by decide
theorem pinned_tuple_hint_panics : isPanicAt "parser.rs:1995" (parseItemsCfg true 60 hintToks) = true := by decide
theorem fixed_tuple_hint_ok : isOk (parseItemsCfg false 60 hintToks) = true := by decide
theorem fixed_type_params_ok : isOk (parseItemsCfg false 60 tparamToks) = true := by decide
theorem pinned_tuple_panics : isPanicAt "parser.rs:328" (parseItemsCfg true 60 tupleToks) = true := by decide
theorem fixed_tuple_ok : isOk (parseItemsCfg false 60 tupleToks) = true := by decide
theorem pinned_let_dest_panics : isPanicAt "parser.rs:2812" (parseItemsCfg true 60 letToks) = true := by decide
theorem fixed_let_dest_ok : isOk (parseItemsCfg false 60 letToks) = true := by decide

end C01Parse
