"""C29 — LSP positions and edits map exactly onto the document.

Proof: GardenVerif.Props.C29 over the model M9 (Model/LspPos.lean): offset_roundtrip,
whole_range_covers, apply_edit_spec, apply_whole_replace (+ the bare-CR counterexample).

Tie (correspondence): the hook ops lsp_o2p / lsp_lc2o / lsp_whole of `garden verif` (they call
offset_to_lsp_position, line_char_to_offset, whole_document_range of src/lsp.rs) against the
Lean driver, exhaustively on all documents up to a small length over {a, é, €, 😀, \\r, \\n}
x all byte offsets (boundary, non-boundary = slice panic, past the end) x a (line, character)
grid, plus random longer documents with characters on every UTF-8/UTF-16 length border.

Direct oracle (implementation only, judged by an independent Python reference):
  * round trip at every character-boundary offset, value of every position, monotonicity,
    line_char_to_offset lands on a character boundary <= len and equals the reference,
  * whole_document_range converts back to 0..len; applied as the LSP specification defines
    (independent applier below: lines end at \\n, \\r\\n, \\r; UTF-16 columns) it replaces the
    whole document,
  * second sentence of the property: the real server (`garden reftest-lsp`) is driven with
    didOpen + formatting / rename / codeAction on small programs (seeds from src/test_files and
    templates with non-ASCII text before the edited region, LF, CRLF and bare-CR variants); the
    returned TextEdits are applied by the independent applier and compared with the
    command-line refactoring on the same input and byte offsets (`format`, `reftest-rename`,
    `reftest-extract-variable`, `reftest-extract-function`, `reftest-wrap-in-dbg`,
    `reftest-add-type-annotation`, `reftest-destructure`, `check --fix --stdout`).
  * the composed garden_pos_to_lsp_range: programs whose diagnostic / quickfix / symbol spans themselves
    contain 2-, 3- and 4-byte characters with more text after them on the line (SPAN_TEMPLATES); every
    published diagnostic range is compared with the Lean model's gardenPosToLspRange (driver op lsp_range)
    and with the Python reference on the Garden byte offsets that `check --json` reports; the quickfix
    edits applied per the spec must equal `check --fix --stdout`; documentSymbol ranges must be token
    aligned. When the tree has the hook op `lsp_range` (patches/lsp-hook-range.diff) the composed function
    is also compared with the model directly on all offset pairs of the small documents.
"""
import itertools
import json
import os
import re

from . import common

LEAN_MODULES = ["GardenVerif.Props.C29"]

ALPHA = ["a", "é", "€", "\U0001F600", "\r", "\n"]
BORDER_CHARS = ["\u007f", "\u0080", "\u07ff", "\u0800", "\uffff", "\U00010000", "\U0010ffff",
                "\ud7ff", "\ue000", "\u4e2d", "\U0001d11e", "\u00fc", "\t", " ", "x", "Z", "0"]


# ------------------------------------------------------------------ independent reference

def u16(s):
    return len(s.encode("utf-16-le")) // 2


def boundaries(doc):
    out, o = [0], 0
    for ch in doc:
        o += len(ch.encode("utf-8"))
        out.append(o)
    return out


def py_pos(doc, o):
    """(line, UTF-16 column) of a character-boundary byte offset; lines end at \\n only
    (the implementation's documented line model)."""
    pre = doc.encode("utf-8")[:o].decode("utf-8")
    return pre.count("\n"), u16(pre.rsplit("\n", 1)[-1])


def py_lc2o(doc, line, ch):
    """Reference for line_char_to_offset as its doc comment describes it: character past the
    end of the line clamps to the line end, line past the end clamps to the source end; a
    column inside a surrogate pair moves past the character."""
    lines = doc.split("\n")
    if line >= len(lines):
        return len(doc.encode("utf-8"))
    o = sum(len(l.encode("utf-8")) + 1 for l in lines[:line])
    units = 0
    for c in lines[line]:
        if units >= ch:
            break
        units += u16(c)
        o += len(c.encode("utf-8"))
    return o


EOL = re.compile(r"\r\n|\n|\r")


def spec_index(doc, line, ch):
    """LSP 3.17 position -> index into the document (code points). Lines end at \\n, \\r\\n and
    \\r; a character beyond the line length means the line length; a line beyond the last line
    means the end of the document."""
    starts, ends, pos = [], [], 0
    for m in EOL.finditer(doc):
        starts.append(pos)
        ends.append(m.start())
        pos = m.end()
    starts.append(pos)
    ends.append(len(doc))
    if line >= len(starts):
        return len(doc), False
    i, units = starts[line], 0
    while i < ends[line] and units < ch:
        units += u16(doc[i])
        i += 1
    return i, units > ch          # second component: the column split a surrogate pair


def apply_edits(doc, edits):
    """Apply LSP TextEdits (all ranges refer to the original document). Returns
    (new_text, problem_or_None)."""
    spans, problem = [], None
    for e in edits:
        r = e["range"]
        s, sp1 = spec_index(doc, r["start"]["line"], r["start"]["character"])
        t, sp2 = spec_index(doc, r["end"]["line"], r["end"]["character"])
        if sp1 or sp2:
            problem = "edit position inside a surrogate pair"
        if s > t:
            problem = "edit range with start after end"
            t = s
        spans.append((s, t, e["newText"]))
    spans.sort(key=lambda x: (x[0], x[1]))
    for a, b in zip(spans, spans[1:]):
        if a[1] > b[0]:
            problem = "overlapping edits"
    out = doc
    for s, t, new in reversed(spans):
        out = out[:s] + new + out[t:]
    return out, problem


def has_bare_cr(doc):
    return re.search(r"\r(?!\n)", doc) is not None


def model_batch(ctx, lines):
    """The Lean driver, run from a private copy: other checks relink gvdriver concurrently and
    the binary is briefly absent while they do."""
    return common.batch([ctx.c29_driver], lines)


def canon_impl(r):
    if r is not None and r.startswith("PANIC "):
        msg = common.unhex(r[6:])
        if "is not a char boundary" in msg:
            return "PANIC"
        return "PANIC other: " + msg[:200]
    return r


# ------------------------------------------------------------------ part A/B: the conversions

def gen_docs(ctx):
    maxlen = ctx.scale(4, 5)
    docs = [""]
    for n in range(1, maxlen + 1):
        docs += ["".join(t) for t in itertools.product(ALPHA, repeat=n)]
    n_exh = len(docs)
    rng = ctx.rng
    pool = ALPHA * 3 + BORDER_CHARS + ["\r\n"] * 3 + ["\n"] * 6
    for _ in range(ctx.scale(600, 40000)):
        n = rng.choice([5, 6, 7, 8, 10, 14, 20, 40])
        docs.append("".join(rng.choice(pool) for _ in range(n)))
    return docs, n_exh


def conversions(ctx):
    docs, n_exh = gen_docs(ctx)
    ctx.cov["documents_exhaustive"] = n_exh
    ctx.cov["documents_random"] = len(docs) - n_exh
    lines, meta = [], []
    for doc in docs:
        h = common.hexs(doc)
        b = doc.encode("utf-8")
        n = len(b)
        lines.append("lsp_whole " + h)
        meta.append(("whole", doc))
        bset = set(boundaries(doc))
        for o in range(0, n + 3):
            ln = b[:min(o, n)].count(b"\n")
            lines.append("lsp_o2p %s %d %d" % (h, o, ln))
            meta.append(("o2p", doc, o, ln))
        # u32 truncation of the line number, and an unrelated line number
        lines.append("lsp_o2p %s %d %d" % (h, n, 4294967296 + 5))
        meta.append(("o2p", doc, n, 4294967296 + 5))
        lines.append("lsp_o2p %s %d %d" % (h, 0, 3))
        meta.append(("o2p", doc, 0, 3))
    ctx.log("conversions: %d documents, %d o2p/whole requests" % (len(docs), len(lines)))
    impl = [canon_impl(r) for r in ctx.garden_batch(lines)]
    ctx.log("implementation answered")
    model = model_batch(ctx, lines)
    ctx.log("model answered")
    res = {}
    for m_, i, m in zip(meta, impl, model):
        if i != m:
            ctx.disagree(m_[0], {"doc": m_[1], "args": list(m_[2:])}, m, i)
        res[m_] = i
    n_o2p = len(lines)

    # second round: line_char_to_offset on a grid + on every position the implementation returned
    lines2, meta2 = [], []
    for doc in docs:
        h = common.hexs(doc)
        ls = doc.split("\n")
        maxc = max(u16(l) for l in ls)
        want = set()
        exhaustive = len(doc) <= 5
        if exhaustive:
            for l in range(len(ls) + 2):
                for c in range(maxc + 3):
                    want.add((l, c))
        else:
            for _ in range(12):
                want.add((ctx.rng.randrange(len(ls) + 2), ctx.rng.randrange(maxc + 3)))
        for o in boundaries(doc):
            r = res.get(("o2p", doc, o, doc.encode("utf-8")[:o].count(b"\n")))
            if r and r.startswith("OK "):
                l, c = map(int, r[3:].split())
                want.add((l, c))
        r = res.get(("whole", doc))
        if r and r.startswith("OK "):
            sl, sc, el, ec = map(int, r[3:].split())
            want.add((sl, sc))
            want.add((el, ec))
        for l, c in sorted(want):
            lines2.append("lsp_lc2o %s %d %d" % (h, l, c))
            meta2.append(("lc2o", doc, l, c))
    impl2 = [canon_impl(r) for r in ctx.garden_batch(lines2)]
    model2 = model_batch(ctx, lines2)
    for m_, i, m in zip(meta2, impl2, model2):
        if i != m:
            ctx.disagree(m_[0], {"doc": m_[1], "args": list(m_[2:])}, m, i)
        res[m_] = i
    # third round: the composed garden_pos_to_lsp_range (hook op lsp_range, patches/lsp-hook-range.diff;
    # skipped when the tree under test does not have the op yet)
    probe = ctx.garden_batch(["lsp_range 61 0 1 0 0"])
    n_rng = 0
    if probe and probe[0] == "OK 0 0 0 1":
        lines3, meta3 = [], []
        for doc in docs:
            b = doc.encode("utf-8")
            n = len(b)
            pairs = [(s, e) for s in range(n + 2) for e in range(s, n + 2)]
            if len(doc) > 3:
                pairs = ctx.rng.sample(pairs, min(len(pairs), 6))
            for s_, e_ in pairs:
                l0, l1 = b[:min(s_, n)].count(b"\n"), b[:min(e_, n)].count(b"\n")
                lines3.append("lsp_range %s %d %d %d %d" % (common.hexs(doc), s_, e_, l0, l1))
                meta3.append((doc, s_, e_, l0, l1))
        impl3 = [canon_impl(r) for r in ctx.garden_batch(lines3)]
        model3 = model_batch(ctx, lines3)
        for (doc, s_, e_, l0, l1), i, m in zip(meta3, impl3, model3):
            bl = set(boundaries(doc))
            inside = s_ in bl and e_ in bl
            ctx.case(("range", doc, s_, e_), any(ord(c) > 0x7f for c in doc))
            if inside:
                ref = "OK %d %d %d %d" % (py_pos(doc, s_) + py_pos(doc, e_))
                if i != ref:
                    ctx.fail("C29/range-value", "garden_pos_to_lsp_range differs from the (line, UTF-16 column) "
                             "of its two byte offsets", doc=doc, start_offset=s_, end_offset=e_, line=l0,
                             end_line=l1, expected=ref, observed=i)
            if i != m:
                ctx.disagree("lsp_range", {"doc": doc, "args": [s_, e_, l0, l1]}, m, i)
        n_rng = len(lines3)
        ctx.cov["lsp_range_hook"] = "present: %d requests compared" % n_rng
    else:
        ctx.cov["lsp_range_hook"] = "absent in this tree (%r); composed function covered by the server runs only" % (
            probe[0] if probe else None,)
    ctx.cov["hook_requests_compared"] = n_o2p + len(lines2) + n_rng
    ctx.sample({"op": lines[5], "impl": impl[5], "model": model[5]})
    ctx.sample({"op": lines2[-1], "impl": impl2[-1], "model": model2[-1]})

    # ---------------- direct oracle on the implementation alone
    def num(r):
        if r is None or not r.startswith("OK "):
            return None
        return [int(x) for x in r[3:].split()]

    n_rt = n_panic_nb = 0
    for doc in docs:
        b = doc.encode("utf-8")
        n = len(b)
        bl = boundaries(doc)
        bset = set(bl)
        multi = any(ord(c) > 0x7f for c in doc)
        prev = None
        for o in bl:
            ln = b[:o].count(b"\n")
            r = num(res.get(("o2p", doc, o, ln)))
            ctx.case(("rt", doc, o), multi or "\r" in doc or "\n" in doc)
            n_rt += 1
            if r is None:
                ctx.fail("C29/o2p-panics-on-boundary", "offset_to_lsp_position failed on a character boundary",
                         doc=doc, offset=o, line=ln, observed=res.get(("o2p", doc, o, ln)))
                continue
            if tuple(r) != py_pos(doc, o):
                ctx.fail("C29/o2p-value", "offset_to_lsp_position differs from (line, UTF-16 column)",
                         doc=doc, offset=o, expected=py_pos(doc, o), observed=r)
            back = num(res.get(("lc2o", doc, r[0], r[1])))
            if back is None or back[0] != o:
                ctx.fail("C29/roundtrip", "offset -> position -> offset is not the identity",
                         doc=doc, offset=o, position=r, back=back)
            if prev is not None and not (prev < tuple(r)):
                ctx.fail("C29/monotone", "positions of increasing offsets do not increase",
                         doc=doc, offset=o, position=r, previous=prev)
            prev = tuple(r)
        for o in range(n + 3):
            if o not in bset and o < n:
                n_panic_nb += 1
        # clamp: offsets past the end behave like the end
        rend = res.get(("o2p", doc, n, b.count(b"\n")))
        for o in (n + 1, n + 2):
            if res.get(("o2p", doc, o, b.count(b"\n"))) != rend:
                ctx.fail("C29/clamp", "offset past the end is not clamped to the end",
                         doc=doc, offset=o, observed=res.get(("o2p", doc, o, b.count(b"\n"))), at_end=rend)
        # whole range
        w = num(res.get(("whole", doc)))
        ctx.case(("whole", doc), doc != "")
        if w is None:
            ctx.fail("C29/whole-range", "whole_document_range failed", doc=doc)
        else:
            s_ = num(res.get(("lc2o", doc, w[0], w[1])))
            e_ = num(res.get(("lc2o", doc, w[2], w[3])))
            if s_ != [0] or e_ != [n]:
                ctx.fail("C29/whole-range", "whole_document_range does not convert back to 0..len",
                         doc=doc, range=w, start=s_, end=e_, len=n)
            edit = {"range": {"start": {"line": w[0], "character": w[1]},
                              "end": {"line": w[2], "character": w[3]}}, "newText": "X\n"}
            out, prob = apply_edits(doc, [edit])
            if out != "X\n" or prob:
                if has_bare_cr(doc):
                    ctx.fail("C29/bare-CR-line-model",
                             "whole_document_range applied per the LSP spec leaves text behind (bare CR)",
                             doc=doc, range=w, result=out)
                else:
                    ctx.fail("C29/whole-range-spec", "whole_document_range applied per the LSP spec "
                             "does not replace the document", doc=doc, range=w, result=out, problem=prob)
    for m_ in meta2:
        _, doc, l, c = m_
        r = num(res.get(m_))
        n = len(doc.encode("utf-8"))
        ctx.case(m_, True)
        if r is None:
            ctx.fail("C29/lc2o-fails", "line_char_to_offset failed", doc=doc, line=l, character=c,
                     observed=res.get(m_))
        elif r[0] not in set(boundaries(doc)):
            ctx.fail("C29/lc2o-boundary", "line_char_to_offset is not a character boundary <= len",
                     doc=doc, line=l, character=c, observed=r[0])
        elif r[0] != py_lc2o(doc, l, c):
            ctx.fail("C29/lc2o-value", "line_char_to_offset differs from the documented clamping",
                     doc=doc, line=l, character=c, observed=r[0], expected=py_lc2o(doc, l, c))
    ctx.cov["roundtrips_checked"] = n_rt
    ctx.cov["non_boundary_offsets_compared"] = n_panic_nb
    return docs


def applier_vs_model(ctx, docs, extra):
    """The independent Python applier against the Lean `applyEdit` (both are the specification)."""
    rng = ctx.rng
    cases = list(extra)
    for doc in rng.sample(docs, min(len(docs), ctx.scale(1500, 15000))):
        nl = len(EOL.findall(doc))
        sl, el = sorted((rng.randrange(nl + 2), rng.randrange(nl + 2)))
        sc, ec = rng.randrange(6), rng.randrange(6)
        if sl == el and sc > ec:
            sc, ec = ec, sc
        cases.append((doc, sl, sc, el, ec, rng.choice(["", "Q", "é\n", "\r\n"])))
    lines = ["lsp_apply %s %d %d %d %d %s" % (common.hexs(d), sl, sc, el, ec, common.hexs(t))
             for d, sl, sc, el, ec, t in cases]
    model = model_batch(ctx, lines)
    bad = 0
    for (d, sl, sc, el, ec, t), m in zip(cases, model):
        out, prob = apply_edits(d, [{"range": {"start": {"line": sl, "character": sc},
                                               "end": {"line": el, "character": ec}}, "newText": t}])
        s, _ = spec_index(d, sl, sc)
        e, _ = spec_index(d, el, ec)
        if s > e:
            continue          # invalid range: the two appliers may differ
        ctx.case(("apply", d, sl, sc, el, ec, t), True)
        if m != "OK " + common.hexs(out):
            bad += 1
            ctx.disagree("lsp_apply (python applier vs model)", {"doc": d, "range": [sl, sc, el, ec], "new": t},
                         m, "OK " + common.hexs(out))
    ctx.cov["applier_cases_vs_model"] = len(cases)


# ------------------------------------------------------------------ part C: the real server

TEMPLATES = [
    # (source with {U}/{V} slots for non-ASCII string contents)
    'fun f(x: Int): Int {\n  let s = "{U}" let foo = x + 1\n  let t = "{V}" let r = foo * 2 + foo\n  r + foo // {U}\n}\n',
    '// {U}{V}\nfun g(items: List<Int>): Int {\n  let total = 0 // {U}\n  for item in items { total += item }\n  println("{V}") total + 1\n}\n',
    'fun h(o: Option<Int>): Int {\n  let label = "{U}" let v = o\n  match v {\n    Some(n) => n + 1 // {V}\n    None => 0\n  }\n}\n',
    'fun k() {\n  let name = "{U}"\n  let greeting = "{V}" ^ name ^ "!"\n  println(greeting) println(name)\n}\n',
    'fun   bad_format( a:Int ,b : Int ) :Int{\n      let s="{U}"\n  a+b   // {V}\n}\n',
]
# Programs whose diagnostic / quickfix / symbol spans themselves CONTAIN 2-, 3- and 4-byte characters and
# are followed by more text on the same line ({W}, {X} = string contents).
SPAN_TEMPLATES = [
    'fun f(): Int {\n  "{W}" 12 // {X}\n}\n\nf()\n',
    'fun g(): Int {\n  "{W}" "{X}" 7\n}\n\ng()\n',
    'fun h(): String {\n  let s = "{X}" "{W}x" s\n}\nfun a() { "{W}" } fun b() { a() h() }\n\nb()\n',
]
# Lint-triggering programs whose fix spans involve MULTI-LINE constructs ({W} = string contents).
MULTI_TEMPLATES = [
    'fun add(x: Int, y: Int): Int {\n  x + y\n}\n\nfun f(): Int {\n  let v = add(\n    1,\n    2,\n  )\n  v\n}\n\nf()\n',
    'fun g(): List<String> {\n  let v = [\n    "{W}",\n    "b",\n  ]\n  v\n}\n\ng()\n',
    'fun h(b: Bool): Int {\n  let v = if b {\n    1 // {W}\n  } else {\n    2\n  }\n  v\n}\n\nh(True)\n',
    'fun m(o: Option<Int>): Int {\n  let s = "{W}" let v = match o {\n    Some(n) => n\n    None => 0\n  }\n  v\n}\n\nm(None)\n',
    'fun k(): Int {\n  "a\n{W}\nb" 12\n}\nfun k2(): Int {\n  [\n    1,\n    2,\n  ] 3\n}\n\nk() k2()\n',
    'fun r(x: Bool, y: Bool): Bool {\n  x ||\n    y || // {W}\n    x\n}\nfun r2(x: Bool, y: Bool): Bool {\n  (x &&\n    y) && x\n}\n\nr(True, False) r2(True, False)\n',
    'fun u(): Int {\n  let w = "{W}" let v = add2(\n    1, 2)\n  v\n}\nfun add2(x: Int, y: Int): Int { x + y }\n\nu()\n',
]
SPAN_STRINGS = ["é", "日本", "\U0001F600", "a€\U0001d11e", "ü\U0001F600é"]

UNI = ["", "é", "\U0001F600", "€é", "\U0001F600\U0001d11eé", "abc"]

TOKEN = re.compile(r'"(?:[^"\\\n]|\\.)*"|[A-Za-z_][A-Za-z0-9_]*|[0-9]+|//[^\n]*|\S')
KEYWORDS = {"fun", "let", "match", "if", "else", "for", "in", "while", "return", "public", "test", "import",
            "struct", "enum", "method", "break", "continue", "as", "assert"}


def strip_footer(src):
    i = src.find("\n// args: ")
    if i >= 0:
        src = src[:i + 1]
    while src.endswith("\n\n"):
        src = src[:-1]
    return src


CARET_LINE = re.compile(r"^[ \t]*//[ \t]*(\^+)[ \t]*$")


def remove_carets(src):
    """Returns (source without caret comment lines, [(start_char_index, end_char_index)])."""
    out, sels, pos = [], [], 0
    prev_start = None
    for line in src.split("\n"):
        m = CARET_LINE.match(line)
        if m and prev_start is not None:
            sels.append((prev_start + m.start(1), prev_start + m.end(1)))
            continue
        prev_start = pos
        out.append(line)
        pos += len(line) + 1
    return "\n".join(out), sels


def load_seeds(ctx):
    seeds = []
    base = os.path.join(common.REPO, "src", "test_files")
    for sub in ["rename", "extract_variable", "extract_function", "wrap_in_dbg", "add_type_annotation",
                "destructure", "check_fix", "format"]:
        d = os.path.join(base, sub)
        if not os.path.isdir(d):
            continue
        for f in sorted(os.listdir(d)):
            if f.endswith(".gdn"):
                try:
                    src = open(os.path.join(d, f), encoding="utf-8").read()
                except (OSError, UnicodeDecodeError):
                    continue
                body, sels = remove_carets(strip_footer(src))
                if "\r" in body or len(body) > 2500:
                    continue
                seeds.append((sub + "/" + f, body, sels))
    return seeds


def selections(rng, src, given, k):
    """Candidate (start, end) character-index selections: given caret regions, single tokens,
    and balanced token runs on one line."""
    toks = [(m.start(), m.end(), m.group(0)) for m in TOKEN.finditer(src) if not m.group(0).startswith("//")]
    out = []
    for s, e in given:
        out += [(s, e)]
    cand = []
    for i, (s, e, t) in enumerate(toks):
        if re.match(r"[A-Za-z_0-9\"]", t) and t not in KEYWORDS:
            cand.append((s, e))
            cand.append((s, s))
        depth = 0
        for j in range(i, min(i + 8, len(toks))):
            s2, e2, t2 = toks[j]
            if "\n" in src[s:e2]:
                break
            if t2 in "([{":
                depth += 1
            elif t2 in ")]}":
                depth -= 1
                if depth < 0:
                    break
            if depth == 0 and j > i and t not in KEYWORDS and t2 not in {",", "=", "+", "*", "^", "=>"}:
                cand.append((s, e2))
    rng.shuffle(cand)
    out += cand[:k]
    seen, res = set(), []
    for x in out:
        if x not in seen and 0 <= x[0] <= x[1] <= len(src):
            seen.add(x)
            res.append(x)
    return res


def ident_occurrences(src):
    return [(m.start(), m.group(0)) for m in TOKEN.finditer(src)
            if re.match(r"[A-Za-z_]", m.group(0)) and m.group(0) not in KEYWORDS]


def char_to_byte(src, i):
    return len(src[:i].encode("utf-8"))


def char_to_pos(src, i):
    pre = src[:i]
    return {"line": pre.count("\n"), "character": u16(pre.rsplit("\n", 1)[-1])}


def parse_stream(text):
    dec, i, out = json.JSONDecoder(), 0, []
    while True:
        while i < len(text) and text[i].isspace():
            i += 1
        if i >= len(text):
            return out
        try:
            obj, i = dec.raw_decode(text, i)
        except ValueError:
            return out
        out.append(obj)


ACTIONS = {
    "Extract function": lambda p, s, e: ["reftest-extract-function", p, str(s), str(e), "--name", "extracted"],
    "Extract variable": lambda p, s, e: ["reftest-extract-variable", p, str(s), str(e), "--name", "extracted"],
    "Destructure enum": lambda p, s, e: ["reftest-destructure", p, str(s), str(e)],
    "Wrap in dbg()": lambda p, s, e: ["reftest-wrap-in-dbg", p, str(s), str(e)],
    "Add type annotation": lambda p, s, e: ["reftest-add-type-annotation", p, str(s), str(e)],
}


def cli(ctx, args):
    """Run the garden CLI, capturing stdout as bytes (no newline translation).
    Returns (status, text): status in ok / refused / crash / timeout."""
    rc, so, _ = ctx.garden(args, input=b"", timeout=90)
    if isinstance(so, bytes):
        so = so.decode("utf-8", "replace")
    if rc == -9999:
        return "timeout", None
    if common.crashed(rc):
        return "crash", None
    if rc == 0:
        return "ok", so
    return "refused", so


def run_program(ctx, job):
    """One program: one reftest-lsp process with all requests, then the CLI commands."""
    idx, name, src, sels, renames, d = job
    path = os.path.join(d, "p%d.gdn" % idx)
    with open(path, "w", encoding="utf-8", newline="") as f:
        f.write(src)
    uri = "file://" + path
    msgs = [{"jsonrpc": "2.0", "method": "textDocument/didOpen", "params": {"textDocument": {
        "uri": uri, "languageId": "garden", "version": 1, "text": src}}}]
    reqs = {}
    rid = 1
    msgs.append({"jsonrpc": "2.0", "id": rid, "method": "textDocument/formatting", "params": {
        "textDocument": {"uri": uri}, "options": {"tabSize": 4, "insertSpaces": True}}})
    reqs[rid] = ("format",)
    for (s, e) in sels:
        rid += 1
        msgs.append({"jsonrpc": "2.0", "id": rid, "method": "textDocument/codeAction", "params": {
            "textDocument": {"uri": uri}, "range": {"start": char_to_pos(src, s), "end": char_to_pos(src, e)},
            "context": {"diagnostics": []}}})
        reqs[rid] = ("action", s, e)
    for (s, new) in renames:
        rid += 1
        msgs.append({"jsonrpc": "2.0", "id": rid, "method": "textDocument/rename", "params": {
            "textDocument": {"uri": uri}, "position": char_to_pos(src, s), "newName": new}})
        reqs[rid] = ("rename", s, new)
    rid += 1
    msgs.append({"jsonrpc": "2.0", "id": rid, "method": "textDocument/codeAction", "params": {
        "textDocument": {"uri": uri}, "range": {"start": {"line": 0, "character": 0},
                                                 "end": {"line": src.count("\n") + 1, "character": 0}},
        "context": {"diagnostics": []}}})
    reqs[rid] = ("fixes",)
    rid += 1
    msgs.append({"jsonrpc": "2.0", "id": rid, "method": "textDocument/documentSymbol", "params": {
        "textDocument": {"uri": uri}}})
    reqs[rid] = ("symbols",)
    jl = os.path.join(d, "p%d.jsonl" % idx)
    with open(jl, "w", encoding="utf-8") as f:
        for k, m in enumerate(msgs):
            f.write(json.dumps(m, ensure_ascii=(idx % 2 == 0)) + "\n")
    rc, so, se = ctx.garden(["reftest-lsp", jl], input=b"", timeout=120)
    if isinstance(so, bytes):
        so = so.decode("utf-8", "replace")
    results = []          # (kind, detail, lsp_text_or_None, cli_text_or_None, problem)
    if common.crashed(rc) or rc == -9999:
        return {"name": name, "crash": rc, "results": []}
    stream = parse_stream(so)
    answers = {o["id"]: o for o in stream if isinstance(o, dict) and "id" in o and "method" not in o}
    ranges = []           # (what, start_offset, end_offset, line, end_line, [sl, sc, el, ec] from the server)
    range_problems = []   # (key, what, detail)
    clean = "\r" not in src and src.endswith("\n") and "// args: " not in src
    spanprog = name.startswith("span") or name.startswith("multi")
    # published diagnostics vs the Garden positions `check --json` reports (1-based lines, byte columns)
    if clean and (spanprog or not ctx.quick() or idx % 3 == 1):
        diags = None
        for o in stream:
            if isinstance(o, dict) and o.get("method") == "textDocument/publishDiagnostics" \
                    and o.get("params", {}).get("uri") == uri:
                diags = o["params"].get("diagnostics") or []
                break
        st, so2 = cli(ctx, ["check", "--json", path])
        if diags is not None and st in ("ok", "refused"):
            gpos = []
            for ln in (so2 or "").split("\n"):
                if ln.startswith("{"):
                    try:
                        gpos.append(json.loads(ln))
                    except ValueError:
                        pass
            line_starts = [0]
            for l in src.encode("utf-8").split(b"\n")[:-1]:
                line_starts.append(line_starts[-1] + len(l) + 1)
            by_msg_l, by_msg_g = {}, {}
            for dg in diags:
                by_msg_l.setdefault(dg.get("message"), []).append(dg)
            for g in gpos:
                by_msg_g.setdefault(g.get("message"), []).append(g)
            for msg, ls in by_msg_l.items():
                gs = by_msg_g.get(msg, [])
                if len(gs) != len(ls):
                    continue          # the two front ends report different sets; not comparable
                for dg, g in zip(ls, gs):
                    l0, l1 = g["line_number"] - 1, g["end_line_number"] - 1
                    if not (0 <= l0 < len(line_starts) and 0 <= l1 < len(line_starts)):
                        continue
                    r = dg["range"]
                    ranges.append(("diagnostic " + repr(msg)[:60], line_starts[l0] + g["column"],
                                   line_starts[l1] + g["end_column"], l0, l1,
                                   [r["start"]["line"], r["start"]["character"], r["end"]["line"], r["end"]["character"]],
                                   None))

    seen_edits = []

    def edits_of(ws):
        if not ws:
            return None
        ch = ws.get("changes") or {}
        if list(ch.keys()) not in ([uri], []):
            return "other-uri"
        for e in ch.get(uri) or []:
            seen_edits.append(e)
        return ch.get(uri)

    for rid, req in reqs.items():
        a = answers.get(rid)
        if a is None or "error" in a:
            results.append((req[0], req[1:], None, None, "no answer from reftest-lsp: %r" % (a,)))
            continue
        res = a.get("result")
        if req[0] == "format":
            lsp, prob = apply_edits(src, res or [])
            seen_edits.extend(res or [])
            r2 = ctx.garden_verif_format(src)
            results.append(("format", (), lsp, r2, prob))
            if "\r" not in src and src.endswith("\n") and "// args: " not in src and (
                    not ctx.quick() or idx % 3 == 0):
                st, so2 = cli(ctx, ["format", path])
                if st in ("ok", "refused"):
                    results.append(("format-cli", (), lsp, so2 if st == "ok" else None, prob))
        elif req[0] == "rename":
            s, new = req[1], req[2]
            eds = edits_of(res)
            lsp, prob = (None, None) if eds is None else apply_edits(src, eds) if eds != "other-uri" else (None, "other uri")
            st, so2 = cli(ctx, ["reftest-rename", path, str(char_to_byte(src, s)), "--new-name", new])
            if st in ("crash", "timeout"):
                prob = "cli " + st
            results.append(("rename", (s, new), lsp, so2 if st == "ok" else None, prob))
        elif req[0] == "action":
            s, e = req[1], req[2]
            by_title = {}
            for act in res or []:
                if act.get("kind") != "quickfix":
                    by_title[act.get("title")] = act
            offered = set(by_title)
            others = [t for t in ACTIONS if t not in offered]
            probe = set(offered)
            if others:      # also check one refactoring the server did not offer
                probe.add(others[(idx + s + e) % len(others)])
            for title, mk in ACTIONS.items():
                if title not in probe:
                    continue
                act = by_title.pop(title, None)
                lsp = prob = None
                if act is not None:
                    eds = edits_of(act.get("edit"))
                    if eds in (None, "other-uri"):
                        prob = "action without edit for this uri"
                    else:
                        lsp, prob = apply_edits(src, eds)
                st, so2 = cli(ctx, mk(path, char_to_byte(src, s), char_to_byte(src, e)))
                out2 = so2 if st == "ok" else None
                if title in ("Extract function", "Extract variable") and s >= e:
                    out2 = None       # the server only offers extraction for non-empty selections
                if st in ("crash", "timeout"):
                    prob = "cli " + st
                results.append((title, (s, e), lsp, out2, prob))
            for title in by_title:
                results.append(("unknown-action", (s, e, title), None, None, None))
        elif req[0] == "symbols":
            todo = list(res or [])
            while todo:
                sym = todo.pop()
                todo += sym.get("children") or []
                rr, sr = sym.get("range"), sym.get("selectionRange")
                if not rr or not sr or has_bare_cr(src):
                    continue
                a0, x0 = spec_index(src, rr["start"]["line"], rr["start"]["character"])
                a1, x1 = spec_index(src, rr["end"]["line"], rr["end"]["character"])
                b0, y0 = spec_index(src, sr["start"]["line"], sr["start"]["character"])
                b1, y1 = spec_index(src, sr["end"]["line"], sr["end"]["character"])
                text, sel = src[a0:a1], src[b0:b1]
                bad = None
                if x0 or x1 or y0 or y1:
                    bad = "a symbol range splits a surrogate pair"
                elif not (re.fullmatch(r"[A-Za-z_][A-Za-z0-9_]*", sel) and sel in (sym.get("name") or "")
                          and not re.match(r"[A-Za-z0-9_]", src[b1:b1 + 1] or " ")
                          and not re.match(r"[A-Za-z0-9_]", src[b0 - 1:b0] or " ")):
                    bad = "selectionRange is not exactly the identifier token of the symbol's name"
                elif not (a0 <= b0 and b1 <= a1):
                    bad = "range does not contain selectionRange"
                elif text != text.strip():
                    bad = "range starts or ends in white space (not on the item's first/last token)"
                ranges.append(None)       # counted as a case below
                if bad:
                    range_problems.append(("C29/symbol-range", "documentSymbol: " + bad,
                                           dict(symbol=sym.get("name"), range=rr, selectionRange=sr,
                                                range_text=text[:200], selection_text=sel[:80])))
        elif req[0] == "fixes":
            acts = [a for a in res or [] if a.get("kind") == "quickfix"]
            eds, prob, per_act = [], None, []
            for act in acts:
                e1 = edits_of(act.get("edit"))
                if e1 in (None, "other-uri"):
                    prob = "quickfix without edit"
                    per_act.append(None)
                else:
                    eds += e1
                    per_act.append(e1)
            # the Garden fix positions (hook op `check`: the same load + check pipeline as get_fixes), in order
            gfix = ctx.garden_verif_fixes(src)
            garden_overlap = None
            if gfix is not None and len(gfix) == len(acts) and all(
                    e1 is not None and len(e1) == 1 and e1[0]["newText"] == g[6] and a.get("title") == g[0]
                    for a, e1, g in zip(acts, per_act, gfix)):
                for a, e1, g in zip(acts, per_act, gfix):
                    r = e1[0]["range"]
                    ranges.append(("quickfix " + repr(g[0])[:60], g[1], g[2], None, None,
                                   [r["start"]["line"], r["start"]["character"], r["end"]["line"], r["end"]["character"]],
                                   (g[3], g[4])))
                spans = sorted((g[1], g[2]) for g in gfix)
                garden_overlap = any(a_[1] > b_[0] for a_, b_ in zip(spans, spans[1:]))
            if not eds:
                continue
            lsp, prob2 = apply_edits(src, eds)
            if prob2 == "overlapping edits":
                if garden_overlap is False and not has_bare_cr(src):
                    range_problems.append(("C29/edit-overlap/quickfixes", "quickfix edits of the server overlap "
                                           "although the fixes' byte spans in the source do not",
                                           dict(edits=eds, garden_fix_spans=[list(g[1:3]) for g in gfix])))
                continue      # `check --fix` applies overlapping fixes sequentially; not comparable
            if "\r" in src or not src.endswith("\n") or "// args: " in src:
                continue      # `check` normalises such files before fixing
            st, so2 = cli(ctx, ["check", "--fix", "--stdout", path])
            if st in ("crash", "timeout"):
                prob = "cli " + st
            results.append(("quickfixes", (len(eds),), lsp, so2 if so2 else None, prob or prob2))
    return {"name": name, "crash": None, "results": results, "src": src, "file": path, "jsonl": jl,
            "edits": seen_edits, "ranges": ranges, "range_problems": range_problems}


def server_edits(ctx):
    rng = ctx.rng
    seeds = load_seeds(ctx)
    programs = []          # (name, src, given selections)
    if ctx.quick():
        keep, per = [], {}
        for sd in seeds:
            sub = sd[0].split("/")[0]
            per[sub] = per.get(sub, 0) + 1
            if sub not in ("format", "check_fix") or per[sub] % 8 == 1:
                keep.append(sd)
        seeds = keep
    for name, body, sels in seeds:
        programs.append((name, body, sels))
    for ti, t in enumerate(TEMPLATES):
        combos = [(u, v) for u in UNI for v in UNI]
        rng.shuffle(combos)
        for u, v in combos[:ctx.scale(1, 12)] + [("\U0001F600é", "€")]:
            programs.append(("template%d[%s|%s]" % (ti, u, v), t.replace("{U}", u).replace("{V}", v), []))
    # variants: unicode comment line in front; CRLF; bare CR; no trailing newline
    variants = []
    for name, src, sels in programs:
        variants.append((name, src, sels))
    for ti, t in enumerate(SPAN_TEMPLATES):
        ws = list(SPAN_STRINGS)
        rng.shuffle(ws)
        for k, w in enumerate(["é", "日本", "\U0001F600"] + ws[:ctx.scale(0, 5)]):
            x = ws[k % len(ws)]
            variants.append(("span%d[%s|%s]" % (ti, w, x), t.replace("{W}", w).replace("{X}", x), []))
    for name, src, sels in rng.sample(programs, min(len(programs), ctx.scale(4, 40))):
        pre = "// é€\U0001F600\n"
        variants.append((name + "+ucomment", pre + src, [(s + len(pre), e + len(pre)) for s, e in sels]))
    for name, src, sels in rng.sample(programs, min(len(programs), ctx.scale(4, 30))):
        def shift(i, src=src):
            return i + src[:i].count("\n")
        variants.append((name + "+crlf", src.replace("\n", "\r\n"), [(shift(s), shift(e)) for s, e in sels]))
    for name, src, sels in rng.sample(programs, min(len(programs), ctx.scale(2, 12))):
        variants.append((name + "+notrailingnl", src.rstrip("\n"), sels))
    for name, src, sels in rng.sample(programs, min(len(programs), ctx.scale(3, 12))):
        # a bare CR where a newline was (whitespace for the lexer, a line break for LSP clients)
        k = src.find("\n")
        if k > 0:
            variants.append((name + "+barecr", src[:k] + "\r" + src[k + 1:], []))
    for ti, t in enumerate(MULTI_TEMPLATES):
        ws = ["x", "é", "日本\U0001F600"] if ti % 2 else ["\U0001F600é", "x"]
        for w in (ws if not ctx.quick() else ws[:1 + (ti % 2)]):
            src = t.replace("{W}", w)
            variants.append(("multi%d[%s]" % (ti, w), src, []))
            if ti in (0, 2, 5) and (w == ws[0]):
                variants.append(("multi%d[%s]+crlf" % (ti, w), src.replace("\n", "\r\n"), []))
    d = ctx.scratch("lsp")
    jobs = []
    n_sel = ctx.scale(1, 12)
    n_ren = ctx.scale(2, 10)
    for idx, (name, src, sels) in enumerate(variants):
        ss = selections(rng, src, sels, n_sel)
        occ = ident_occurrences(src)
        rng.shuffle(occ)
        rn = [(s, rng.choice(["renamed", "q", "new_name_1"])) for s, _ in occ[:n_ren]]
        jobs.append((idx, name, src, ss, rn, d))

    ctx.log("server part: %d programs" % len(jobs))
    outs = common.pmap(lambda j: run_program(ctx, j), jobs)
    n_cmp = n_edit = n_crash = n_skipped = 0
    per_kind = {}
    applier_cases = []
    for job, out in zip(jobs, outs):
        if out["crash"] is not None:
            n_crash += 1
            continue
        src = out["src"]
        for e in out["edits"][:40]:
            r = e["range"]
            applier_cases.append((src, r["start"]["line"], r["start"]["character"], r["end"]["line"],
                                  r["end"]["character"], e["newText"]))
        for kind, detail, lsp, cli, prob in out["results"]:
            if kind == "unknown-action":
                continue
            n_cmp += 1
            nontrivial = lsp is not None and lsp != src
            ctx.case((job[1], kind, detail), nontrivial)
            per_kind.setdefault(kind, [0, 0])
            per_kind[kind][0] += 1
            per_kind[kind][1] += 1 if nontrivial else 0
            if nontrivial:
                n_edit += 1
                ctx.sample({"program": job[1], "request": kind, "at": list(detail),
                            "edited_text_head": lsp[:80]}, limit=6)
            replay = dict(program=job[1], request=kind, at=list(detail), source=src, file=out["file"],
                          jsonl=out["jsonl"], lsp_applied=lsp, cli=cli, problem=prob)
            barecr = has_bare_cr(src)
            if prob and prob.startswith("no answer"):
                ctx.fail("C29/no-answer", prob, **replay)
            elif prob in ("cli crash", "cli timeout"):
                n_skipped += 1
                continue          # panics of the refactorings belong to other properties
            elif prob and not barecr:
                ctx.fail("C29/edit-shape/" + kind, "server edit is malformed: " + prob, **replay)
            elif lsp != cli:
                if barecr:
                    ctx.fail("C29/bare-CR-line-model", "edits of the real server on a document with a bare CR, "
                             "applied per the LSP spec, differ from the command-line result", **replay)
                elif (lsp is None) != (cli is None):
                    ctx.fail("C29/offered/" + kind, "server and command line disagree on whether the "
                             "refactoring applies", **replay)
                else:
                    ctx.fail("C29/edit-text/" + kind, "server edits applied per the LSP spec differ from the "
                             "command-line refactoring", **replay)
    # ranges of the real server, routed through the model (`lsp_range` = gardenPosToLspRange on the Garden
    # byte offsets) and through the independent reference
    rlines, rmeta = [], []
    n_sym = 0
    for job, out in zip(jobs, outs):
        if out["crash"] is not None:
            continue
        for key, what, detail in out["range_problems"]:
            ctx.fail(key, what, program=job[1], source=out["src"], file=out["file"], jsonl=out["jsonl"], **detail)
        for rg in out["ranges"]:
            if rg is None:
                n_sym += 1
                ctx.case((job[1], "symbol", n_sym), True)
                continue
            what, so_, eo_, l0, l1, got, glines = rg
            if l0 is None:        # line taken from the offset, not from the Position's line_number
                bsrc = out["src"].encode("utf-8")
                l0, l1 = bsrc[:so_].count(b"\n"), bsrc[:eo_].count(b"\n")
                rg = (what, so_, eo_, l0, l1, got, glines)
            rlines.append("lsp_range %s %d %d %d %d" % (common.hexs(out["src"]), so_, eo_, l0, l1))
            rmeta.append((job, out, rg))
    rmodel = model_batch(ctx, rlines)
    n_span_nonascii = 0
    for (job, out, (what, so_, eo_, l0, l1, got, glines)), m in zip(rmeta, rmodel):
        src = out["src"]
        span = src.encode("utf-8")[so_:eo_]
        nonascii = any(b > 0x7f for b in span)
        n_span_nonascii += 1 if nonascii else 0
        ctx.case((job[1], what, so_, eo_), nonascii)
        replay = dict(program=job[1], span=what, source=src, file=out["file"], jsonl=out["jsonl"],
                      garden_start_offset=so_, garden_end_offset=eo_, garden_line=l0, garden_end_line=l1,
                      server_range=got, model=m)
        if glines is not None and glines != (l0, l1):
            ctx.fail("C29/edit-range-line", "a fix Position's line_number / end_line_number is not the line that "
                     "contains its start_offset / end_offset, so the edit range the server sends is on another line",
                     position_lines=list(glines), lines_of_offsets=[l0, l1], **replay)
            continue
        bl = set(boundaries(src))
        if so_ in bl and eo_ in bl:
            ref = list(py_pos(src, so_) + py_pos(src, eo_))
            if got != ref:
                ctx.fail("C29/server-range", "a range published by the server is not the (line, UTF-16 column) "
                         "of the Garden position's byte offsets", expected=ref, **replay)
                continue
        if m != "OK %d %d %d %d" % tuple(got):
            ctx.disagree("lsp_range (real server range vs model gardenPosToLspRange)",
                         {"doc": src, "args": [so_, eo_, l0, l1]}, m, "OK %d %d %d %d" % tuple(got))
    ctx.cov["server_ranges_vs_model"] = len(rlines)
    ctx.cov["server_ranges_with_non_ascii_span"] = n_span_nonascii
    ctx.cov["server_symbol_ranges_checked"] = n_sym
    ctx.cov["server_programs"] = len(jobs)
    ctx.cov["server_comparisons"] = n_cmp
    ctx.cov["server_comparisons_with_real_edit"] = n_edit
    ctx.cov["server_per_request_kind(total,with_edit)"] = per_kind
    ctx.cov["reftest_lsp_crashes_skipped"] = n_crash
    ctx.cov["cli_crash_or_timeout_skipped"] = n_skipped
    return applier_cases


def run(ctx):
    # `format` through the hook (format::format on the exact text; `garden format FILE` first
    # normalises line endings through remove_testing_footer, so it is only used on clean files)
    import shutil
    import threading
    ctx.c29_driver = os.path.join(ctx.scratch("bin"), "gvdriver")
    with common.Lock("lake"):
        shutil.copy2(common.DRIVER, ctx.c29_driver)
    fmt = ctx.garden_verif()
    lock = threading.Lock()

    def garden_verif_format(src):
        with lock:
            r = fmt.ask("format " + common.hexs(src))
        return common.unhex(r[3:]) if r.startswith("OK ") else None
    ctx.garden_verif_format = garden_verif_format

    fix_re = re.compile(r"\(fix ([0-9a-f]*) (\d+):(\d+):(\d+):(\d+):\d+:\d+ ([0-9a-f]*)\)")

    def garden_verif_fixes(src):
        """[(description, start_offset, end_offset, line_number, end_line_number, _, new_text)] or None."""
        with lock:
            r = fmt.ask("check " + common.hexs(src))
        if not r.startswith("OK"):
            return None
        return [(common.unhex(m.group(1)), int(m.group(2)), int(m.group(3)), int(m.group(4)), int(m.group(5)),
                 None, common.unhex(m.group(6))) for m in fix_re.finditer(r)]
    ctx.garden_verif_fixes = garden_verif_fixes

    ctx.rule = ("(A) every document of length <= %d over {a, e-acute, euro, U+1F600, CR, LF} and random longer ones "
                "with characters on each UTF-8/UTF-16 length border: every byte offset 0..len+2 (non-boundary "
                "offsets must panic in both), a full (line, character) grid, the whole-document range; "
                "(B) reference oracle on the same; (C) small Garden programs (src/test_files seeds + templates with "
                "non-ASCII strings/comments before the edited text; LF, CRLF, no-trailing-newline, bare-CR variants) "
                "through reftest-lsp formatting / rename / codeAction vs the CLI refactorings. Non-trivial = the "
                "document has a multi-byte character, CR or LF (conversions); the edit changes the text (server)."
                % ctx.scale(4, 5))
    # the server part first: it forks ~1000 short processes, which is slow once this process is large
    only = os.environ.get("C29_ONLY", "")      # development aid: "server" or "conv"
    extra = server_edits(ctx) if only != "conv" else []
    ctx.log("server edits done: %d cases" % ctx.evaluations)
    docs = conversions(ctx) if only != "server" else [""]
    ctx.log("conversions done: %d cases" % ctx.evaluations)
    applier_vs_model(ctx, docs, extra[:ctx.scale(3000, 20000)])
    fmt.close()
    ctx.assumptions += [
        "model M9 is hand-written from src/lsp.rs; the hook ops lsp_o2p/lsp_lc2o/lsp_whole call the three Rust "
        "functions directly; only the correspondence run ties model and code",
        "documents shorter than 2^32 bytes (the `as u32` casts of LSP positions are modelled and are the only "
        "size hypothesis of the theorems)",
        "`str::lines`, `str::find`, `rfind`, `char_indices`, `encode_utf16` are modelled from the Rust library "
        "documentation/source (Rust 1.95: a final bare CR is kept by lines())",
        "the specification side (applyEdit) follows LSP 3.17 'Text Documents'/'Position'; a line past the end "
        "denotes the end of the document, a column inside a surrogate pair moves past the pair (the "
        "specification leaves both open); the Python applier is checked against the Lean applyEdit",
        "the correspondence between a Garden Position (byte offsets + line numbers from the lexer) and the "
        "arguments of garden_pos_to_lsp_range is exercised through the real server runs (part C: published "
        "diagnostic ranges vs the model on the offsets `check --json` reports) and, when the tree has it, the "
        "lsp_range hook op",
    ]
