"""Shared correspondence runner for the evaluator model M4 (used by C02, C05, C06, C08, C25 …).

For each program: `astx` (real parser's tree with node ids and use flags) → Lean `machine_run`
(the model machine on the real tree) and `machine` (the real evaluator, in-process, with the per-tick
trace hook). Responses have the same format; `parse_resp` splits them and `classify_err` maps the real
evaluator's messages to the model's error kinds.
"""
import re
from .common import hexs, unhex

MSG_KINDS = [
    (r"^No such variable `?(\w+)", lambda m: "no-such-variable " + m.group(1)),
    (r"^(\w+) is not currently bound", lambda m: "not-bound " + m.group(1)),
    (r"^Expected `?Function`? ", lambda m: "type-error Function"),
    (r"^Expected `?(\w+)`? but", lambda m: "type-error " + m.group(1)),
    (r"^Expected a tuple with (\d+) items, got a tuple with (\d+)", lambda m: "tuple-size %s %s" % m.groups()),
    (r"^Expected a tuple of (\d+) items, but got a tuple of (\d+)", lambda m: "tuple-size %s %s" % m.groups()),
    (r"^Function .* requires (\d+) arguments?, but got (\d+)", lambda m: "arity %s %s" % m.groups()),
    (r"^Closure expects (\d+) arguments?, but got (\d+)", lambda m: "arity %s %s" % m.groups()),
    (r"^Tried to divide .* by zero", lambda m: "div-zero"),
    (r"^Integer overflow on dividing", lambda m: "div-overflow"),
    (r"^Tried to calculate the remainder", lambda m: "mod-zero"),
    (r"^Cannot raise an integer to a negative power", lambda m: "neg-pow"),
    (r"^Exponent is too large", lambda m: "pow-too-large"),
    (r"^Integer overflow on raising", lambda m: "pow-overflow"),
    (r"^No cases in this `match`", lambda m: "no-match"),
    (r"^Expected an enum variant named `?(\w+)", lambda m: "bad-pattern " + m.group(1)),
    (r"^Patterns must be enum variants", lambda m: "bad-pattern ?"),
    (r"^Expected an enum value", lambda m: "not-enum"),
    (r"^Tried to evaluate a syntactically invalid", lambda m: "invalid-syntax"),
]


def classify_err(msg):
    for rx, f in MSG_KINDS:
        m = re.match(rx, msg)
        if m:
            return f(m)
    return "unclassified " + msg[:60]


RESP = re.compile(r"^OK \(machine (\(.*?\)) \(interrupted (\d+)\) (\(end[^)]*\)|\(empty\)) \(out ([0-9a-f]*)\) "
                  r"\(errout ([0-9a-f]*)\) \(trace ([0-9a-f]*)\)\)$")


def parse_resp(r):
    """-> dict(kind=ok|err|panic|unsupported|parse-error|died|other, outcome, interrupted, end, out, trace)"""
    if r is None:
        return dict(kind="died", raw="None")
    if r.startswith("PANIC"):
        return dict(kind="panic", raw=unhex(r[6:]) if len(r) > 6 else "")
    if r.startswith("DIED"):
        return dict(kind="died", raw=r)
    if r.startswith("OK (parse-error)"):
        return dict(kind="parse-error", raw=r)
    if r.startswith("OK (machine (unsupported"):
        return dict(kind="unsupported", raw=unhex(re.search(r"unsupported ([0-9a-f]*)", r).group(1)))
    m = RESP.match(r)
    if not m:
        if "(ok none)" in r:
            return dict(kind="ok", outcome="none", interrupted=0, end="", out="", trace=[])
        return dict(kind="other", raw=r[:300])
    outcome, ni, end, out, errout, trace = m.groups()
    d = dict(interrupted=int(ni), end=end, out=unhex(out), trace=unhex(trace).split("\n") if trace else [])
    if outcome.startswith("(ok "):
        d.update(kind="ok", outcome=outcome[4:-1])
    elif outcome.startswith("(err "):
        d.update(kind="err", outcome=outcome[5:-1])
    elif outcome.startswith("(exception ") or outcome.startswith("(assertion "):
        parts = outcome[1:-1].split(" ")
        d.update(kind="err", outcome=classify_err(unhex(parts[2])), pos=parts[1], msg=unhex(parts[2]))
    elif outcome.startswith("(ticklimit"):
        d.update(kind="err", outcome="tick-limit")
    elif outcome.startswith("(stacklimit"):
        d.update(kind="err", outcome="stack-limit")
    elif outcome.startswith("(interrupted"):
        d.update(kind="err", outcome="interrupted")
    elif outcome.startswith("(panic "):
        d.update(kind="panic", raw=unhex(outcome[7:-1]))
    elif outcome.startswith("(unsupported "):
        d.update(kind="unsupported", raw=unhex(outcome[13:-1]))
    elif outcome.startswith("(out-of-fuel"):
        d.update(kind="out-of-fuel")
    else:
        d.update(kind="other", raw=outcome)
    return d


def run_pairs(ctx, srcs, interrupts=None, tick_limit=None, stack_limit=None, fuel=200000, trace=True):
    """Run each source on the real evaluator and on the model. Returns list of (impl, model) dicts."""
    n = len(srcs)
    ints = interrupts or [None] * n
    ast = ctx.garden_batch(["astx " + hexs(s) for s in srcs])

    def opt(x):
        return "-" if x is None else str(x)

    def il(x):
        return "-" if not x else ",".join(str(t) for t in x)
    tl, sl = opt(tick_limit), opt(stack_limit)
    tr = "trace" if trace else "notrace"
    impl_lines = ["machine %s %s %s %s %s" % (hexs(s), il(i), tl, sl, tr) for s, i in zip(srcs, ints)]
    model_lines = []
    for a, i in zip(ast, ints):
        body = a[3:] if a and a.startswith("OK ") else "(astx 1)"
        model_lines.append("machine_run %s %s %s %d %s %s" % (il(i), tl, sl, fuel, tr, body))
    impl = ctx.garden_batch(impl_lines, timeout=900)
    model = ctx.model_batch(model_lines, timeout=900)
    return [(parse_resp(a), parse_resp(b)) for a, b in zip(impl, model)]


def compare(i, m, with_trace=True):
    """None if the observable behaviour (and, optionally, the per-tick trace) agree; else a description."""
    if m["kind"] in ("unsupported",) or i["kind"] == "parse-error":
        return None
    if i["kind"] != m["kind"]:
        return "kind: impl %s %s / model %s %s" % (i["kind"], i.get("outcome", i.get("raw")), m["kind"],
                                                  m.get("outcome", m.get("raw")))
    if i["kind"] in ("ok", "err"):
        if i["outcome"] != m["outcome"] and not i["outcome"].startswith("unclassified"):
            return "outcome: impl %s / model %s" % (i["outcome"], m["outcome"])
        if i["out"] != m["out"]:
            return "stdout differs: impl %r / model %r" % (i["out"][:200], m["out"][:200])
        if i["end"] != m["end"]:
            return "end state: impl %s / model %s" % (i["end"], m["end"])
        if i["interrupted"] != m["interrupted"]:
            return "interrupt count: impl %d / model %d" % (i["interrupted"], m["interrupted"])
        if with_trace and i["trace"] != m["trace"]:
            for k, (a, b) in enumerate(zip(i["trace"], m["trace"])):
                if a != b:
                    return "trace line %d: impl %r / model %r" % (k, a, b)
            return "trace length: impl %d / model %d" % (len(i["trace"]), len(m["trace"]))
    return None
