import GardenVerif.Model.Extract
/-!
# Fixes — the program-level relations of the `check --fix` schemas (C22)

Each autofix schema is a DECIDABLE relation between the tree before (`orig`) and the tree after
(`fixed`) ONE diagnostic's fix, stated up to node ids / use flags (the text edit renumbers nodes).

* repeated `&&` / `||` operand: `fixed` is `orig` with one node `x op d` replaced by `x`, where `x` is
  a call-free pure (`arithE`) expression and `d` is (a copy of) the `k`-th operand of the `op`-chain
  `x`. Expressed with the wrap transformer of Model/Extract: `orig = WP (rbCfg op k t) fixed`.
* unused literal statement: `fixed` is `orig` with the selected statements — int / string literals
  that are not the last statement of their block — deleted (`delProg`).
-/

namespace Fixes
open Machine (Expr Case Dest BinOp Program FunDef EnumDef)
open RefSem Validators Extract

/-- Operands of a chain of the same operator (parentheses are looked through, as `collect_operands`
in src/checks/repeated_bool.rs does). -/
def operands (op : BinOp) : Expr → List Expr
  | .binop id u op' l r =>
      if op' = op then operands op l ++ operands op r else [.binop id u op' l r]
  | .paren _ _ e => operands op e
  | e => [e]

def isBoolOp (op : BinOp) : Bool := decide (op = .and) || decide (op = .or)

/-- The inverse of the fix at the fixed node `x`: `x op <k-th operand of x>`. Anything that is not an
admissible instance is wrapped in parentheses instead (so that no instance of the relation exists). -/
def rbWrap (op : BinOp) (k : Nat) (x : Expr) : Expr :=
  match (operands op x)[k]? with
  | some d => if isBoolOp op && arithE x then .binop 0 false op x d else .paren 0 false x
  | none => .paren 0 false x

def rbCfg (op : BinOp) (k t : Nat) : WCfg :=
  { strip := true, sel := fun i => i == t, wrap := rbWrap op k, ok := fun _ => true, k := 1,
    fk := some .typeError }

/-- `fixed` is `orig` with the repeated operand removed at node `t` of `fixed` (up to ids / flags). -/
def IsRepeatedBoolFix (orig fixed : Program) (op : BinOp) (k t : Nat) : Prop :=
  WP stripCfg orig = WP (rbCfg op k t) fixed ∧ hitsProg t fixed = 1

def repeatedBoolCheck (orig fixed : Program) (op : BinOp) (k t : Nat) : Bool :=
  progEq (WP stripCfg orig) (WP (rbCfg op k t) fixed) && hitsProg t fixed == 1

-- ------------------------------------------------------------------ unused literal statements

def isLit : Expr → Bool
  | .int .. => true
  | .str .. => true
  | _ => false

/-- Is the head statement `e` of `e :: rest` deleted? Only a selected int / string literal that is
not the last statement of its sequence (the last one is the block's value). -/
def delHere (sel : Nat → Bool) (e : Expr) (rest : List Expr) : Bool :=
  isLit e && sel e.id && !rest.isEmpty

mutual
/-- Delete the selected literal statements in every statement sequence of the expression. -/
def del (sel : Nat → Bool) : Expr → Expr
  | .int id u v => .int id u v
  | .str id u v => .str id u v
  | .var id u n => .var id u n
  | .binop id u op l r => .binop id u op (del sel l) (del sel r)
  | .letE id u d rhs => .letE id u d (del sel rhs)
  | .assign id u n rhs => .assign id u n (del sel rhs)
  | .update id u a n rhs => .update id u a n (del sel rhs)
  | .ifE id u c t e => .ifE id u (del sel c) (delSeq sel t) (delOpt sel e)
  | .whileE id u c b => .whileE id u (del sel c) (delSeq sel b)
  | .forE id u d e b => .forE id u d (del sel e) (delSeq sel b)
  | .matchE id u x cs => .matchE id u (del sel x) (delCases sel cs)
  | .ret id u none => .ret id u none
  | .ret id u (some e) => .ret id u (some (del sel e))
  | .brk id u => .brk id u
  | .cont id u => .cont id u
  | .list id u es => .list id u (delList sel es)
  | .tuple id u es => .tuple id u (delList sel es)
  | .call id u r as => .call id u (del sel r) (delList sel as)
  | .lambda id u ps b => .lambda id u ps (delSeq sel b)
  | .paren id u e => .paren id u (del sel e)
  | .invalid id u => .invalid id u
  | .unsup id u w => .unsup id u w
/-- A statement sequence. -/
def delSeq (sel : Nat → Bool) : List Expr → List Expr
  | [] => []
  | e :: rest => if delHere sel e rest then delSeq sel rest else del sel e :: delSeq sel rest
/-- Items of a list / tuple literal, call arguments: nothing is deleted at this level. -/
def delList (sel : Nat → Bool) : List Expr → List Expr
  | [] => []
  | e :: rest => del sel e :: delList sel rest
def delOpt (sel : Nat → Bool) : Option (List Expr) → Option (List Expr)
  | none => none
  | some b => some (delSeq sel b)
def delCase (sel : Nat → Bool) : Case → Case
  | .mk v d b => .mk v d (delSeq sel b)
def delCases (sel : Nat → Bool) : List Case → List Case
  | [] => []
  | c :: rest => delCase sel c :: delCases sel rest
end

def delFun (sel : Nat → Bool) (d : FunDef) : FunDef := { d with body := delSeq sel d.body }

def delProg (sel : Nat → Bool) (p : Program) : Program :=
  { p with funs := p.funs.map (delFun sel), toplevel := delSeq sel p.toplevel }

/-- Number of statements deleted at the top level of a sequence. -/
def dels (sel : Nat → Bool) : List Expr → Nat
  | [] => 0
  | e :: rest => (if delHere sel e rest then 1 else 0) + dels sel rest

mutual
/-- Every statement sequence inside the expression loses at most `K` statements. -/
def dok (sel : Nat → Bool) (K : Nat) : Expr → Bool
  | .binop _ _ _ l r => dok sel K l && dok sel K r
  | .letE _ _ _ rhs => dok sel K rhs
  | .assign _ _ _ rhs => dok sel K rhs
  | .update _ _ _ _ rhs => dok sel K rhs
  | .ifE _ _ c t e => dok sel K c && decide (dels sel t ≤ K) && dokL sel K t && dokOpt sel K e
  | .whileE _ _ c b => dok sel K c && decide (dels sel b ≤ K) && dokL sel K b
  | .forE _ _ _ e b => dok sel K e && decide (dels sel b ≤ K) && dokL sel K b
  | .matchE _ _ x cs => dok sel K x && dokCases sel K cs
  | .ret _ _ (some e) => dok sel K e
  | .list _ _ es => dokL sel K es
  | .tuple _ _ es => dokL sel K es
  | .call _ _ r as => dok sel K r && dokL sel K as
  | .lambda _ _ _ b => decide (dels sel b ≤ K) && dokL sel K b
  | .paren _ _ e => dok sel K e
  | _ => true
def dokL (sel : Nat → Bool) (K : Nat) : List Expr → Bool
  | [] => true
  | e :: rest => dok sel K e && dokL sel K rest
def dokOpt (sel : Nat → Bool) (K : Nat) : Option (List Expr) → Bool
  | none => true
  | some b => decide (dels sel b ≤ K) && dokL sel K b
def dokCases (sel : Nat → Bool) (K : Nat) : List Case → Bool
  | [] => true
  | .mk _ _ b :: rest => decide (dels sel b ≤ K) && dokL sel K b && dokCases sel K rest
end

/-- A statement sequence: at most `K` deletions at its top level and in every nested sequence. -/
def dokSeq (sel : Nat → Bool) (K : Nat) (es : List Expr) : Bool := decide (dels sel es ≤ K) && dokL sel K es

def dokProg (sel : Nat → Bool) (K : Nat) (p : Program) : Bool :=
  p.funs.all (fun d => dokSeq sel K d.body) && dokSeq sel K p.toplevel

/-- `fixed` is `orig` with the selected unused literal statements removed (up to ids / flags). -/
def IsUnusedLiteralFix (orig fixed : Program) (sel : Nat → Bool) : Prop :=
  WP stripCfg fixed = WP stripCfg (delProg sel orig)

def unusedLiteralCheck (orig fixed : Program) (sel : Nat → Bool) : Bool :=
  progEq (WP stripCfg fixed) (WP stripCfg (delProg sel orig))

end Fixes
