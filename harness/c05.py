"""C05 — Core-language programs behave as the reference semantics says.

Proof: GardenVerif.Props.C05 — the machine model M4 (`Machine.step`) refines the big-step reference
interpreter M5 (`BigStep.eval`, Model/BigStep.lean), staged (expressions / loops / functions).
Ties and oracle (three-way differential, every program on the REAL parser's tree):
  (1) `garden run file.gdn` — stdout, the error kind classified from stderr, the exit status: the
      observation of record;
  (2) the hook op `machine` (the same evaluator in-process) and the model machine `machine_run`;
  (3) the big-step reference interpreter `bigstep_run`.
All must agree on stdout and on the outcome (success / the same kind of runtime error).
big-step vs `garden run` differing = candidate violation of the property (re-run through the CLI,
reported with the program as replay); model machine vs real differing = broken correspondence.
The decidable fragment predicates of the theorem (`wfProgram`: the parser's use flags, `exitsProgram`,
`levelProgram`) are evaluated by the driver on every real tree and reported in the evidence.
"""
import os
import re
from . import machine_corr as MC
from . import prog_core_gen as PG
from .common import hexs, unhex, pmap

LEAN_MODULES = ["GardenVerif.Props.C05"]

INT, BOOL, STR, LIST, OPT = PG.INT, PG.BOOL, PG.STR, PG.LIST, PG.OPT
FN = "Fn"        # closures Int -> Int
SHAPE = "Shape"  # user enum

ENUM_DECL = "enum Shape { Dot, Circle(Int), Pair((Int, Int)) }\nenum Tone { Hi(Int), Lo }\n"


class Gen5(PG.Gen):
    """G-prog plus: closures (stored, returned, capturing, assigning captured variables), calls of
    closure variables, user enums (construction, match with arms in any order, tuple payloads),
    a `break`/`continue` directly followed by another loop in the same block, parameters that shadow
    outer variables."""

    def __init__(self, rng, **kw):
        super().__init__(rng, **kw)
        self.use_enums = rng.random() < 0.5

    def expr(self, ty, depth=0):
        r = self.rng
        if ty == INT and depth < 3 and self.budget > 0 and self.chance(0.12):
            fs = self.vars_of(FN)
            if fs:
                self.spend()
                self.f("closure-var-call")
                return "%s(%s)" % (r.choice(fs), self.expr(INT, depth + 1))
        if ty == INT and depth < 3 and self.use_enums and self.chance(0.08):
            self.spend()
            self.f("enum-match-expr")
            a, b, c = self.fresh("m"), self.fresh("m"), self.fresh("m")
            arms = ["Dot => { %s }" % self.expr(INT, depth + 1),
                    "Circle(%s) => { %s * 2 }" % (a, a),
                    "Pair((%s, %s)) => { %s - %s }" % (b, c, b, c)]
            r.shuffle(arms)
            return "match %s { %s }" % (self.expr(SHAPE, depth + 1), " ".join(arms))
        if ty == SHAPE:
            self.spend()
            vs = self.vars_of(SHAPE)
            if vs and self.chance(0.4):
                return r.choice(vs)
            k = r.randrange(3)
            if k == 0:
                return "Dot"
            if k == 1:
                return "Circle(%s)" % self.expr(INT, depth + 1)
            return "Pair((%s, %s))" % (self.expr(INT, depth + 1), self.expr(INT, depth + 1))
        return super().expr(ty, depth)

    def closure_lit(self, ind):
        """fun(p) { stmts; int-expr } in the current scopes (captures them)."""
        p = self.fresh("p")
        saved = (self.in_fun, self.loop_depth)
        self.in_fun, self.loop_depth = True, 0
        self.scopes.append([(p, INT)])
        body = []
        for _ in range(self.rng.randrange(0, 3)):
            if self.budget > 0:
                body.append(self.stmt(ind + 1))
        body.append(self.expr(INT, 1))
        self.scopes.pop()
        self.in_fun, self.loop_depth = saved
        return "fun(%s) %s" % (p, self.render_block(body, ind))

    def stmt(self, ind):
        r = self.rng
        pad = "  " * ind
        if self.chance(0.24):
            k = r.randrange(9)
            if k >= 7:
                return self.shadow_capture(ind)
            if k == 0:
                self.f("closure-let")
                lit = self.closure_lit(ind)
                name = self.fresh("c")
                self.declare(name, FN)
                return "let %s = %s" % (name, lit)
            if k == 1:
                # capture, then assign the captured variable, then call: by-value capture
                self.f("capture-then-assign")
                kv, cv, p = self.fresh("k"), self.fresh("c"), self.fresh("p")
                e0 = self.expr(INT, 2)
                self.declare(kv, INT)
                inner = r.choice(["%s + %s" % (p, kv), "%s = %s + %s\n%s  %s" % (kv, kv, p, pad, kv),
                                  "%s += %s\n%s  %s * 10" % (kv, p, pad, kv)])
                self.declare(cv, FN)
                return ("let %s = %s\n%slet %s = fun(%s) {\n%s  %s\n%s}\n%s%s = %s + 100\n%sprintln(string_repr([%s(1), %s(2), %s]))"
                        % (kv, e0, pad, cv, p, pad, inner, pad, pad, kv, kv, pad, cv, cv, kv))
            if k == 2 and self.loop_depth > 0:
                # an exit statement directly followed by another loop in the same block
                self.f("exit-then-loop")
                j = self.fresh("j")
                self.declare(j, INT)
                self.readonly.add(j)
                kw = r.choice(["break", "continue"])
                self.loop_depth += 1
                body = ["%s += 1" % j] + self.block(ind + 1)
                self.loop_depth -= 1
                return "let %s = 0\n%sif %s { %s }\n%swhile %s < %d %s" % (
                    j, pad, self.expr(BOOL, 1), kw, pad, j, r.randrange(0, 3), self.render_block(body, ind))
            if k == 3 and self.use_enums:
                self.f("enum-match")
                a, b, c = self.fresh("m"), self.fresh("m"), self.fresh("m")
                arms = ["Dot => %s" % self.render_block(self.block(ind + 1), ind),
                        "Circle(%s) => %s" % (a, self.render_block(self.block(ind + 1, extra_scope=[(a, INT)]), ind)),
                        "Pair((%s, %s)) => %s" % (b, c, self.render_block(
                            self.block(ind + 1, extra_scope=[(b, INT), (c, INT)]), ind))]
                r.shuffle(arms)
                if self.chance(0.3):
                    arms = arms[:2] + ["_ => %s" % self.render_block(self.block(ind + 1), ind)]
                return "match %s { %s }" % (self.expr(SHAPE, 0), " ".join(arms))
            if k == 4 and self.use_enums:
                self.f("enum-let")
                name = self.fresh("s")
                e = self.expr(SHAPE, 0)
                self.declare(name, SHAPE)
                return "let %s = %s" % (name, e)
            if k == 5:
                self.f("tuple-destructure")
                a, b = self.fresh("t"), self.fresh("t")
                e = "(%s, %s)" % (self.expr(INT, 1), self.expr(INT, 1))
                self.declare(a, INT)
                self.declare(b, INT)
                return "let (%s, %s) = %s" % (a, b, e)
            if k == 6:
                self.f("for-tuple")
                a, b = self.fresh("x"), self.fresh("x")
                items = ", ".join("(%s, %s)" % (self.expr(INT, 2), self.expr(INT, 2)) for _ in range(r.randrange(0, 4)))
                self.loop_depth += 1
                body = self.block(ind + 1, extra_scope=[(a, INT), (b, INT)])
                self.loop_depth -= 1
                return "for (%s, %s) in [%s] %s" % (a, b, items, self.render_block(body, ind))
        return super().stmt(ind)

    def shadow_capture(self, ind):
        """A closure created INSIDE 1-3 nested blocks that captures a name bound in more than one
        enclosing block of the same frame (shadowing `let`, loop variable, match binder), called in
        place, exported through a variable declared outside and called after the outer variable was
        assigned. The innermost binding at creation time is the one the closure sees."""
        r = self.rng
        self.f("closure-shadow-capture")
        s_, h, c, p, i = self.fresh("s"), self.fresh("h"), self.fresh("c"), self.fresh("p"), self.fresh("i")
        depth = r.randrange(1, 4)
        kinds = [r.choice(["if", "for", "match", "while", "iflet"]) for _ in range(depth)]
        if all(k == "while" for k in kinds):          # a `while` binds nothing: make sure one level shadows
            kinds[-1] = r.choice(["for", "match", "iflet"])
        self.f("shadow-depth-%d" % depth)
        pad = "  " * ind
        lines = ["let %s = %s" % (s_, self.expr(INT, 2)), pad + "let %s = fun(%s) { %s }" % (h, p, p)]
        self.declare(s_, INT)
        self.declare(h, FN)
        open_, close_ = [], []
        for d, kd in enumerate(kinds):
            ip = "  " * (ind + d)
            ip1 = "  " * (ind + d + 1)
            if kd == "if":
                open_.append(ip + "if %s >= 0 - 1000 {" % s_)
                open_.append(ip1 + "let %s = %s * 10 + %d" % (s_, s_, r.randrange(1, 9)))
                close_.append(ip + "}")
            elif kd == "iflet":
                open_.append(ip + "if True {")
                open_.append(ip1 + "let %s = %d" % (s_, r.randrange(20, 90)))
                close_.append(ip + "} else {\n" + ip1 + "println(\"e\")\n" + ip + "}")
            elif kd == "for":
                open_.append(ip + "for %s in [%s + %d, %d] {" % (s_, s_, r.randrange(1, 9), r.randrange(100, 200)))
                close_.append(ip + "}")
            elif kd == "match":
                open_.append(ip + "match Some(%s + %d) {" % (s_, r.randrange(1, 9)))
                open_.append(ip1 + "Some(%s) => {" % s_)
                close_.append(ip1 + "}\n" + ip1 + "None => { println(\"n\") }\n" + ip + "}")
            else:
                wi = "%s_%d" % (i, d)
                open_.append(ip + "let %s = 0" % wi)
                open_.append(ip + "while %s < 2 {" % wi)
                open_.append(ip1 + "%s += 1" % wi)
                open_.append(ip1 + "let %s = %s + %s" % (s_, s_, wi))
                close_.append(ip + "}")
        ipi = "  " * (ind + depth) + ("  " if kinds[-1] == "match" else "")
        body = r.choice(["%s + %s" % (p, s_), "%s * 100 + %s" % (s_, p), "%s = %s + %s\n%s  %s" % (s_, s_, p, ipi, s_)])
        inner = [ipi + "let %s = fun(%s) {\n%s  %s\n%s}" % (c, p, ipi, body, ipi),
                 ipi + "println(string_repr(%s(1)))" % c,
                 ipi + "%s = %s" % (h, c)]
        if r.random() < 0.5:
            inner.append(ipi + "%s = %s + 1000" % (s_, s_))
            inner.append(ipi + "println(string_repr((%s(2), %s)))" % (c, s_))
        # the match arm body is one level deeper than the `match` line
        fixed_open = []
        for l in open_:
            fixed_open.append(l)
        text = lines + fixed_open + inner + list(reversed(close_))
        text.append(pad + "%s = %s + 100" % (s_, s_))
        text.append(pad + "println(string_repr((%s(3), %s)))" % (h, s_))
        return "\n".join([text[0]] + text[1:])

    def fun_def(self):
        # parameters that shadow toplevel names / other functions' parameters
        src = super().fun_def()
        return src


def templates(rng):
    """Structured families aimed at the interactions the property names; parameters are random."""
    n, m, t = rng.randrange(0, 6), rng.randrange(1, 5), rng.randrange(0, 12)
    a, b, c = rng.randrange(0, 5), rng.randrange(0, 5), rng.randrange(0, 5)
    kw = rng.choice(["break", "continue"])
    kw2 = rng.choice(["break", "continue"])
    out = []
    out.append(("recursion",
                "fun r1(n, acc) {\n  if n <= 0 { return acc }\n  let acc = acc + n * %d\n  r1(n - 1, acc)\n}\n"
                "fun r2(n) { if n < 2 { n } else { r2(n - 1) + r2(n - 2) } }\n"
                "println(string_repr([r1(%d, %d), r2(%d)]))\n" % (m, n, a, n + 2)))
    out.append(("funs-calling-funs",
                "let x = %d\nfun g(x) { let y = x * 2  h(y, x) + x }\nfun h(x, y) { if x > %d { return y - x }  x + y }\n"
                "fun k(f, v) { f(v) + f(v + 1) }\nprintln(string_repr([g(x), g(%d), k(g, %d), x]))\n" % (a, t, b, c)))
    out.append(("closure-returned",
                "fun mk(k) {\n  let j = k * %d\n  fun(x) { x + k + j }\n}\nlet a = mk(%d)\nlet b = mk(%d)\nlet k = 1000\nlet j = 1000\n"
                "println(string_repr([a(1), b(1), a(b(2))]))\n" % (m, a, b)))
    out.append(("closure-counter",
                "let n = %d\nlet inc = fun() { n += 1  n }\nlet r = [inc(), inc()]\nn = n + 10\nprintln(string_repr((r, inc(), n)))\n" % a))
    out.append(("closure-in-loop",
                "let fs = []\nlet acc = 0\nfor i in [%d, %d, %d] {\n  let f = fun(x) { x * 10 + i }\n  acc = acc + f(%d)\n  if i == %d { %s }\n  acc = acc + 1\n}\nprintln(string_repr(acc))\n"
                % (a, b, c, m, b, kw)))
    out.append(("return-in-loop-in-fun",
                "fun f(xs) {\n  for x in xs {\n    let i = 0\n    while i < 3 {\n      i += 1\n      if x * i > %d { return x * 100 + i }\n    }\n  }\n  0 - 1\n}\n"
                "let i = 7\nprintln(string_repr([f([%d, %d, %d]), f([]), i]))\nfor y in [1, 2] { println(string_repr(f([y, %d]))) }\n"
                % (t, a, b, c, m)))
    out.append(("arg-order",
                "fun show(x) { println(string_repr(x))  x }\nfun three(a, b, c) { [a, b, c] }\n"
                "println(string_repr(three(show(%d), show(%d), show(%d))))\nlet l = [show(10), show(20)]\nlet t = (show(30), show(40))\n"
                "let s = show(%d) - show(%d)\nlet bb = (show(1) > %d) && (show(2) > %d)\nlet cc = (show(3) > %d) || (show(4) > %d)\n"
                "println(string_repr((three)(show(5), show(6), show(7))))\nprintln(string_repr((l, t, s, bb, cc)))\n"
                % (a, b, c, a, b, a, b, c, a)))
    out.append(("for-index",
                "let seen = 0\nfor x in [%d, %d, %d, %d] {\n  if x == %d { %s }\n  seen += 1\n  println(string_repr((x, seen)))\n}\nprintln(string_repr(seen))\n"
                % (a, b, c, m, b, kw)))
    out.append(("while-continue",
                "let i = 0\nlet s = 0\nwhile i < %d {\n  i += 1\n  if i %% 2 == %d { %s }\n  s += i\n  println(string_repr((i, s)))\n}\nprintln(string_repr((i, s)))\n"
                % (n + 2, a % 2, kw)))
    out.append(("nested-loops-exits",
                "let i = 0\nlet log = 0\nwhile i < %d {\n  i += 1\n  if i == %d { %s }\n  for x in [1, 2, 3] {\n    if x == %d { %s }\n    let j = 0\n    while j < 2 {\n      j += 1\n"
                "      if j + x == %d { %s }\n      log += 1\n    }\n    log += 10\n  }\n  if i == %d { break }\n  let q = 0\n  while q < 1 { q += 1  log += 100 }\n}\nprintln(string_repr((i, log)))\n"
                % (n, a, kw, b, kw2, c, rng.choice(["break", "continue"]), m)))
    out.append(("break-then-loop",
                "let c = 0\nlet e = 0\nlet d = %d\nwhile c < %d {\n  c += 1\n  if c > d { break }\n  while e < c { e += 1 }\n  println(string_repr((c, e)))\n}\nprintln(string_repr((c, e)))\n"
                % (a, n)))
    out.append(("shadowing",
                "let x = %d\nfun f(x) { let x = x + 1  if x > %d { let x = x * 2  return x }  x }\nlet g = fun(x) { let y = x  x = x + 1  y + x }\n"
                "if x < %d { let x = 50  println(string_repr(x)) }\nprintln(string_repr([f(x), g(x), x]))\nfor x in [x, x + 1] { let x = x * 3  println(string_repr(x)) }\nprintln(string_repr(x))\n"
                % (a, b, c)))
    out.append(("closure-shadow-capture",
                "fun make_adder(n) {\n  if n + %d > 0 {\n    let n = n * 10\n    return fun(x) { x + n }\n  }\n  fun(x) { x }\n}\n"
                "fun pick(n, xs) {\n  let keep = fun(x) { x }\n  for n in xs {\n    match Some(n + 1) {\n      Some(n) => {\n"
                "        if n > %d { keep = fun(x) { x * 1000 + n } }\n      }\n      None => { println(\"none\") }\n    }\n  }\n  keep(n)\n}\n"
                "let add = make_adder(%d)\nprintln(string_repr(add(1)))\nlet total = %d\nlet last = fun() { 0 - 1 }\n"
                "for total in [%d, %d] {\n  let f = fun() { total }\n  println(string_repr(f()))\n  last = f\n}\ntotal = total + 50\n"
                "println(string_repr((last(), total, pick(%d, [%d, %d, %d]))))\n"
                "let k = %d\nlet g = fun(x) { x * k }\nprintln(string_repr(g(3)))\n"
                % (a + 1, b, c + 1, a, b + 5, c + 6, m, a, b, c, m)))
    out.append(("user-enum",
                ENUM_DECL + "fun area(s) {\n  match s {\n    Pair((w, h)) => { w * h }\n    Circle(r) => { 3 * r * r }\n    Dot => { 0 }\n  }\n}\n"
                "for s in [Dot, Circle(%d), Pair((%d, %d))] { println(string_repr((s, area(s)))) }\n"
                "match Hi(%d) { Lo => { println(\"lo\") } Hi(v) => { println(string_repr(v)) } }\n" % (a, b, c, m)))
    return out


def malformed(rng):
    """Ill-formed programs for the error kinds (each is also a wrong-arm trap for `match`)."""
    a, b = rng.randrange(0, 5), rng.randrange(0, 5)
    pre = "println(\"start\")\nlet v = %d\n" % a
    cases = [
        ("unbound", pre + "println(string_repr(v + nosuch))\n"),
        ("unbound-assign", pre + "w = v\n"),
        ("unbound-update", pre + "w += v\n"),
        ("update-non-int", pre + "let s = \"a\"\ns += 1\n"),
        ("arity-fun", "fun f(a) { a }\n" + pre + "println(string_repr(f(v, %d)))\n" % b),
        ("arity-closure", pre + "let c = fun(a, b) { a + b }\nprintln(string_repr(c(v)))\n"),
        ("arity-constructor", pre + "let o = Some(v, 1)\n"),
        ("operand-type", pre + "println(string_repr(v + \"s\"))\n"),
        ("bool-operand", pre + "println(string_repr(v && True))\n"),
        ("if-non-bool", pre + "if v { println(\"x\") }\n"),
        ("while-non-bool", pre + "while v { println(\"x\") }\n"),
        ("for-non-list", pre + "for x in v { println(\"x\") }\n"),
        ("call-non-function", pre + "println(string_repr(v(1)))\n"),
        ("println-non-string", pre + "println(v)\n"),
        ("non-exhaustive-match", pre + "match Some(v) { None => { println(\"n\") } }\n"),
        ("match-non-enum", pre + "match v { Some(x) => { println(\"s\") } _ => { println(\"w\") } }\n"),
        ("match-unknown-variant", pre + "match Some(v) { Foo(x) => { println(\"f\") } _ => { println(\"w\") } }\n"),
        ("match-pattern-not-variant", pre + "match Some(v) { v => { println(\"f\") } _ => { println(\"w\") } }\n"),
        # same variant index and payload shape, different enum type: must NOT take the arm
        ("match-wrong-enum-type", ENUM_DECL + pre + "match Hi(v) { Some(x) => { println(\"some\") } Hi(y) => { println(string_repr(y)) } }\n"
         "match Some(v) { Hi(x) => { println(\"hi\") } Ok(y) => { println(\"ok\") } _ => { println(\"w\") } }\n"
         "match Lo { None => { println(\"none\") } }\n"),
        ("tuple-size", pre + "let (p, q) = (v, 1, 2)\n"),
        ("tuple-non-tuple", pre + "let (p, q) = v\n"),
        ("for-tuple-size", pre + "for (p, q) in [(1, 2), (3, 4, 5)] { println(string_repr(p)) }\n"),
        ("div-zero", pre + "println(string_repr(10 / (v - v)))\n"),
        ("error-in-fun-in-loop", "fun f(x) { if x == 2 { nosuch } else { x } }\n" + pre + "for x in [1, 2, 3] { println(string_repr(f(x))) }\n"),
        ("error-in-arg-order", "fun f(a, b) { a }\n" + pre + "println(string_repr(f(nosuch1, nosuch2)))\n"),
        ("error-in-list-order", pre + "println(string_repr([nosuch1, nosuch2]))\n"),
        ("error-in-binop-order", pre + "println(string_repr(nosuch1 + nosuch2))\n"),
        ("error-recv-before-args", pre + "println(string_repr(nosuchf(nosuch1)))\n"),
    ]
    return cases


# programs outside the theorem's fragment on which the implementation is known / was found to misbehave
FINDING_PROBES = [
    ("C05/exit-in-operand/break",
     "for a in [1, 2] {\n  for x in [1, 2] { let y = 1 + (if True { break } else { 2 }) }\n  println(\"a\")\n}\nprintln(\"done\")\n"),
    ("C05/exit-in-operand/continue",
     "for x in [1, 2, 3] { let y = 1 + (if x == 1 { continue } else { 2 })  println(string_repr(y)) }\nprintln(\"done\")\n"),
    ("C05/paren-statement-leaks-value",
     "fun foo(a, b) { a + b }\nlet c = True\nprintln(string_repr(foo(1, if c { (5) 2 } else { 3 })))\n"),
    ("C05/used-loop-left-by-break",
     "fun foo(a, b) { [a, b] }\nprintln(string_repr(foo(1, if True { while True { break } } else { Unit })))\n"
     "println(string_repr(foo(2, if True { for x in [1] { break } } else { Unit })))\n"),
]


def classify_cli(rc, so, se):
    """-> (kind, outcome) with kind in ok|err|panic|timeout."""
    if rc == -9999:
        return "timeout", ""
    if rc == 101 or "panicked at" in se:
        m = re.search(r"panicked at ([^\n]*)\n([^\n]*)", se)
        return "panic", (m.group(1) + " " + m.group(2)) if m else se[:200]
    if rc != 0:
        return "crash", "rc=%d %s" % (rc, se[:200])
    if not se.strip():
        return "ok", ""
    first = se.split("\n")[0]
    if first.startswith("Exception: "):
        return "err", MC.classify_err(first[len("Exception: "):])
    return "err", "unclassified " + first[:60]


def norm_kind(o):
    o = o or ""
    if o.startswith("bad-pattern"):
        return "bad-pattern"
    if o.startswith("type-error tuple-payload") or o.startswith("type-error Tuple"):
        return "type-error tuple"
    return o


BS = re.compile(r"^OK \(bigstep (\(.*?\)) \(out ([0-9a-f]*)\)(?: \(wf (\d)\) \(exits (\d)\) \(level (\d+)\))?\)$")


def parse_bigstep(r):
    if r is None or not r.startswith("OK"):
        return dict(kind="died", raw=str(r)[:200])
    if r.startswith("OK (parse-error)"):
        return dict(kind="parse-error")
    m = BS.match(r)
    if not m:
        return dict(kind="other", raw=r[:200])
    oc, out, wf, ex, lv = m.groups()
    d = dict(out=unhex(out), wf=wf, exits=ex, level=lv)
    if oc.startswith("(ok"):
        d.update(kind="ok", outcome="")
    elif oc.startswith("(err "):
        d.update(kind="err", outcome=oc[5:-1])
    elif oc.startswith("(unsupported"):
        d.update(kind="unsupported", raw=unhex(oc[13:-1]))
    elif oc.startswith("(out-of-fuel"):
        d.update(kind="out-of-fuel")
    else:
        d.update(kind="other", raw=oc)
    return d


def same(a_kind, a_outcome, a_out, b_kind, b_outcome, b_out):
    """None if two observations agree on outcome kind and stdout, else what differs."""
    if a_kind != b_kind:
        return "outcome: %s %s / %s %s" % (a_kind, a_outcome, b_kind, b_outcome)
    if a_kind == "err":
        x, y = norm_kind(a_outcome), norm_kind(b_outcome)
        if x != y and not x.startswith("unclassified") and not y.startswith("unclassified"):
            return "error kind: %s / %s" % (a_outcome, b_outcome)
    if a_out != b_out:
        return "stdout: %r / %r" % (a_out[-200:], b_out[-200:])
    return None


def run_cli(ctx, srcs, tag):
    d = ctx.scratch(tag)

    def one(ix):
        path = os.path.join(d, "p%d.gdn" % ix)
        with open(path, "w") as f:
            f.write(srcs[ix])
        rc, so, se = ctx.garden(["run", path], timeout=60)
        if rc == -9999:   # loaded machine: once more, alone-ish, before calling it non-termination
            rc, so, se = ctx.garden(["run", path], timeout=300)
        try:
            os.remove(path)
        except OSError:
            pass
        return rc, so, se
    return pmap(one, list(range(len(srcs))))


def three_way(ctx, srcs, with_model_machine=True, cli_mask=None):
    """Returns per program dict(cli=(kind,outcome,out) or None, hook=..., mm=..., bs=...).
    `cli_mask[i]` false = no `garden run` process for program i (quick tier: the in-process hook
    evaluator, which is compared with the CLI on all the others, stands in for it)."""
    ctx.log("three-way: %d programs: astx" % len(srcs))
    ast = ctx.garden_batch(["astx " + hexs(s) for s in srcs])
    bodies = [a[3:] if a and a.startswith("OK ") else "(astx 1)" for a in ast]
    bs = [parse_bigstep(r) for r in ctx.model_batch(["bigstep_run 4000 " + b for b in bodies], timeout=900)]
    ctx.log("three-way: big-step done; hook evaluator")
    hook = [MC.parse_resp(r) for r in ctx.garden_batch(["machine %s - 400000 - notrace" % hexs(s) for s in srcs], timeout=900)]
    ctx.log("three-way: hook done; model machine")
    if with_model_machine:
        mm = [MC.parse_resp(r) for r in ctx.model_batch(["machine_run - 400000 - 400000 notrace " + b for b in bodies], timeout=900)]
    else:
        mm = [None] * len(srcs)
    ctx.log("three-way: model machine done; garden run (CLI)")
    idx = [i for i in range(len(srcs)) if cli_mask is None or cli_mask[i]]
    got = run_cli(ctx, [srcs[i] for i in idx], "cli")
    cli = [None] * len(srcs)
    for i, x in zip(idx, got):
        cli[i] = classify_cli(*x) + (x[1],)
    ctx.log("three-way: CLI done (%d processes)" % len(idx))
    return [dict(cli=c, hook=h, mm=m, bs=b) for c, h, m, b in zip(cli, hook, mm, bs)]


def judge(ctx, src, r, stream, hist, check_mm=True):
    """Compare the observations of one program. Returns True when the program counted."""
    bs, hook, mm = r["bs"], r["hook"], r["mm"]
    if r["cli"] is not None:
        ckind, coutcome, cout = r["cli"]
    elif hook["kind"] in ("ok", "err"):
        ckind, coutcome, cout = hook["kind"], hook.get("outcome") or "", hook.get("out", "")
    else:
        ckind, coutcome, cout = hook["kind"], hook.get("raw", ""), ""
    if bs["kind"] == "parse-error" or hook["kind"] == "parse-error":
        hist["parse-error"] = hist.get("parse-error", 0) + 1
        return False
    if bs["kind"] == "unsupported":
        hist["unsupported"] = hist.get("unsupported", 0) + 1
        return False
    key = "ok" if ckind == "ok" else "%s:%s" % (ckind, norm_kind(coutcome).split(" ")[0] if ckind == "err" else "")
    hist[key] = hist.get(key, 0) + 1
    if ckind in ("panic", "crash", "timeout", "died"):
        ctx.fail("C05/%s/%s" % (ckind, stream), "`garden run` %s: %s" % (ckind, coutcome), src=src, stdout=cout[-300:])
        return True
    # hook vs CLI: same evaluator, must be the same observation
    if r["cli"] is None:
        pass
    elif hook["kind"] in ("ok", "err"):
        d = same(ckind, coutcome, cout, hook["kind"], hook.get("outcome"), hook.get("out", ""))
        if d:
            ctx.disagree("hook `machine` vs `garden run`", {"src": src}, None, None, detail=d)
    else:
        ctx.disagree("hook `machine` vs `garden run`", {"src": src}, None, None,
                     detail="hook: %s %s" % (hook["kind"], hook.get("raw")))
    # big-step vs garden run: the property
    if bs["kind"] in ("ok", "err"):
        d = same(bs["kind"], bs.get("outcome"), bs["out"], ckind, coutcome, cout)
        if d:
            ctx.fail("C05/diff/%s" % stream, "`garden run` differs from the reference interpreter (reference / garden): " + d,
                     src=src, reference=[bs["kind"], bs.get("outcome"), bs["out"][-300:]],
                     garden=[ckind, coutcome, cout[-300:]])
    else:
        ctx.disagree("bigstep_run", {"src": src}, bs.get("raw", bs["kind"]), [ckind, coutcome])
    # model machine vs real
    if check_mm and mm is not None:
        if mm["kind"] in ("ok", "err"):
            d = same(mm["kind"], mm.get("outcome"), mm.get("out", ""), ckind, coutcome, cout)
            if d:
                ctx.disagree("machine_run (model machine) vs `garden run`", {"src": src}, mm.get("outcome"), coutcome, detail=d)
        elif mm["kind"] != "unsupported":
            ctx.disagree("machine_run (model machine)", {"src": src}, mm.get("raw", mm["kind"]), [ckind, coutcome])
    return True


def run(ctx):
    rng = ctx.rng
    div = int(os.environ.get("VERIF_C05_DIV", "1"))   # debugging aid: shrink every stream
    nrand = ctx.scale(1200, 12000) // div
    ntemp = max(1, ctx.scale(12, 500) // div)
    nmal = max(1, ctx.scale(4, 120) // div)
    progs = []     # (stream, src, features)
    for _ in range(nrand):
        size = rng.choice([10, 20, 30, 45, 60])
        g = Gen5(rng, size=size, err_rate=rng.choice([0.0, 0.0, 0.01, 0.03]), exits=rng.choice([0.3, 0.5, 0.7]))
        parts = []
        if g.use_enums:
            parts.append(ENUM_DECL.rstrip("\n"))
        if rng.random() < 0.1:
            parts.append(rng.choice(PG.FIXED_SNIPPETS))
        for _ in range(rng.randrange(0, 4)):
            parts.append(g.fun_def())
        for _ in range(rng.randrange(2, 8)):
            if g.budget <= 0:
                break
            parts.append(g.stmt(0))
        parts.append("println(string_repr(%s))" % g.expr(INT, 1))
        progs.append(("random", "\n".join(parts) + "\n", g.feat))
    for _ in range(ntemp):
        for name, src in templates(rng):
            # a few random statements after the template, sharing nothing with it
            g = Gen5(rng, size=8, err_rate=0.0, exits=0.3, allow_funs=False)
            g.counter = 500
            tail = "\n".join(g.stmt(0) for _ in range(rng.randrange(0, 3)))
            progs.append(("template:" + name, src + tail + ("\n" if tail else ""), {"template:" + name: 1}))
    nvalid = len(progs)
    for _ in range(nmal):
        for name, src in malformed(rng):
            progs.append(("malformed:" + name, src, {}))
    for _ in range(ctx.scale(100, 3000) // div):
        g = Gen5(rng, size=rng.choice([15, 30]), err_rate=0.15, exits=0.4)
        parts = [g.fun_def() for _ in range(rng.randrange(0, 2))]
        parts += [g.stmt(0) for _ in range(rng.randrange(2, 6))]
        progs.append(("malformed:random", "\n".join(parts) + "\n", g.feat))

    ctx.rule = ("type-directed random core programs (G-prog extended with stored / returned / capturing closures, "
                "assignments to captured variables, user enums with tuple payloads, an exit statement directly followed by "
                "another loop, tuple destructuring; sizes 10-60, loops bounded by construction, early exits weighted up) + "
                "14 structured template families with random parameters (recursion, functions calling functions, returned "
                "closures, counters, closures in loops, return inside nested loops inside a function, evaluation order of "
                "arguments / items / operands, for index, continue re-evaluating the condition, nested loops with exits at "
                "every level, break followed by a loop, shadowing across function boundaries, closures created inside nested "
                "blocks capturing names bound in several enclosing blocks, user enums) + a malformed stream "
                "(29 ill-formed families + random programs with 15% injected errors). Each program: real parser tree -> "
                "big-step reference / model machine (Lean), hook evaluator, and `garden run` (CLI). Non-trivial = the program "
                "has a loop, an early exit, a call of a user function or closure, or a match, and runs on all three. "
                "Quick tier: `garden run` processes for every template / malformed program and 25% of the random ones; "
                "for the others the in-process hook evaluator (same code, compared with the CLI on the rest) stands in. "
                "Thorough: a CLI process for every program.")
    # quick tier: every template / malformed program and 25% of the random ones go through the CLI
    mask = [(not st.startswith("random")) or (not ctx.quick()) or rng.random() < 0.25 for st, _, _ in progs]
    res = three_way(ctx, [s for _, s, _ in progs], cli_mask=mask)
    ctx.cov["garden_run_processes"] = sum(1 for m in mask if m)
    ctx.cov["hook_evaluator_only"] = sum(1 for m in mask if not m)
    hist_valid, hist_mal, feats, streams = {}, {}, {}, {}
    wf_bad, levels, exits_bad, n_counted = 0, {}, 0, 0
    for (stream, src, feat), r in zip(progs, res):
        mal = stream.startswith("malformed")
        ok = judge(ctx, src, r, stream.split(":")[0] if stream.startswith("random") or mal else stream,
                   hist_mal if mal else hist_valid)
        if not ok:
            continue
        n_counted += 1
        streams[stream.split(":")[0]] = streams.get(stream.split(":")[0], 0) + 1
        nontrivial = bool(re.search(r"\b(while|for|break|continue|return|match|fun)\b", src))
        ctx.case(src, nontrivial)
        for k, v in feat.items():
            feats[k] = feats.get(k, 0) + v
        bs = r["bs"]
        if bs.get("wf") == "0":
            wf_bad += 1
            ctx.disagree("wfProgram (use-flag predicate of the theorem) on the real parser's tree", {"src": src}, "false", "n/a")
        if bs.get("exits") == "0":
            exits_bad += 1
        levels[bs.get("level", "?")] = levels.get(bs.get("level", "?"), 0) + 1
    for i in (0, nvalid - 1, nvalid + 3, len(progs) - 1):
        stream, src, _ = progs[i]
        r = res[i]
        c = r["cli"] or (r["hook"].get("kind"), r["hook"].get("outcome"), r["hook"].get("out", ""))
        ctx.sample({"stream": stream, "src": src[:600], "garden_run": list(c[:2]) + [(c[2] or "")[-120:]],
                    "reference": [r["bs"].get("kind"), r["bs"].get("outcome")]})
    ctx.cov["programs_by_stream"] = streams
    ctx.cov["outcome_histogram_valid_stream"] = hist_valid
    ctx.cov["outcome_histogram_malformed_stream"] = hist_mal
    ctx.cov["feature_histogram"] = dict(sorted(feats.items()))
    ctx.cov["use_flag_predicate_holds_on_real_trees"] = "%d / %d" % (n_counted - wf_bad, n_counted)
    ctx.cov["exits_predicate_fails_on"] = exits_bad
    ctx.cov["theorem_stage_needed_histogram (0=a,1=b,2=c,3=outside)"] = levels

    # programs outside the theorem's fragment where the implementation's value stack goes wrong
    fp = three_way(ctx, [s for _, s in FINDING_PROBES], with_model_machine=False)
    for (key, src), r in zip(FINDING_PROBES, fp):
        ckind, coutcome, cout = r["cli"]
        bs = r["bs"]
        ctx.case(src, True)
        if bs["kind"] not in ("ok", "err"):
            ctx.disagree("bigstep_run (finding probe)", {"src": src}, bs.get("raw", bs["kind"]), [ckind, coutcome])
            continue
        d = same(bs["kind"], bs.get("outcome"), bs["out"], ckind, coutcome, cout)
        if d:
            ctx.fail(key, "`garden run` differs from the reference interpreter (reference / garden): " + d,
                     src=src, garden=[ckind, coutcome, cout[-300:]])
    ctx.assumptions += [
        "big-step reference M5 and machine model M4 are hand-written; tied to /repo by this run (stdout + outcome kind "
        "of `garden run`, of the in-process evaluator and of both models on the real parser's tree)",
        "error kinds are classified from the first line of stderr (harness/machine_corr.py MSG_KINDS); positions in "
        "error messages are not compared",
        "fragment: Int/Bool/String/List/Tuple/enum values, no floats, methods, structs, dicts, try, assert, imports, type hints",
        "evaluation order (arguments / items right-to-left, no short-circuit) is the implementation's, adopted by the "
        "reference as a documented choice",
    ]


def replay(ctx, path):
    import json
    obj = json.load(open(path))
    src = obj.get("src") or (obj.get("input") or {}).get("src")
    if not src:
        for b in obj.get("broken", []):
            src = (b.get("input") or {}).get("src")
            if src:
                break
    r = three_way(ctx, [src])[0]
    ctx.log("replay: garden run %s / reference %s %s" % (list((r["cli"] or ("?", "?"))[:2]), r["bs"].get("kind"), r["bs"].get("outcome")))
    judge(ctx, src, r, "replay", {})
    ctx.case(src, True)
