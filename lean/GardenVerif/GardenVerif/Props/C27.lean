import GardenVerif.Lemmas.EvalUpTo
/-!
# C27 — Eval-up-to reports the value the expression takes when run (PARTIAL by design)

The statements are about `stepWith d` for ANY dispatch function `d`, hence about `Machine.step`
(`Lemmas.stepWith_dispatch`) and about `TestRunner.tstep` (test bodies with `assert`), for programs
of any size and runs of any length.

Proved:
* `stop_is_prefix_step` / `stop_is_prefix`: up to the first completion of the observed node the
  run with `stopAt = some id` is STEP FOR STEP the run with `stopAt = none` of the same (marked)
  program: same states except for the `stopAt` field, same errors, same panics.
* `stop_at_first_completion`: when eval-up-to returns a value, it does so at the FIRST step of
  that common run at which the observed node completes (`EvalUpTo.fires`: a tick on that node
  with `doneSub`, or a `for` loop entering its body, or the return of the frame the observed call
  created), and the value is the top of the value stack there (the frame's result for a call);
  or the node is never completed and the value is the one the whole evaluation ends with.
* `error_only_before_completion`: eval-up-to reports an error only if the run without the
  request fails with the same error at the same step, before the node completes.

`mark_used_preserves` (DESIGN §7 C27) is proved only LOCALLY, for the observed node's own steps
(`…_partial` theorems below), for node kinds `EvalUpTo.Simple` (literals, variables, closures, operators,
`let`, assignment, update, list and tuple literals — the kinds for which `set_observed_expr_value_used`
changes one flag and nothing below it):
* `mark_used_pending_partial`: before its completion the marked node does what the unmarked node
  does, except that its own pending entries carry the flag (`unflagD`);
* `mark_used_completion_partial`: at its completion the marked node leaves exactly the frame the
  unmarked node leaves plus ONE extra value on top; errors and panics are the same;
* `marked_stop_reports_pushed_value_partial`: that extra value is what eval-up-to reports (`fires`).
MISSING for the full statement: (1) that the steps BETWEEN the node's own steps are unaffected by the
flag carried by the node's pending entry — every dispatch arm only pushes on the entry stack, except
`break` / `continue` / `return`, which scan or clear it (`break` reads a loop's flag) — i.e. a
simulation through every arm of `dispatch`; (2) `if` / `match` (the flags of the branch results are
recomputed), loops (the value is pushed one step before completion), calls (the flag travels into
the callee frame as `callerUses`), `return` / `break` / `continue`. For these the property rests on
the direct oracle (eval-up-to vs the instrumented run of the UNMARKED program, harness/c27.py) and on
the flag-by-flag / tick-by-tick correspondence of `EvalUpTo.markUsed` with the real tool.
-/

set_option linter.unusedVariables false
namespace C27
open Machine TestRunner EvalUpTo

/-- `k` steps that all continue. -/
def contSteps (d : Program → Frame → St → Expr → Disp) : Nat → State → Option State
  | 0, s => some s
  | k + 1, s =>
    match stepWith d s with
    | .cont s' => contSteps d k s'
    | _ => none

/-- A step that continues is not a completion of the observed node. -/
theorem cont_no_completion (d : Program → Frame → St → Expr → Disp) (s s' : State)
    (h : stepWith d s = .cont s') : fires d s = none := by
  cases hf : fires d s with
  | none => rfl
  | some v =>
    obtain ⟨s1, h1, _⟩ := step_fires d s v hf
    rw [h] at h1; cases h1

/-- One step: unless the observed node completes at this step, the run that was asked to stop
does exactly what the run that was not asked does. -/
theorem stop_is_prefix_step (d : Program → Frame → St → Expr → Disp) (s : State) (h : fires d s = none) :
    mapState clr (stepWith d s) = stepWith d (clr s) := step_free d s h

/-- One step: if the observed node completes at this step, eval-up-to returns its value here,
and the other run simply continues. -/
theorem stop_at_completion_step (d : Program → Frame → St → Expr → Disp) (s : State) (v : Value)
    (h : fires d s = some v) :
    ∃ s', stepWith d s = .done s' v ∧ ∃ s'', stepWith d (clr s) = .cont s'' := step_fires d s v h

/-- **Prefix**: every continuing prefix of the stop-run is, state by state, a prefix of the
run without the request. -/
theorem stop_is_prefix (d : Program → Frame → St → Expr → Disp) :
    ∀ (k : Nat) (s sk : State), contSteps d k s = some sk → contSteps d k (clr s) = some (clr sk)
  | 0, s, sk, h => by simp [contSteps] at h ⊢; rw [h]
  | k + 1, s, sk, h => by
    unfold contSteps at h ⊢
    cases hs : stepWith d s with
    | cont s' =>
      rw [hs] at h
      have hfree := step_free d s (cont_no_completion d s s' hs)
      rw [hs] at hfree
      simp only [mapState] at hfree
      rw [← hfree]
      exact stop_is_prefix d k s' sk h
    | done _ _ => rw [hs] at h; cases h
    | error _ _ => rw [hs] at h; cases h
    | panic _ => rw [hs] at h; cases h
    | unsupported _ => rw [hs] at h; cases h

/-- No step of a continuing prefix is a completion of the observed node. -/
theorem no_completion_before (d : Program → Frame → St → Expr → Disp) :
    ∀ (k : Nat) (s sk : State), contSteps d k s = some sk →
    ∀ j sj, j < k → contSteps d j s = some sj → fires d sj = none
  | 0, s, sk, h, j, sj, hj, _ => by omega
  | k + 1, s, sk, h, j, sj, hj, hsj => by
    unfold contSteps at h
    cases hs : stepWith d s with
    | cont s' =>
      rw [hs] at h
      cases j with
      | zero => simp [contSteps] at hsj; subst hsj; exact cont_no_completion d s s' hs
      | succ j' =>
        unfold contSteps at hsj
        rw [hs] at hsj
        exact no_completion_before d k s' sk h j' sj (by omega) hsj
    | done _ _ => rw [hs] at h; cases h
    | error _ _ => rw [hs] at h; cases h
    | panic _ => rw [hs] at h; cases h
    | unsupported _ => rw [hs] at h; cases h

/-- A finished fuel-bounded run is a continuing prefix followed by one final step. -/
theorem run_decompose (d : Program → Frame → St → Expr → Disp) :
    ∀ (n : Nat) (s : State),
    match runWith d n s with
    | .done s' v => ∃ k sk, k < n ∧ contSteps d k s = some sk ∧ stepWith d sk = .done s' v
    | .error s' e => ∃ k sk, k < n ∧ contSteps d k s = some sk ∧ stepWith d sk = .error s' e
    | _ => True
  | 0, s => by simp [runWith]
  | n + 1, s => by
    unfold runWith
    cases hs : stepWith d s with
    | cont s' =>
      have ih := run_decompose d n s'
      simp only []
      cases hr : runWith d n s' with
      | done s2 v =>
        rw [hr] at ih
        obtain ⟨k, sk, hk, hc, hd⟩ := ih
        exact ⟨k + 1, sk, by omega, by simp [contSteps, hs, hc], hd⟩
      | error s2 e =>
        rw [hr] at ih
        obtain ⟨k, sk, hk, hc, hd⟩ := ih
        exact ⟨k + 1, sk, by omega, by simp [contSteps, hs, hc], hd⟩
      | panic _ => trivial
      | unsupported _ => trivial
      | outOfFuel _ => trivial
    | done s' v => exact ⟨0, s, by omega, rfl, hs⟩
    | error s' e => exact ⟨0, s, by omega, rfl, hs⟩
    | panic _ => trivial
    | unsupported _ => trivial

/-- **Eval-up-to stops at the first completion.** If the run with the request returns `v`, then
after some number `k` of steps that both runs share (same states up to `stopAt`), none of which
completes the observed node, either the node completes at step `k` and `v` is its value there
(`fires`), or the evaluation as a whole ends at step `k` with `v` in both runs. -/
theorem stop_at_first_completion (d : Program → Frame → St → Expr → Disp) (n : Nat) (s s' : State) (v : Value)
    (h : runWith d n s = .done s' v) :
    ∃ k sk, contSteps d k s = some sk ∧ contSteps d k (clr s) = some (clr sk) ∧
      (∀ j sj, j < k → contSteps d j s = some sj → fires d sj = none) ∧
      (fires d sk = some v ∨ (fires d sk = none ∧ stepWith d (clr sk) = .done (clr s') v)) := by
  have hdec := run_decompose d n s
  rw [h] at hdec
  obtain ⟨k, sk, _, hc, hd⟩ := hdec
  refine ⟨k, sk, hc, stop_is_prefix d k s sk hc, no_completion_before d k s sk hc, ?_⟩
  cases hf : fires d sk with
  | some w =>
    obtain ⟨s1, h1, _⟩ := step_fires d sk w hf
    rw [hd] at h1
    cases h1
    exact Or.inl rfl
  | none =>
    have hfree := step_free d sk hf
    rw [hd] at hfree
    exact Or.inr ⟨rfl, hfree.symm⟩

/-- **Errors are genuine.** If the run with the request ends in an error, the run without the
request fails with the same error at the same step, and the observed node has not completed. -/
theorem error_only_before_completion (d : Program → Frame → St → Expr → Disp) (n : Nat) (s s' : State) (e : Err)
    (h : runWith d n s = .error s' e) :
    ∃ k sk, contSteps d k (clr s) = some (clr sk) ∧ stepWith d (clr sk) = .error (clr s') e ∧
      (∀ j sj, j ≤ k → contSteps d j s = some sj → fires d sj = none) := by
  have hdec := run_decompose d n s
  rw [h] at hdec
  obtain ⟨k, sk, _, hc, hd⟩ := hdec
  have hnf : fires d sk = none := by
    cases hf : fires d sk with
    | none => rfl
    | some w =>
      obtain ⟨s1, h1, _⟩ := step_fires d sk w hf
      rw [hd] at h1; cases h1
  have hfree := step_free d sk hnf
  rw [hd] at hfree
  refine ⟨k, sk, stop_is_prefix d k s sk hc, hfree.symm, ?_⟩
  intro j sj hj hsj
  by_cases hjk : j < k
  · exact no_completion_before d k s sk hc j sj hjk hsj
  · have : j = k := by omega
    subst this
    rw [hc] at hsj; cases hsj; exact hnf

/-- **Marking, before completion** (partial: the node's own steps only). A step of the marked
node that does not complete it does what the unmarked node's step does; only the node's own pending
entries differ, by the flag. -/
theorem mark_used_pending_partial (p : Program) (f : Frame) (st : St) (e : Expr)
    (hs : Simple e = true) (hd : doneSub st e = false) :
    unflagD e.id (dispatch p f st (withUsed true e)) = unflagD e.id (dispatch p f st e) :=
  simple_noncompleting p f st e hs hd

/-- **Marking, at completion** (partial: the node's own steps only). The completing step of the
marked node leaves the frame the unmarked node leaves, plus exactly one extra value; it fails
(errors, panics) exactly when the unmarked node fails, in the same way. -/
theorem mark_used_completion_partial (p : Program) (f : Frame) (st : St) (e : Expr)
    (hs : Simple e = true) (hu : e.used = false) (hd : doneSub st e = true) :
    ExtraPush (dispatch p f st e) (dispatch p f st (withUsed true e)) :=
  simple_completion p f st e hs hu hd

/-- **The reported value is the value the marking makes the node push.** If the step of the
unmarked statement-position node succeeds leaving frame `f1`, the marked node leaves `f1` plus one
value `v`, the stop test fires at this step, and `v` is what eval-up-to returns. -/
theorem marked_stop_reports_pushed_value_partial (s : State) (f : Frame) (callers : List Frame) (st : St)
    (e : Expr) (rest : List (St × Expr)) (f1 : Frame)
    (hfr : s.frames = f :: callers) (hex : f.exprs = (st, withUsed true e) :: rest)
    (hq : (s.interrupted || s.interruptAt.contains (s.ticks + 1)) = false)
    (hl : limitReached s.tickLimit (s.ticks + 1) = false)
    (hsl : limitExceeded s.stackLimit s.frames.length = false)
    (hstop : s.stopAt = some e.id)
    (hs : Simple e = true) (hu : e.used = false) (hd : doneSub st e = true)
    (hplain : dispatch s.prog { f with exprs := rest } st e = .ok f1) :
    ∃ v, dispatch s.prog { f with exprs := rest } st (withUsed true e) = .ok (f1.pushV v) ∧
      fires dispatch s = some v ∧ ∃ s', stepWith dispatch s = .done s' v := by
  obtain ⟨v, h1, h2⟩ := marked_stop_reports s f callers st e rest f1 hfr hex hq hl hsl hstop hs hu hd hplain
  obtain ⟨s', h3, _⟩ := step_fires dispatch s v h2
  exact ⟨v, h1, h2, s', h3⟩

/-- The hypotheses are satisfiable: the statement `1 + 2` (value unused) in state E. -/
example : Simple (.binop 3 false .add (.int 1 true 1) (.int 2 true 2)) = true ∧
    doneSub .E (.binop 3 false .add (.int 1 true 1) (.int 2 true 2)) = true := ⟨rfl, rfl⟩

/-- The statements apply to the evaluator model itself. -/
theorem applies_to_machine_step (s : State) : stepWith dispatch s = step s := stepWith_dispatch s

/-- A concrete completion: the literal `5` with id 1, observed, in a test-like frame. -/
example : fires dispatch
    { prog := ⟨[], [], []⟩, frames := [initFrame [.int 1 true 5]], ticks := 0, out := "", interrupted := false,
      tickLimit := none, stackLimit := none, interruptAt := [], stopAt := some 1 } = some (.int 5) := by rfl

end C27
