"""C04 — Integer and float operators follow the documented arithmetic.

Proof: GardenVerif.Props.C04 over Model/IntOps.lean (`eval_int_binop`, `eval_float_binop`,
`eval_assign_update` of the tree with patches/arith-fix-int-div-overflow.diff and
patches/arith-fix-assign-update-wrap.diff).
Tie: `garden run -c` on operator/operand cases against the Lean driver's `arith` op.
Direct oracle (no model): Python big-integer reference arithmetic (wrap, truncated division,
Euclidean remainder, exact power, integer order) and Python IEEE doubles for the float
operators; a process exit status 101 / signal is a crash and always a violation.
"""
import math
import re
import struct

from . import common

LEAN_MODULES = ["GardenVerif.Props.C04"]

MIN, MAX = -2 ** 63, 2 ** 63 - 1
INT_OPS = ["+", "-", "*", "/", "%", "**", "&", "|", "<", ">", "<=", ">="]
UPD_OPS = ["+=", "-="]
FLOAT_OPS = ["+.", "-.", "*.", "/."]

BOUNDARY = sorted(set([
    0, 1, -1, 2, -2, 3, -3, 7, -7, 10, 62, 63, 64, 65, -64,
    MIN, MIN + 1, MAX, MAX - 1,
    2 ** 31, -2 ** 31, 2 ** 31 - 1, 2 ** 32, -2 ** 32, 2 ** 32 - 1, 2 ** 32 + 1,
    2 ** 62, -2 ** 62, 2 ** 62 - 1, 3037000499, 3037000500, -3037000500,
    2 ** 63 // 3, -(2 ** 63 // 3) - 1, 4611686018427387905, 1000000007, -1000000007,
    6074001000, 2 ** 53 + 1, -(2 ** 40),
]))

FLOATS = ["0.0", "-0.0", "1.0", "-1.0", "1.5", "0.1", "0.2", "0.3", "3.0", "-2.5", "0.5", "2.0",
          "9007199254740993.0", "123456789.125", "0.000001",
          "17976931348623157" + "0" * 292 + ".0",            # f64::MAX
          "-17976931348623157" + "0" * 292 + ".0",
          "0." + "0" * 323 + "5",                             # smallest subnormal
          "0." + "0" * 307 + "22250738585072014",             # smallest normal
          "10000000000000000000000.0"]


def fits(n):
    return MIN <= n <= MAX


def wrap(n):
    return (n + 2 ** 63) % 2 ** 64 - 2 ** 63


def fbits(f):
    return struct.unpack(">Q", struct.pack(">d", f))[0]


# ------------------------------------------------------------------ reference (oracle)
EXC = "exception"


def ref_int(op, a, b):
    """What the property demands: ('int', n) | ('bool', b) | EXC."""
    if op in ("+", "+="):
        return ("int", wrap(a + b))
    if op in ("-", "-="):
        return ("int", wrap(a - b))
    if op == "*":
        return ("int", wrap(a * b))
    if op == "/":
        if b == 0:
            return EXC
        q = abs(a) // abs(b)
        q = q if (a < 0) == (b < 0) else -q
        return ("int", q) if fits(q) else EXC
    if op == "%":
        if b == 0:
            return EXC
        return ("int", a % abs(b))
    if op == "**":
        if b < 0:
            return EXC
        if a in (0, 1):
            return ("int", a if b > 0 else 1)
        if a == -1:
            return ("int", 1 if b % 2 == 0 else -1)
        if b >= 64:
            return EXC
        p = a ** b
        return ("int", p) if fits(p) else EXC
    if op == "&":
        return ("int", a & b)
    if op == "|":
        return ("int", a | b)
    if op == "<":
        return ("bool", a < b)
    if op == ">":
        return ("bool", a > b)
    if op == "<=":
        return ("bool", a <= b)
    if op == ">=":
        return ("bool", a >= b)
    raise ValueError(op)


def ref_float(op, x, y):
    try:
        if op == "+.":
            return ("float", x + y)
        if op == "-.":
            return ("float", x - y)
        if op == "*.":
            return ("float", x * y)
        if y == 0.0:
            return EXC
        return ("float", x / y)
    except OverflowError:
        return ("float", math.inf if (x > 0) == (y > 0) else -math.inf)


# ------------------------------------------------------------------ running garden
def stmt(op, a, b, k):
    """Source text of one case; a, b are source texts of the operands."""
    if op in UPD_OPS:
        return "let v%d = %s v%d %s %s println(string_repr(v%d))" % (k, a, k, op, b, k)
    return "println(string_repr(%s %s %s))" % (a, op, b)


def classify(stderr):
    if "Tried to divide" in stderr:
        return "div-zero"
    if "remainder of dividing" in stderr:
        return "rem-zero"
    if "negative power" in stderr:
        return "neg-exponent"
    if "Exponent is too large" in stderr:
        return "exp-too-large"
    if "Integer overflow on raising" in stderr:
        return "pow-overflow"
    if "Integer overflow on dividing" in stderr:
        return "div-overflow"
    m = re.search(r"Expected `(Int|Float)` but", stderr)
    if m:
        return "type-" + m.group(1) + ("-suggest" if "Consider using" in stderr else "")
    return "other:" + stderr.strip().split("\n")[0][:80]


def parse_value(line):
    if line in ("True", "False"):
        return ("bool", line == "True")
    if re.fullmatch(r"-?[0-9]+", line):
        return ("int", int(line))
    # Value::display appends ".0" to a float text without a '.', also for inf / NaN
    if line in ("inf.0", "-inf.0", "NaN.0"):
        line = line[:-2]
    try:
        return ("float", float(line))
    except ValueError:
        return ("text", line)


def observe_single(ctx, src):
    """Run one case alone: ('crash', rc, msg) | ('exc', kind) | value tuple."""
    rc, so, se = ctx.garden(["run", "-c", src], env={"RUST_BACKTRACE": "0"}, timeout=60)
    if common.crashed(rc) or rc == -9999:
        m = re.search(r"panicked at ([^\n]*)\n([^\n]*)", se)
        return ("crash", rc, (m.group(1) + " " + m.group(2)) if m else se[-200:])
    lines = [l for l in so.split("\n") if l != ""]
    if lines:
        return parse_value(lines[0])
    if se.startswith("Exception:") or "\nException:" in se:
        return ("exc", classify(se))
    return ("text", (so + se)[-200:])


def observe_all(ctx, cases):
    """cases: list of (op, a_src, b_src, may_raise). Returns one observation per case.
    Cases not expected to raise are batched; a batch with a surprise is re-run singly."""
    out = [None] * len(cases)
    singles = [i for i, c in enumerate(cases) if c[3]]
    safe = [i for i, c in enumerate(cases) if not c[3]]
    B = 80
    batches = [safe[i:i + B] for i in range(0, len(safe), B)]

    extra = [0]

    def run_batch(ix):
        """Results for the cases ix, in order. The program stops at the first case that raises or
        crashes: the lines printed before it are kept, that case is re-run alone, the rest re-batched."""
        res = []
        pos = 0
        while pos < len(ix):
            rest = ix[pos:]
            src = " ".join(stmt(cases[i][0], cases[i][1], cases[i][2], k) for k, i in enumerate(rest))
            rc, so, se = ctx.garden(["run", "-c", src], env={"RUST_BACKTRACE": "0"}, timeout=120)
            lines = [l for l in so.split("\n") if l != ""][:len(rest)]
            res.extend(parse_value(l) for l in lines)
            pos += len(lines)
            if pos < len(ix):
                i = ix[pos]
                res.append(observe_single(ctx, stmt(cases[i][0], cases[i][1], cases[i][2], 0)))
                pos += 1
                extra[0] += 2
        return res

    res = common.pmap(run_batch, batches, workers=16)
    for ix, r in zip(batches, res):
        for i, v in zip(ix, r):
            out[i] = v
    sres = common.pmap(lambda i: observe_single(ctx, stmt(cases[i][0], cases[i][1], cases[i][2], 0)),
                       singles, workers=16)
    for i, v in zip(singles, sres):
        out[i] = v
    return out, len(batches) + extra[0], len(singles)


def impl_wire(obs):
    if obs[0] == "crash":
        return "PANIC"
    if obs[0] == "exc":
        return "OK exc:" + obs[1]
    if obs[0] == "int":
        return "OK i:%d" % obs[1]
    if obs[0] == "bool":
        return "OK b:%s" % str(obs[1]).lower()
    if obs[0] == "float":
        return "OK f:nan" if math.isnan(obs[1]) else "OK f:%016x" % fbits(obs[1])
    return "OK text:" + obs[1]


def model_wire(resp):
    if resp is None:
        return "NONE"
    if resp.startswith("PANIC"):
        return "PANIC"
    return re.sub(r"(exc:type-(?:Int|Float))-(?:lhs|rhs)", r"\1", resp)


# ------------------------------------------------------------------ generators
def random_pair(rng, op):
    def one():
        r = rng.random()
        if r < 0.25:
            return rng.randint(MIN, MAX)
        if r < 0.45:
            return max(MIN, min(MAX, rng.choice(BOUNDARY) + rng.randint(-3, 3)))
        if r < 0.6:
            return max(MIN, min(MAX, rng.choice([1, -1]) * (2 ** rng.randint(0, 63)) + rng.randint(-2, 2)))
        if r < 0.8:
            return rng.randint(-1000, 1000)
        return rng.randint(-2 ** 33, 2 ** 33)
    a, b = one(), one()
    if op == "**" and rng.random() < 0.7:
        a = rng.choice([-10, -3, -2, -1, 0, 1, 2, 3, 7, 10, 15, 2 ** 16, -2 ** 21, 3037000499, 2097151, -2097152])
        b = rng.randint(0, 66)
    if op in ("/", "%") and rng.random() < 0.3 and b != 0:
        a = max(MIN, min(MAX, b * rng.randint(-5, 5) + rng.randint(-1, 1)))
    if op in ("+", "-", "+=", "-=", "*") and rng.random() < 0.3:
        # land next to the overflow boundary
        t = rng.choice([MAX, MIN]) + rng.randint(-2, 2)
        if op in ("+", "+="):
            b = max(MIN, min(MAX, t - a))
        elif op in ("-", "-="):
            b = max(MIN, min(MAX, a - t))
    return a, b


def run(ctx):
    rng = ctx.rng
    ctx.rule = ("operator cases `a op b` run through `garden run -c`: (1) every pair of a %d-value boundary "
                "set (0, small, i64 MIN/MAX and neighbours, ±2^31, ±2^32, u32::MAX and neighbours, ±2^62, "
                "floor(sqrt(MAX)) and neighbours, 62..65) × the 12 integer operators and `+=`/`-=` (written "
                "`let x = a  x += b  println(x)`; for `**` with a negative or >= 64 exponent only the 8 bases 0, ±1, ±2, 3, MIN, MAX); (2) random pairs (uniform 64-bit, boundary±3, ±2^k±2, small, "
                "steered next to the overflow edge for + - += -=, small base/exponent for **, near-multiples "
                "for / %%); (3) all pairs of a %d-value finite float pool (±0.0, subnormal, f64::MAX, 2^53+1, "
                "0.1…) × `+. -. *. /.`; (4) wrong-operand-type cases. Non-trivial = an operand outside ±2^31, or "
                "one of / %% ** with a negative or zero operand, or a float/type case."
                % (len(BOUNDARY), len(FLOATS)))

    # ---------------- cases
    cases = []          # (kind, op, a, b) with kind 'int' | 'float' | 'mixed'
    few = [0, 1, -1, 2, -2, 3, MIN, MAX]
    for op in INT_OPS + UPD_OPS:
        for a in BOUNDARY:
            for b in BOUNDARY:
                # `**` with a negative or >= 64 exponent is decided by a guard or overflows for every
                # base but -1, 0, 1, and each such case costs a process (it raises): keep 8 bases there
                if op == "**" and (b < 0 or b >= 64) and a not in few:
                    continue
                cases.append(("int", op, a, b))
    n_boundary = len(cases)
    for _ in range(ctx.scale(4000, 60000)):
        op = rng.choice(INT_OPS + UPD_OPS)
        a, b = random_pair(rng, op)
        cases.append(("int", op, a, b))
    n_int = len(cases)
    for op in FLOAT_OPS:
        for x in FLOATS:
            for y in FLOATS:
                cases.append(("float", op, x, y))
    mixed_vals = [("i:1", "1"), ("f:%016x" % fbits(1.5), "1.5"), ("b:true", "True"), ("o:str", "\"a\""),
                  ("i:0", "0"), ("f:%016x" % fbits(0.0), "0.0")]
    for op in ["+", "/", "**", "<", "&"] + UPD_OPS + FLOAT_OPS:
        for l in mixed_vals:
            for r in mixed_vals:
                lk, rk = l[0][0], r[0][0]
                want = "f" if op in FLOAT_OPS else "i"
                if lk == want and rk == want:
                    continue
                cases.append(("mixed", op, l, r))

    # ---------------- expectations (oracle) and garden inputs
    gcases, mlines, refs = [], [], []
    for kind, op, a, b in cases:
        if kind == "int":
            ref = ref_int(op, a, b)
            gcases.append((op, str(a), str(b), ref == EXC or (op == "%" and a == MIN and b == -1)
                           or (op == "**" and b > 2 ** 32 - 1)))
            mlines.append("arith %s i:%d i:%d" % (op, a, b))
        elif kind == "float":
            ref = ref_float(op, float(a), float(b))
            gcases.append((op, a, b, ref == EXC))
            mlines.append("arith %s f:%016x f:%016x" % (op, fbits(float(a)), fbits(float(b))))
        else:
            ref = EXC
            gcases.append((op, a[1], b[1], True))
            mlines.append("arith %s %s %s" % (op, a[0], b[0]))
        refs.append(ref)
    obs, n_batches, n_singles = observe_all(ctx, gcases)
    model = ctx.model_batch(mlines)
    ctx.cov["boundary_values"] = len(BOUNDARY)
    ctx.cov["boundary_cases"] = n_boundary
    ctx.cov["random_int_cases"] = n_int - n_boundary
    ctx.cov["float_cases"] = len(FLOATS) ** 2 * len(FLOAT_OPS)
    ctx.cov["mixed_type_cases"] = len(cases) - n_int - len(FLOATS) ** 2 * len(FLOAT_OPS)
    ctx.cov["single_case_processes"] = n_singles
    ctx.cov["garden_processes"] = n_batches + n_singles
    hist = {}

    for (kind, op, a, b), g, ref, o, m in zip(cases, gcases, refs, obs, model):
        src = stmt(g[0], g[1], g[2], 0)
        if kind == "int":
            nontrivial = abs(a) >= 2 ** 31 or abs(b) >= 2 ** 31 or (op in ("/", "%", "**") and (a <= 0 or b <= 0))
        else:
            nontrivial = True
        ctx.case((op, g[1], g[2]), nontrivial)
        hist[o[0]] = hist.get(o[0], 0) + 1
        replay = dict(program=src, command="garden run -c %r" % src)

        # ---- correspondence
        iw, mw = impl_wire(o), model_wire(m)
        if iw != mw:
            ctx.disagree("arith", {"op": op, "a": g[1], "b": g[2]}, m, iw, **replay)

        # ---- direct oracle
        if o[0] == "crash":
            if op == "/" and kind == "int":
                key = "C04/panic-div-overflow"
            elif op in UPD_OPS and kind == "int":
                key = "C04/panic-assign-update-overflow"
            else:
                key = "C04/panic-%s" % op
            ctx.fail(key, "garden crashed (rc=%s) evaluating `%s %s %s`: %s" % (o[1], g[1], op, g[2], o[2]),
                     expected=repr(ref), **replay)
            continue
        if ref == EXC:
            if o[0] != "exc":
                ctx.fail("C04/no-exception-%s" % op, "expected a Garden exception, got %r" % (o,), **replay)
            continue
        if o[0] == "exc":
            if kind == "int" and op == "%" and a == MIN and b == -1:
                ctx.fail("C04/rem-min-by-minus-one-raises",
                         "MIN %% -1 raises (%s) although the Euclidean remainder 0 is representable" % o[1], **replay)
            elif kind == "int" and op == "**" and b > 2 ** 32 - 1 and a in (-1, 0, 1):
                ctx.fail("C04/pow-exponent-above-u32-raises-for-unit-base",
                         "%d ** %d raises (%s) although the exact result %d is representable" % (a, b, o[1], ref[1]),
                         **replay)
            else:
                ctx.fail("C04/unexpected-exception-%s" % op, "expected %r, got exception %s" % (ref, o[1]), **replay)
            continue
        if ref[0] == "float":
            same = o[0] == "float" and (fbits(o[1]) == fbits(ref[1]) or (math.isnan(o[1]) and math.isnan(ref[1])))
            if not same:
                ctx.fail("C04/float-result-%s" % op, "expected %r (IEEE double), got %r" % (ref[1], o), **replay)
            continue
        if o != ref:
            if op in UPD_OPS:
                key = "C04/assign-update-differs-from-binop"
            else:
                key = "C04/wrong-result-%s" % op
            ctx.fail(key, "`%s %s %s`: expected %r, got %r" % (g[1], op, g[2], ref, o), **replay)

    # `x += e` against `x = x + e` observed on the implementation itself (boundary set)
    agree_cases = [(op, a, b) for op in UPD_OPS for a in BOUNDARY for b in BOUNDARY]
    idx = {(c[1], c[2], c[3]): i for i, c in enumerate(cases[:n_boundary])}
    n_agree = 0
    for op, a, b in agree_cases:
        o1 = obs[idx[(op, a, b)]]
        o2 = obs[idx[(op[0], a, b)]]
        n_agree += 1
        if o1 != o2 and o1[0] != "crash":
            ctx.fail("C04/assign-update-differs-from-binop",
                     "`x %s e` leaves %r but `x = x %s e` gives %r (x=%d, e=%d)" % (op, o1, op[0], o2, a, b),
                     program=stmt(op, str(a), str(b), 0))
    ctx.cov["assign_update_vs_binop_pairs"] = n_agree
    ctx.cov["outcome_histogram"] = hist
    for i in (7, n_boundary // 3, n_boundary + 5, n_int + 17, len(cases) - 4):
        if 0 <= i < len(cases):
            ctx.sample({"program": stmt(gcases[i][0], gcases[i][1], gcases[i][2], 0), "impl": impl_wire(obs[i]),
                        "model": model[i], "reference": repr(refs[i])})
    ctx.assumptions += [
        "model of eval_int_binop / eval_float_binop / eval_assign_update is hand-written; only this correspondence run ties it",
        "core::i64 wrapping_*/checked_div/checked_rem_euclid/checked_pow are modelled by their documented contracts",
        "float results: IEEE-754 double arithmetic is not reasoned about; printed results are compared bit-for-bit "
        "with Lean's Float (correspondence) and Python's float (oracle)",
        "error kinds are read off the exception text on stderr; which operand a type error names is not compared",
    ]
