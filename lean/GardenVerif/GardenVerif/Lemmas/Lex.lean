import GardenVerif.Model.Lex
/-! Lemmas about the lexer model M1: byte arithmetic, `LinePositions::from_offset` against its
specification, scanners return prefixes, the per-iteration invariant, the loop. -/
set_option linter.unusedVariables false
set_option linter.unusedSimpArgs false

namespace Lex
variable {any : Bool}

theorem csize_pos (c : Char) : 0 < csize c := by
  unfold csize; split <;> (try split) <;> (try split) <;> omega

theorem csize_le_four (c : Char) : csize c ≤ 4 := by
  unfold csize; split <;> (try split) <;> (try split) <;> omega

@[simp] theorem bytes_nil : bytes [] = 0 := rfl
@[simp] theorem bytes_cons (c : Char) (cs : List Char) : bytes (c :: cs) = csize c + bytes cs := rfl

@[simp] theorem bytes_append (a b : List Char) : bytes (a ++ b) = bytes a + bytes b := by
  induction a with
  | nil => simp
  | cons c cs ih => simp [ih]; omega

theorem bytes_eq_zero {l : List Char} : bytes l = 0 ↔ l = [] := by
  cases l with
  | nil => simp
  | cons c cs => have := csize_pos c; simp; omega

theorem length_le_bytes (l : List Char) : l.length ≤ bytes l := by
  induction l with
  | nil => simp
  | cons c cs ih => have := csize_pos c; simp; omega

theorem splitBytes_append (m t : List Char) : splitBytes (m ++ t) (bytes m) = some (m, t) := by
  induction m with
  | nil => cases t <;> simp [splitBytes]
  | cons c cs ih =>
    have := csize_pos c
    simp only [List.cons_append, splitBytes, bytes_cons]
    rw [if_neg (by omega), if_pos (by omega)]
    have : csize c + bytes cs - csize c = bytes cs := by omega
    rw [this, ih]

theorem splitBytes_some : ∀ (cs : List Char) (n : Nat) (a b : List Char),
    splitBytes cs n = some (a, b) → cs = a ++ b ∧ bytes a = n := by
  intro cs
  induction cs with
  | nil =>
    intro n a b h
    simp only [splitBytes] at h
    split at h <;> simp_all
  | cons c cs ih =>
    intro n a b h
    simp only [splitBytes] at h
    split at h
    · simp_all
    · split at h
      · split at h
        · rename_i a' b' heq
          have := ih _ _ _ heq
          simp at h
          obtain ⟨rfl, rfl⟩ := h
          simp [this.1.symm] at *
          omega
        · simp at h
      · simp at h

/-! ## prefixes of one text are ordered by their byte length -/

theorem prefix_of_bytes_le {p q src : List Char} (hp : p <+: src) (hq : q <+: src)
    (h : bytes p ≤ bytes q) : p <+: q := by
  rcases Nat.le_total p.length q.length with hl | hl
  · exact List.prefix_of_prefix_length_le hp hq hl
  · have hqp : q <+: p := List.prefix_of_prefix_length_le hq hp hl
    obtain ⟨t, rfl⟩ := hqp
    have : bytes t = 0 := by simp at h; omega
    rw [bytes_eq_zero] at this
    subst this
    simp

theorem bytes_le_of_prefix {p q : List Char} (h : p <+: q) : bytes p ≤ bytes q := by
  obtain ⟨t, rfl⟩ := h; simp

/-! ## line / column specification -/

/-- The text after the last `\n` of `p` (all of `p` if there is none). -/
def lastLine (p : List Char) : List Char := (p.reverse.takeWhile (· != '\n')).reverse

/-- Zero-based line of the position just after the prefix `p`. -/
def lineOf (p : List Char) : Nat := p.count '\n'

/-- Column (bytes since the line start) just after the prefix `p`. -/
def colOf (p : List Char) : Nat := bytes (lastLine p)

theorem lastLine_snoc (p : List Char) (c : Char) :
    lastLine (p ++ [c]) = if c = '\n' then [] else lastLine p ++ [c] := by
  simp only [lastLine, List.reverse_append, List.reverse_cons, List.reverse_nil, List.nil_append,
    List.cons_append, List.takeWhile_cons]
  by_cases h : c = '\n' <;> simp [h]

/-- column, computed from the front: reset at `\n`, else add the char's size. -/
def colFold : List Char → Nat → Nat
  | [], c0 => c0
  | c :: cs, c0 => if c = '\n' then colFold cs 0 else colFold cs (c0 + csize c)

theorem colFold_snoc (p : List Char) (c : Char) (c0 : Nat) :
    colFold (p ++ [c]) c0 = if c = '\n' then 0 else colFold p c0 + csize c := by
  induction p generalizing c0 with
  | nil => simp [colFold]
  | cons d ds ih =>
    simp only [List.cons_append, colFold]
    split <;> simp [ih]

theorem bytes_reverse (l : List Char) : bytes l.reverse = bytes l := by
  induction l with
  | nil => simp
  | cons c cs ih => simp [ih]; omega

theorem colFold_zero_eq (p : List Char) : colFold p 0 = colOf p := by
  suffices h : ∀ r : List Char, colFold r.reverse 0 = colOf r.reverse by
    have := h p.reverse; simpa using this
  intro r
  induction r with
  | nil => simp [colFold, colOf, lastLine]
  | cons c cs ih =>
    simp only [List.reverse_cons, colFold_snoc, colOf, lastLine_snoc]
    by_cases h : c = '\n'
    · simp [h]
    · simp only [h, if_false, bytes_append, bytes_cons, bytes_nil]
      rw [ih]; simp [colOf]

/-- `colFold` from a non-zero start column, when the text has no newline vs. has one. -/
theorem colFold_eq (p : List Char) (c0 : Nat) :
    colFold p c0 = if '\n' ∈ p then colOf p else c0 + bytes p := by
  induction p generalizing c0 with
  | nil => simp [colFold]
  | cons c cs ih =>
    simp only [colFold]
    by_cases h : c = '\n'
    · subst h
      simp only [if_true, List.mem_cons, true_or]
      rw [ih 0]
      split
      · rename_i hm
        rw [← colFold_zero_eq, ← colFold_zero_eq]
        simp [colFold]
      · rename_i hm
        rw [← colFold_zero_eq]
        simp only [colFold, if_true]
        rw [ih 0]; simp [hm]
    · simp only [h, if_false, List.mem_cons]
      rw [ih]
      have hne : ¬ ('\n' = c) := fun e => h e.symm
      simp only [hne, false_or]
      split
      · rename_i hm
        rw [← colFold_zero_eq, ← colFold_zero_eq]
        simp only [colFold, h, if_false]
        rw [ih, ih]; simp [hm]
      · simp; omega

theorem linePositionsGo_head (s : List Char) (ls cur : Nat) :
    ∃ e rest, linePositionsGo s ls cur = (ls, e) :: rest ∧ cur ≤ e := by
  induction s generalizing cur with
  | nil => exact ⟨cur, [], rfl, Nat.le_refl _⟩
  | cons c cs ih =>
    simp only [linePositionsGo]
    split
    · exact ⟨cur, _, rfl, Nat.le_refl _⟩
    · obtain ⟨e, rest, h, hle⟩ := ih (cur + csize c)
      exact ⟨e, rest, h, by omega⟩

theorem findLine_go (pre rest : List Char) (ls cur idx : Nat) (hls : ls ≤ cur) :
    findLine (linePositionsGo (pre ++ rest) ls cur) (cur + bytes pre) idx =
      some (idx + lineOf pre, colFold pre (cur - ls)) := by
  induction pre generalizing ls cur idx with
  | nil =>
    obtain ⟨e, r, h, hle⟩ := linePositionsGo_head rest ls cur
    simp only [List.nil_append, h, findLine, bytes_nil, Nat.add_zero, lineOf, List.count_nil, colFold]
    rw [if_pos ⟨hls, hle⟩]
  | cons c cs ih =>
    have hc := csize_pos c
    simp only [List.cons_append, linePositionsGo, bytes_cons]
    by_cases h : c = '\n'
    · subst h
      have h1 : csize '\n' = 1 := by decide
      simp only [if_true, findLine, colFold, h1]
      rw [if_neg (by omega)]
      have := ih (cur + 1) (cur + 1) (idx + 1) (Nat.le_refl _)
      have e : cur + (1 + bytes cs) = cur + 1 + bytes cs := by omega
      rw [e, this]
      simp [lineOf, List.count_cons]
      omega
    · simp only [h, if_false, colFold]
      have := ih ls (cur + csize c) idx (by omega)
      have e : cur + (csize c + bytes cs) = cur + csize c + bytes cs := by omega
      rw [e, this]
      have hne : ¬ (c == '\n') = true := by simpa using h
      simp [lineOf, List.count_cons, hne]
      congr 1; omega

/-- `LinePositions::from(src).from_offset(o)` at a character boundary `o = bytes pre`:
line = number of `\n` before `o`, column = bytes since the last `\n` before `o`. -/
theorem fromOffset_spec (pre rest : List Char) :
    fromOffset (linePositions (pre ++ rest)) (bytes pre) = some (lineOf pre, colOf pre) := by
  have := findLine_go pre rest 0 0 0 (Nat.le_refl _)
  simp only [Nat.zero_add, Nat.sub_self] at this
  simp [fromOffset, linePositions, this, colFold_zero_eq]


/-- The position that spans from just after the prefix `p1` to just after the prefix `p2`. -/
def specPos (p1 p2 : List Char) : Pos :=
  ⟨bytes p1, bytes p2, lineOf p1, lineOf p2, colOf p1, colOf p2⟩

/-- C23 for one position of the text `src`: both offsets are character boundaries of `src`
(they are the byte lengths of two prefixes `p1 <+: p2 <+: src`, hence `start ≤ stop ≤ |src|`),
line/column are those of the start offset, endLine/endCol those of the end offset. -/
def Consistent (src : List Char) (pos : Pos) : Prop :=
  ∃ p1 p2, p1 <+: p2 ∧ p2 <+: src ∧ pos = specPos p1 p2

theorem consistent_mk {src pre m post : List Char} (h : src = pre ++ m ++ post) :
    Consistent src (specPos pre (pre ++ m)) :=
  ⟨pre, pre ++ m, List.prefix_append _ _, ⟨post, h.symm⟩, rfl⟩

theorem mkPos_fixed {src pre m post : List Char} (h : src = pre ++ m ++ post) :
    mkPos (Cfg.fixed any) (linePositions src) (bytes pre) (bytes pre + bytes m) =
      some (specPos pre (pre ++ m)) := by
  have h1 := fromOffset_spec pre (m ++ post)
  have h2 := fromOffset_spec (pre ++ m) post
  rw [← List.append_assoc, ← h] at h1
  rw [← h, bytes_append] at h2
  simp [mkPos, h1, h2, Cfg.fixed, specPos]

theorem lineOf_mono {p q : List Char} (h : p <+: q) : lineOf p ≤ lineOf q := by
  obtain ⟨t, rfl⟩ := h; simp [lineOf, List.count_append]

theorem merge_consistent_aux {src : List Char} {a b : Pos}
    (ha : Consistent src a) (hb : Consistent src b) : Consistent src (Pos.merge a b) := by
  obtain ⟨a1, a2, ha12, ha2, rfl⟩ := ha
  obtain ⟨b1, b2, hb12, hb2, rfl⟩ := hb
  by_cases h : bytes a2 > bytes b2
  · have hp : b2 <+: a2 := prefix_of_bytes_le hb2 ha2 (by omega)
    have := lineOf_mono hp
    refine ⟨a1, a2, ha12, ha2, ?_⟩
    simp only [Pos.merge, specPos, h, if_true]
    congr 1 <;> omega
  · have hp : a2 <+: b2 := prefix_of_bytes_le ha2 hb2 (by omega)
    have := lineOf_mono hp
    refine ⟨a1, b2, List.IsPrefix.trans ha12 hp, hb2, ?_⟩
    simp only [Pos.merge, specPos, h, if_false]
    congr 1 <;> omega

/-! ## scanners return a non-empty prefix of their input -/

theorem scanInt_prefix {s m : List Char} (h : scanInt s = some m) : m <+: s ∧ m ≠ [] := by
  unfold scanInt at h
  split at h
  · split at h
    · simp at h; subst h
      refine ⟨?_, by simp⟩
      rw [List.prefix_cons_inj, List.prefix_cons_inj]
      exact List.takeWhile_prefix _
    · simp at h
  · split at h
    · simp at h; subst h
      refine ⟨?_, by simp⟩
      rw [List.prefix_cons_inj]
      exact List.takeWhile_prefix _
    · simp at h
  · simp at h

theorem scanFloat_prefix {s m : List Char} (h : scanFloat s = some m) : m <+: s ∧ m ≠ [] := by
  unfold scanFloat at h
  split at h
  · simp at h
  · rename_i m0 hm0
    obtain ⟨⟨t, ht⟩, hne⟩ := scanInt_prefix hm0
    split at h
    · rename_i d r hdrop
      split at h
      · simp at h; subst h
        refine ⟨?_, by simp⟩
        subst ht
        simp at hdrop
        subst hdrop
        apply (List.prefix_append_right_inj m0).mpr
        rw [List.prefix_cons_inj, List.prefix_cons_inj]
        exact List.takeWhile_prefix _
      · simp at h
    · simp at h

theorem scanSymbol_prefix {s m : List Char} (h : scanSymbol s = some m) : m <+: s ∧ m ≠ [] := by
  unfold scanSymbol at h
  split at h
  · split at h
    · simp at h; subst h
      refine ⟨?_, by simp⟩
      rw [List.prefix_cons_inj]
      exact List.takeWhile_prefix _
    · simp at h
  · simp at h

theorem strBody_prefix (any esc : Bool) (r : List Char) : strBody any esc r <+: r := by
  induction r generalizing esc with
  | nil => simp [strBody]
  | cons c cs ih =>
    simp only [strBody]
    by_cases h1 : (esc && (if any = true then c != '\n' else c == '"')) = true
    · rw [if_pos h1, List.prefix_cons_inj]; exact ih _
    · rw [if_neg h1]
      by_cases h2 : c = '"'
      · rw [if_pos h2]; subst h2; exact ⟨cs, rfl⟩
      · rw [if_neg h2, List.prefix_cons_inj]; exact ih _

theorem scanString_prefix {s m : List Char} (h : scanString any s = some m) :
    m <+: s ∧ m.head? = some '"' := by
  unfold scanString at h
  split at h
  · split at h
    · rename_i hc; subst hc
      simp at h; subst h
      refine ⟨?_, by simp⟩
      rw [List.prefix_cons_inj]; exact strBody_prefix _ _ _
    · simp at h
  · simp at h

theorem takeWhile_nl_prefix_ne {m : List Char} (h : m.head? = some '"') :
    m.takeWhile (· != '\n') <+: m ∧ m.takeWhile (· != '\n') ≠ [] := by
  refine ⟨List.takeWhile_prefix _, ?_⟩
  cases m with
  | nil => simp at h
  | cons c cs =>
    simp at h; subst h
    simp [List.takeWhile_cons]

/-! ## one iteration -/

/-- A token of `src`: its text is the slice of `src` between its offsets and its position is
consistent. -/
def TokOK (src : List Char) (t : Token) : Prop :=
  ∃ pre post, src = pre ++ t.text ++ post ∧ t.pos = specPos pre (pre ++ t.text)

theorem TokOK.consistent {src : List Char} {t : Token} (h : TokOK src t) : Consistent src t.pos := by
  obtain ⟨pre, post, h1, h2⟩ := h
  rw [h2]; exact consistent_mk h1

structure Inv (src : List Char) (st : State) : Prop where
  split : ∃ pre, src = pre ++ st.rest ∧ st.off = bytes pre
  toks : ∀ t ∈ st.toks, TokOK src t ∧ ∀ c ∈ t.comments, Consistent src c.1
  pending : ∀ c ∈ st.pending, Consistent src c.1
  errs : ∀ e ∈ st.errs, Consistent src e.pos

/-- What one continuing iteration guarantees. -/
def Good (src : List Char) (st : State) (r : Step) : Prop :=
  r = .done ∨ ∃ st', r = .next st' ∧ Inv src st' ∧ st'.rest.length < st.rest.length

theorem advance_good {src : List Char} {st0 st : State} {m t : List Char}
    (hrest : st.rest = m ++ t) (hm : m ≠ []) (hlen : st.rest = st0.rest)
    (hsplit : ∃ pre, src = pre ++ st.rest ∧ st.off = bytes pre)
    (htoks : ∀ t ∈ st.toks, TokOK src t ∧ ∀ c ∈ t.comments, Consistent src c.1)
    (hpend : ∀ c ∈ st.pending, Consistent src c.1)
    (herrs : ∀ e ∈ st.errs, Consistent src e.pos) :
    Good src st0 (advance st (bytes m)) := by
  right
  unfold advance
  rw [hrest, splitBytes_append]
  refine ⟨_, rfl, ⟨?_, htoks, hpend, herrs⟩, ?_⟩
  · obtain ⟨pre, h1, h2⟩ := hsplit
    refine ⟨pre ++ m, ?_, ?_⟩
    · simp [h1, hrest]
    · simp [h2]
  · simp only
    rw [← hlen, hrest]
    have : 0 < m.length := List.length_pos_iff.mpr hm
    simp; omega

theorem emit_good {src : List Char} {st : State} {m : List Char} (err : Option ErrKind)
    (inv : Inv src st) (hp : m <+: st.rest) (hm : m ≠ []) :
    Good src st (emit (Cfg.fixed any) (linePositions src) st m err) := by
  obtain ⟨pre, h1, h2⟩ := inv.split
  obtain ⟨t, ht⟩ := hp
  have hsrc : src = pre ++ m ++ t := by rw [h1, ← ht]; simp
  have hmk : mkPos (Cfg.fixed any) (linePositions src) st.off (st.off + bytes m) =
      some (specPos pre (pre ++ m)) := by rw [h2]; exact mkPos_fixed hsrc
  unfold emit
  rw [hmk]
  simp only
  have hc : Consistent src (specPos pre (pre ++ m)) := consistent_mk hsrc
  refine advance_good (st0 := st) (m := m) (t := t) ht.symm hm rfl ⟨pre, h1, h2⟩ ?_ ?_ ?_
  · intro tk htk
    simp only [List.mem_cons] at htk
    rcases htk with rfl | htk
    · refine ⟨⟨pre, t, hsrc, rfl⟩, ?_⟩
      intro c hcm
      simp only [List.mem_reverse] at hcm
      exact inv.pending c hcm
    · exact inv.toks tk htk
  · simp
  · intro e he
    cases err with
    | none => exact inv.errs e he
    | some k =>
      simp only [List.mem_cons] at he
      rcases he with rfl | he
      · exact hc
      · exact inv.errs e he

theorem takeWhile_nl_split (l : List Char) :
    l.takeWhile (· != '\n') = l ∨ ∃ tl, l.takeWhile (· != '\n') ++ '\n' :: tl = l := by
  induction l with
  | nil => simp
  | cons c cs ih =>
    by_cases h : c = '\n'
    · subst h; right; exact ⟨cs, by simp [List.takeWhile_cons]⟩
    · have hb : (c != '\n') = true := by simpa using h
      rcases ih with ih | ⟨tl, ih⟩
      · left; simp only [List.takeWhile_cons, hb, if_true]; rw [ih]
      · right; refine ⟨tl, ?_⟩
        simp only [List.takeWhile_cons, hb, if_true, List.cons_append]; rw [ih]

theorem wf_two {T : LexTables} (h : T.wf = true) {e : List Char}
    (he : e ∈ T.twoCharOps ++ T.twoCharTokens) : e ≠ [] := by
  simp only [LexTables.wf, Bool.and_eq_true, List.all_eq_true] at h
  have := h.1 e he
  intro hn; subst hn; simp at this

theorem wf_one {T : LexTables} (h : T.wf = true) {c : Char}
    (hc : c ∈ T.oneCharOps ++ T.oneCharTokens) : csize c = 1 := by
  simp only [LexTables.wf, Bool.and_eq_true, List.all_eq_true] at h
  simpa using h.2 c hc

theorem step_good {T : LexTables} (hT : T.wf = true) {src : List Char} {st : State}
    (endOff : Nat) (inv : Inv src st) :
    Good src st (step T (Cfg.fixed any) (linePositions src) endOff st) := by
  unfold step
  split
  · exact Or.inl rfl
  simp only
  split
  · -- comment
    rename_i hpre
    obtain ⟨pre, h1, h2⟩ := inv.split
    have hpre' : ['/', '/'] <+: st.rest := List.isPrefixOf_iff_prefix.mp hpre
    generalize hbody : st.rest.takeWhile (· != '\n') = body
    have hbne : body ≠ [] := by
      obtain ⟨r, hr⟩ := hpre'
      rw [← hbody, ← hr]; simp [List.takeWhile_cons]
    rcases takeWhile_nl_split st.rest with hall | ⟨tl, htl⟩
    · -- comment runs to the end of the text
      rw [hbody] at hall
      have hsrc : src = pre ++ body ++ [] := by rw [hall]; simpa using h1
      have hmk : mkPos (Cfg.fixed any) (linePositions src) st.off (st.off + bytes body) =
          some (specPos pre (pre ++ body)) := by rw [h2]; exact mkPos_fixed hsrc
      rw [hmk]
      simp only
      rw [if_neg (by rw [hall]; omega)]
      refine advance_good (st0 := st) (m := body) (t := []) (by simp [hall]) hbne rfl
        ⟨pre, h1, h2⟩ inv.toks ?_ inv.errs
      intro c hcm
      simp only [List.mem_cons] at hcm
      rcases hcm with rfl | hcm
      · exact consistent_mk hsrc
      · exact inv.pending c hcm
    · rw [hbody] at htl
      have hsrc : src = pre ++ body ++ '\n' :: tl := by rw [List.append_assoc, htl]; exact h1
      have hmk : mkPos (Cfg.fixed any) (linePositions src) st.off (st.off + bytes body) =
          some (specPos pre (pre ++ body)) := by rw [h2]; exact mkPos_fixed hsrc
      rw [hmk]
      simp only
      rw [if_pos (by rw [← htl]; simp)]
      refine advance_good (st0 := st) (m := body ++ ['\n']) (t := tl)
        (by rw [List.append_assoc]; exact htl.symm) (by simp) rfl
        ⟨pre, h1, h2⟩ inv.toks ?_ inv.errs
      intro c hcm
      simp only [List.mem_cons] at hcm
      rcases hcm with rfl | hcm
      · exact consistent_mk hsrc
      · exact inv.pending c hcm
  · split
    · exact Or.inl rfl
    · rename_i c cs hs
      split
      · -- whitespace
        have := advance_good (st0 := st) (st := st) (m := [c]) (t := cs) (by simp [hs]) (by simp) rfl
          inv.split inv.toks inv.pending inv.errs
        simpa [Cfg.fixed] using this
      · split
        · rename_i e hfind
          have hmem := List.mem_of_find?_eq_some hfind
          have hp := List.find?_some hfind
          exact emit_good none inv (List.isPrefixOf_iff_prefix.mp hp) (wf_two hT hmem)
        · split
          · rename_i m hm
            have := scanFloat_prefix hm
            exact emit_good none inv this.1 this.2
          · split
            · rename_i m hm
              have := scanInt_prefix hm
              exact emit_good none inv this.1 this.2
            · split
              · rename_i hcon
                have hmem : c ∈ T.oneCharOps ++ T.oneCharTokens := by simpa using hcon
                rw [if_pos (wf_one hT hmem)]
                exact emit_good none inv (by rw [hs]; exact ⟨cs, rfl⟩) (by simp)
              · split
                · rename_i m hm
                  have := scanString_prefix hm
                  split
                  · refine emit_good none inv this.1 ?_
                    intro hn; rw [hn] at this; simp at this
                  · have h2 := takeWhile_nl_prefix_ne this.2
                    exact emit_good _ inv (List.IsPrefix.trans h2.1 this.1) h2.2
                · split
                  · rename_i m hm
                    have := scanSymbol_prefix hm
                    exact emit_good none inv this.1 this.2
                  · -- unrecognised
                    obtain ⟨pre, h1, h2⟩ := inv.split
                    have hsrc : src = pre ++ [c] ++ cs := by rw [h1, hs]; simp
                    have hb : bytes [c] = csize c := by simp
                    have hmk : mkPos (Cfg.fixed any) (linePositions src) st.off (st.off + csize c) =
                        some (specPos pre (pre ++ [c])) := by
                      rw [h2, ← hb]; exact mkPos_fixed hsrc
                    simp only [Cfg.fixed, if_true]
                    have hmk' := hmk
                    simp only [Cfg.fixed] at hmk'
                    rw [hmk']
                    simp only
                    have hsp : splitBytes st.rest (csize c) = some ([c], cs) := by
                      rw [hs, ← hb]; exact splitBytes_append [c] cs
                    rw [hsp]
                    simp only
                    rw [← hb]
                    refine advance_good (st0 := st) (m := [c]) (t := cs) (by simp [hs]) (by simp) rfl
                      ⟨pre, h1, h2⟩ inv.toks inv.pending ?_
                    intro e he
                    simp only [List.mem_cons] at he
                    rcases he with rfl | he
                    · exact consistent_mk hsrc
                    · exact inv.errs e he


/-! ## the whole loop -/

/-- A lexer outcome all of whose reported positions are consistent and whose tokens are slices
of the text. In particular it is neither `panic` nor `outOfFuel`. -/
def OutOK (src : List Char) (o : Outcome) : Prop :=
  ∃ toks tr errs, o = .ok toks tr errs ∧
    (∀ t ∈ toks, TokOK src t ∧ ∀ c ∈ t.comments, Consistent src c.1) ∧
    (∀ c ∈ tr, Consistent src c.1) ∧ (∀ e ∈ errs, Consistent src e.pos)

theorem loop_ok {T : LexTables} (hT : T.wf = true) (src : List Char) (endOff : Nat) :
    ∀ (fuel : Nat) (st : State), Inv src st → st.rest.length < fuel →
      OutOK src (loop T (Cfg.fixed any) (linePositions src) endOff fuel st) := by
  intro fuel
  induction fuel with
  | zero => intro st _ h; omega
  | succ n ih =>
    intro st inv hlen
    unfold loop
    rcases step_good hT endOff inv with hd | ⟨st', hn, inv', hlt⟩
    · rw [hd]
      refine ⟨_, _, _, rfl, ?_, ?_, ?_⟩
      · intro t ht; exact inv.toks t (by simpa using ht)
      · intro c hc; exact inv.pending c (by simpa using hc)
      · intro e he; exact inv.errs e (by simpa using he)
    · rw [hn]
      exact ih st' inv' (by omega)

theorem splitBytes_zero (l : List Char) : splitBytes l 0 = some ([], l) := by
  cases l <;> simp [splitBytes]

/-- The shebang skip keeps the offset on a character boundary and does not lengthen the rest. -/
theorem shebangSkip_boundary (pre rest : List Char) :
    ∃ pre' rest', pre' ++ rest' = pre ++ rest ∧ shebangSkip (pre ++ rest) (bytes pre) = bytes pre' ∧
      rest'.length ≤ rest.length := by
  unfold shebangSkip
  split
  · rename_i c cs hsrc
    split
    · rename_i hsh
      have hpre : pre = [] := bytes_eq_zero.mp hsh.1
      subst hpre
      refine ⟨(([] : List Char) ++ rest).takeWhile (· != '\n'), (([] : List Char) ++ rest).dropWhile (· != '\n'),
        List.takeWhile_append_dropWhile, rfl, ?_⟩
      have := (List.dropWhile_sublist (l := ([] : List Char) ++ rest) (· != '\n')).length_le
      simpa using this
    · exact ⟨pre, rest, rfl, rfl, Nat.le_refl _⟩
  · exact ⟨pre, rest, rfl, rfl, Nat.le_refl _⟩

/-- `lex_between` started at a character boundary (`offset = bytes pre`) with enough fuel. -/
theorem lexBetween_ok {T : LexTables} (hT : T.wf = true) (pre rest : List Char) (endOff fuel : Nat)
    (hend : endOff ≤ bytes (pre ++ rest)) (hfuel : rest.length < fuel) :
    OutOK (pre ++ rest) (lexBetweenFuel T (Cfg.fixed any) fuel (pre ++ rest) (bytes pre) endOff) := by
  unfold lexBetweenFuel
  rw [if_neg (by omega)]
  simp only
  obtain ⟨pre', rest', hsrc, hoff, hlen⟩ := shebangSkip_boundary pre rest
  rw [hoff, ← hsrc, splitBytes_append]
  exact loop_ok hT _ endOff fuel _ ⟨⟨pre', rfl, rfl⟩, by simp, by simp, by simp⟩ (by simp only; omega)

theorem lex_ok {T : LexTables} (hT : T.wf = true) (src : List Char) (strAny : Bool) :
    OutOK src (lex T src strAny) := by
  have := lexBetween_ok (any := strAny) hT [] src (bytes src) (src.length + 1) (by simp) (by omega)
  simpa [lex, lexWith] using this

theorem garden_wf : LexTables.garden.wf = true := by decide

end Lex
