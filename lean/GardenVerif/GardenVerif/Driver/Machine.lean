import GardenVerif.Driver.Sexp
import GardenVerif.Model.Machine
/-! Driver op for M4: `machine_run <interrupts|-> <ticklimit|-> <stacklimit|-> <fuel> <astx sexpr>`.
Parses the `astx` dump of the real parser, runs the model machine and answers in
the same format as the `machine` op of `garden verif` (src/verif_machine.rs). -/

namespace DriverMachine
open Machine

def natOf (s : String) : Option Nat := s.toNat?

def binopOf : String → Option BinOp
  | "Add" => some .add | "Subtract" => some .sub | "Multiply" => some .mul | "Divide" => some .div
  | "Modulo" => some .mod | "Exponent" => some .pow | "BitwiseAnd" => some .bitand
  | "BitwiseOr" => some .bitor | "LessThan" => some .lt | "LessThanOrEqual" => some .le
  | "GreaterThan" => some .gt | "GreaterThanOrEqual" => some .ge | "Equal" => some .eq
  | "NotEqual" => some .ne | "And" => some .and | "Or" => some .or | "StringConcat" => some .concat
  | "AddFloat" | "SubtractFloat" | "MultiplyFloat" | "DivideFloat" => some .floatOp
  | _ => none

def destOf : Sexp → Option Dest
  | .list [.atom "sym", .atom n] => some (.sym n)
  | .list (.atom "destr" :: names) => (names.mapM fun (x : Sexp) => match x with | .atom n => some n | _ => none).map .destr
  | _ => none

def strOf (a : String) : Option String :=
  if a.startsWith "s:" then Hex.decode (a.drop 2).toString else none

mutual
partial def exprOf : Sexp → Option Expr
  | .list (.atom kind :: .atom ids :: .atom us :: rest) => do
    let id ← natOf ids
    let u := us == "1"
    match kind, rest with
    | "int", [.atom v] => (v.toInt?).map fun i => .int id u (Int64.ofInt i)
    | "str", [.atom a] => (strOf a).map (.str id u)
    | "var", [.atom n] => some (.var id u n)
    | "binop", [.atom op, l, r] => do some (.binop id u (← binopOf op) (← exprOf l) (← exprOf r))
    | "let", [d, .atom "nohint", e] => do some (.letE id u (← destOf d) (← exprOf e))
    | "let", [_, _, _] => some (.unsup id u "let with type hint")
    | "assign", [.atom n, e] => do some (.assign id u n (← exprOf e))
    | "update", [.atom k, .atom n, e] => do some (.update id u (k == "Add") n (← exprOf e))
    | "if", [c, t, .atom "noelse"] => do some (.ifE id u (← exprOf c) (← blockOf t) none)
    | "if", [c, t, e] => do some (.ifE id u (← exprOf c) (← blockOf t) (some (← blockOf e)))
    | "while", [c, b] => do some (.whileE id u (← exprOf c) (← blockOf b))
    | "for", [d, e, b] => do some (.forE id u (← destOf d) (← exprOf e) (← blockOf b))
    | "match", scrut :: cases => do
        some (.matchE id u (← exprOf scrut) (← cases.mapM caseOf))
    | "return", [.atom "none"] => some (.ret id u none)
    | "return", [e] => do some (.ret id u (some (← exprOf e)))
    | "break", [] => some (.brk id u)
    | "continue", [] => some (.cont id u)
    | "list", items => do some (.list id u (← items.mapM exprOf))
    | "tuple", items => do some (.tuple id u (← items.mapM exprOf))
    | "call", recv :: args => do some (.call id u (← exprOf recv) (← args.mapM exprOf))
    | "lambda", [.list (.atom "params" :: ps), .atom "nohint", b] => do
        let names ← ps.mapM fun (x : Sexp) => match x with
          | .list [.atom "p", .atom n, .atom "nohint"] => some n
          | _ => none
        some (.lambda id u names (← blockOf b))
    | "lambda", _ => some (.unsup id u "lambda with type hints")
    | "paren", [e] => do some (.paren id u (← exprOf e))
    | "invalid", [] => some (.invalid id u)
    | "unsup", [.atom w] => some (.unsup id u w)
    | "mcall", _ => some (.unsup id u "method call")
    | "assert", _ => some (.unsup id u "assert")
    | _, _ => none
  | _ => none
partial def blockOf : Sexp → Option (List Expr)
  | .list (.atom "block" :: es) => es.mapM exprOf
  | _ => none
partial def caseOf : Sexp → Option Case
  | .list [.atom "case", .atom v, .atom "nodest", b] => do some (.mk v none (← blockOf b))
  | .list [.atom "case", .atom v, d, b] => do some (.mk v (some (← destOf d)) (← blockOf b))
  | _ => none
end

structure Parsed where
  prog : Program
  unsupported : Option String

def programOf (items : List Sexp) : Option Parsed := do
  let mut funs : List FunDef := []
  let mut enums : List EnumDef := []
  let mut top : List Expr := []
  let mut unsup : Option String := none
  for it in items do
    match it with
    | .list [.atom "fun", .atom name, .list (.atom "params" :: ps), rh, b] =>
      let names := ps.filterMap fun (x : Sexp) => match x with
        | .list [.atom "p", .atom n, _] => some n
        | _ => none
      let hinted := ps.any (fun (x : Sexp) => match x with
        | .list [.atom "p", _, .atom "nohint"] => false
        | _ => true) || (match rh with | .atom "nohint" => false | _ => true)
      if hinted then unsup := some "function with type hints"
      funs := funs ++ [{ name := name, params := names, body := ← blockOf b }]
    | .list (.atom "enum" :: .atom name :: vs) =>
      let variants := vs.filterMap fun (x : Sexp) => match x with
        | .list [.atom "variant", .atom v, .atom p] => some (v, p == "payload")
        | _ => none
      enums := enums ++ [{ name := name, variants := variants }]
    | .list [.atom "expr", e] => top := top ++ [← exprOf e]
    | .list [.atom "blockitem", b] => top := top ++ (← blockOf b)
    | .list [.atom "test", _, _] => unsup := some "test item"
    | .list [.atom "unsupitem", .atom w] => unsup := some w
    | _ => none
  some { prog := { funs := funs, enums := enums, toplevel := top }, unsupported := unsup }

def stShort : St → String
  | .N => "N" | .PW => "PW" | .PD => "PD" | .PN => "PN" | .E => "E"

def builtinKind : String → String
  | "println" => "PreludePrintln" | "print" => "PreludePrint" | "string_repr" => "PreludeStringRepr"
  | n => n

mutual
partial def valueShort : Value → String
  | .int v => s!"i{v.toInt}"
  | .str s => "s" ++ Hex.encode s
  | .list items => "[" ++ ",".intercalate (items.map valueShort) ++ "]"
  | .tuple items => "(" ++ ",".intercalate (items.map valueShort) ++ ")"
  | .enumV ty idx none => s!"E:{ty}.{idx}"
  | .enumV ty idx (some p) => s!"E:{ty}.{idx}<{valueShort p}>"
  | .enumC ty idx => s!"C:{ty}.{idx}"
  | .closure .. => "clo"
  | .fn n => "fn:" ++ n
  | .builtin n => "bi:" ++ builtinKind n
end

def sortStrings (l : List String) : List String := (l.toArray.qsort (· < ·)).toList

def traceLine (s : State) : Option String :=
  match s.frames with
  | f :: _ =>
    match f.exprs with
    | (st, e) :: rest =>
      let pend := String.join (rest.reverse.map fun (st', e') => s!" {stShort st'}#{e'.id}")
      let vals := String.join (f.values.reverse.map fun v => " " ++ valueShort v)
      let blocks := String.join (f.blocks.reverse.map fun b =>
        " {" ++ ",".intercalate (sortStrings (b.map (·.1))) ++ "}")
      some s!"T {s.ticks + 1} {s.frames.length} {stShort st}#{e.id} |{pend} |{vals} |{blocks}"
    | [] => none
  | [] => none

structure RunOut where
  outcome : String
  interrupted : Nat
  final : Option State
  trace : Array String

partial def runLoop (fuel : Nat) (s : State) (wantTrace : Bool) (acc : RunOut) : RunOut :=
  if fuel == 0 then { acc with outcome := "(out-of-fuel)", final := some s } else
  let acc := if wantTrace then
      match traceLine s with
      | some l => { acc with trace := acc.trace.push l }
      | none => acc
    else acc
  match step s with
  | .cont s' => runLoop (fuel - 1) s' wantTrace acc
  | .done s' v => { acc with outcome := s!"(ok {valueShort v})", final := some s' }
  | .error s' .interrupted =>
      runLoop (fuel - 1) s' wantTrace { acc with interrupted := acc.interrupted + 1 }
  | .error s' e => { acc with outcome := s!"(err {e.toString})", final := some s' }
  | .panic site => { acc with outcome := s!"(panic {Hex.encode site})", final := none }
  | .unsupported w => { acc with outcome := s!"(unsupported {Hex.encode w})", final := none }

def optNat (s : String) : Option Nat := if s == "-" then none else s.toNat?

def handle (op : String) (rest : String) : Option String :=
  if op != "machine_run" then none else
  match rest.splitOn " " with
  | ints :: tl :: sl :: fuel :: wantT :: sexpParts =>
    let interrupts := if ints == "-" then [] else (ints.splitOn ",").filterMap (·.toNat?)
    match Sexp.parseAll (" ".intercalate sexpParts) with
    | some [.list (.atom "astx" :: .atom nerr :: items)] =>
      if nerr != "0" then some "OK (parse-error)" else
      match programOf items with
      | none => some "ERR bad-astx"
      | some parsed =>
        match parsed.unsupported with
        | some w => some s!"OK (machine (unsupported {Hex.encode w}))"
        | none =>
          if parsed.prog.toplevel.isEmpty then some "OK (machine (ok none) (interrupted 0) (empty))" else
          let s0 := init parsed.prog interrupts (optNat tl) (optNat sl)
          let r := runLoop (fuel.toNat?.getD 100000) s0 (wantT != "notrace")
            { outcome := "", interrupted := 0, final := none, trace := #[] }
          let endS := match r.final with
            | some s => match s.frames with
              | f :: _ => s!"(end {s.ticks} {s.frames.length} {f.exprs.length} {f.values.length} {f.blocks.length})"
              | [] => "(end none)"
            | none => "(end none)"
          let out := match r.final with | some s => s.out | none => ""
          some s!"OK (machine {r.outcome} (interrupted {r.interrupted}) {endS} (out {Hex.encode out}) (errout ) (trace {Hex.encode ("\n".intercalate r.trace.toList)}))"
    | _ => some "ERR bad-sexp"
  | _ => some "ERR args"

end DriverMachine
