import GardenVerif.Driver.Machine
import GardenVerif.Model.Validators
/-! Driver ops of the validator properties C19–C22.

* `refsem_run <cl:0|1> <fuel> <astx>`: run the reference semantics on the tree of the real parser:
  `OK (refsem <outcome> (out <hex>))`.
* `alpha_check <site> <x> <y> <astx before> <astx after>` (C19): evaluate `alphaCheck` (is the
  after-tree exactly `renProg ⟨site,x,y⟩ before`?), freshness of `y`, the name bound at the site,
  whether the program is closure-free (covered by `alpha_sound_partial`) and the node ids of the
  uses that resolve to the site: `OK (alpha <check> <fresh> <name|-> <closurefree> (uses id…))`.
  `<site>` is `f:<fun>:<i>` or `n:<id>:<case>:<i>`.
-/

namespace DriverValidators
open Machine (Expr Case Dest Program FunDef)
open Validators

def parseProg (s : Sexp) : Option DriverMachine.Parsed :=
  match s with
  | .list (.atom "astx" :: .atom _ :: items) => DriverMachine.programOf items
  | _ => none

def parseErrs (s : Sexp) : Nat :=
  match s with
  | .list (.atom "astx" :: .atom n :: _) => n.toNat?.getD 1
  | _ => 1

def siteOf (s : String) : Option Site :=
  match s.splitOn ":" with
  | ["f", f, i] => i.toNat?.map (Site.fparam f)
  | ["n", id, c, i] => do some (Site.node (← id.toNat?) (← c.toNat?) (← i.toNat?))
  | _ => none

mutual
partial def hasLambda : Expr → Bool
  | .lambda .. => true
  | .binop _ _ _ l r => hasLambda l || hasLambda r
  | .letE _ _ _ e => hasLambda e
  | .assign _ _ _ e => hasLambda e
  | .update _ _ _ _ e => hasLambda e
  | .ifE _ _ c t e => hasLambda c || t.any hasLambda || (match e with | some b => b.any hasLambda | none => false)
  | .whileE _ _ c b => hasLambda c || b.any hasLambda
  | .forE _ _ _ e b => hasLambda e || b.any hasLambda
  | .matchE _ _ s cs => hasLambda s || cs.any fun | .mk _ _ b => b.any hasLambda
  | .ret _ _ (some e) => hasLambda e
  | .list _ _ es => es.any hasLambda
  | .tuple _ _ es => es.any hasLambda
  | .call _ _ r as => hasLambda r || as.any hasLambda
  | .paren _ _ e => hasLambda e
  | _ => false
end

def progHasLambda (p : Program) : Bool :=
  p.funs.any (fun d => d.body.any hasLambda) || p.toplevel.any hasLambda

def b01 (b : Bool) : String := if b then "1" else "0"

def outcomeStr : RefSem.Res → String
  | .val _ => "finished"
  | .ret _ => "finished"
  | .brk => "error loop-exit-outside-loop"
  | .cont => "error loop-exit-outside-loop"
  | .err k => "error " ++ k.toString
  | .unsup w => "unsupported " ++ Hex.encode w
  | .timeout => "timeout"

def handleRefsem (rest : String) : String :=
  match rest.splitOn " " with
  | cl :: fuel :: sexpParts =>
    match Sexp.parseAll (" ".intercalate sexpParts) with
    | some [sx] =>
      if parseErrs sx != 0 then "OK (refsem parse-error)" else
      match parseProg sx with
      | none => "ERR bad-astx"
      | some parsed =>
        match parsed.unsupported with
        | some w => s!"OK (refsem (unsupported {Hex.encode w}) (out ))"
        | none =>
          let r := RefSem.run (cl == "1") parsed.prog (fuel.toNat?.getD 10000)
          s!"OK (refsem ({outcomeStr r.1}) (out {Hex.encode (String.join r.2.out)}))"
    | _ => "ERR bad-sexp"
  | _ => "ERR args"

def handleAlpha (rest : String) : String :=
  match rest.splitOn " " with
  | site :: x :: y :: sexpParts =>
    match siteOf site, Sexp.parseAll (" ".intercalate sexpParts) with
    | some st, some [sa, sb] =>
      if parseErrs sa != 0 || parseErrs sb != 0 then "OK (alpha parse-error)" else
      match parseProg sa, parseProg sb with
      | some pa, some pb =>
        let chk := alphaCheck pa.prog pb.prog st x y
        let fr := freshProg y pa.prog
        let nm := match nameAt pa.prog st with | some n => n | none => "-"
        let uses := resolve pa.prog st x
        s!"OK (alpha {b01 chk} {b01 fr} {nm} {b01 (!progHasLambda pa.prog)} (uses{String.join (uses.map fun i => s!" {i}")}))"
      | _, _ => "ERR bad-astx"
    | _, _ => "ERR bad-args"
  | _ => "ERR args"

/-- `fixes_check <hexsrc> <start>:<end>:<hexnew> …` (C22): the exact model of `apply_fixes` on the
real fix list (bytes): `OK (fixes <disjoint-and-in-bounds 0|1> <hex result | PANIC> <hex result of the skip-overlap variant>)`. -/
def handleFixes (rest : String) : String :=
  match rest.splitOn " " with
  | srcHex :: fixParts =>
    match Hex.decodeBytes srcHex with
    | none => "ERR bad-hex"
    | some src =>
      let fixes : List (Option (Fix UInt8)) := (fixParts.filter (· != "")).map fun f =>
        match f.splitOn ":" with
        | [a, b, c] => do
          let nw ← Hex.decodeBytes c
          some { start := ← a.toNat?, stop := ← b.toNat?, new := nw }
        | _ => none
      if fixes.any Option.isNone then "ERR bad-fix" else
      let fixes := fixes.filterMap id
      let asc := fixes.mergeSort (fun a b => decide (a.start ≤ b.start))
      let disj := fixesDisjointSorted src.length 0 asc
      let skip := Hex.encodeBytes (applyFixesSkip src fixes)
      match applyFixes src fixes with
      | none => s!"OK (fixes {b01 disj} PANIC {skip})"
      | some r => s!"OK (fixes {b01 disj} {Hex.encodeBytes r} {skip})"
  | _ => "ERR args"

def handle (op : String) (rest : String) : Option String :=
  if op == "refsem_run" then some (handleRefsem rest)
  else if op == "alpha_check" then some (handleAlpha rest)
  else if op == "fixes_check" then some (handleFixes rest)
  else none

end DriverValidators
