import Std.Data.HashSet
import GardenVerif.Driver.Sexp
import GardenVerif.Model.Nrepl
/-!
Driver op for M10: `nrepl_accept <trace>` — is the observable trace of one real nREPL connection
produced by some run of the model?

Wire format (one S-expression):
`(trace (client C*) (server M*))` with
  C ::= (describe n) | (unknownop n) | (ls n) | (clone n) | (close n i) | (interrupt n i)
      | (query n i) | (eval n i START (acts A*) (loop A*) FIN)
  n = number of server messages the client had received before sending this one (the reader handles
      it after those were appended), i = session number (0 = no such session);
  START ::= (ok) | (warn) | (parseerr);  A ::= (out hex) | (err hex) | (def hexname hexval) | (nop)
      | (raise);  FIN ::= (lit hex) | (var hexname)
  M ::= (out r hex) | (err r hex) | (value r hex) | (done r ST)
  ST ::= ok | evalerror | interrupted | unknownsession | sessionclosed | operror | (newsession k)
      | (sessions k*)
Request ids are the index of the client message (the model's `nextRid`).  An observed `err`
message matches either a stderr chunk with exactly that text or a worker-built error/diagnostic
text (the text of parse errors / exceptions / warnings is not modelled).

The search is a depth-first search over the model's interleavings with a visited set; it is used
only to validate the model against the implementation, never in a theorem.
Answers: `OK accept <nodes>`, `OK reject <nodes> <max matched server messages>`, `OK budget`.
-/

namespace DriverNrepl
open Nrepl

inductive Obs where
  | chunk (k : Stream) (r : Nat) (d : Data)   -- `err` chunks are ambiguous, see `matches`
  | value (r : Nat) (v : Data)
  | done (r : Nat) (st : Status)
  deriving Repr, Inhabited

structure Prog where
  start : StartOutcome
  acts : List Act
  loop : List Act
  fin : ValSrc
  deriving Repr, Inhabited

structure Cli where
  seen : Nat
  msg : ClientMsg
  prog : Option Prog
  deriving Repr, Inhabited

def hexData (s : String) : Option Data :=
  if s == "-" then some [] else (Hex.decode s).map String.toList

def natOf : Sexp → Option Nat
  | .atom s => s.toNat?
  | _ => none

def actOf : Sexp → Option Act
  | .list [.atom "out", .atom h] => (hexData h).map (.print .out)
  | .list [.atom "err", .atom h] => (hexData h).map (.print .err)
  | .list [.atom "def", .atom x, .atom v] =>
    match hexData x, hexData v with
    | some x, some v => some (.define x v)
    | _, _ => none
  | .list [.atom "nop"] => some .nop
  | .list [.atom "raise"] => some (.raise [])
  | _ => none

def cliOf : Sexp → Option Cli
  | .list [.atom "describe", n] => (natOf n).map fun n => ⟨n, .describe, none⟩
  | .list [.atom "unknownop", n] => (natOf n).map fun n => ⟨n, .unknownOp, none⟩
  | .list [.atom "ls", n] => (natOf n).map fun n => ⟨n, .lsSessions, none⟩
  | .list [.atom "clone", n] => (natOf n).map fun n => ⟨n, .clone, none⟩
  | .list [.atom "close", n, i] => match natOf n, natOf i with
    | some n, some i => some ⟨n, .close i, none⟩
    | _, _ => none
  | .list [.atom "interrupt", n, i] => match natOf n, natOf i with
    | some n, some i => some ⟨n, .interrupt i, none⟩
    | _, _ => none
  | .list [.atom "query", n, i] => match natOf n, natOf i with
    | some n, some i => some ⟨n, .evalLike i .query, some ⟨.query, [], [], .lit []⟩⟩
    | _, _ => none
  | .list [.atom "eval", n, i, .list [.atom st], .list (.atom "acts" :: acts),
           .list (.atom "loop" :: loop), fin] =>
    let start : Option StartOutcome := match st with
      | "ok" => some (.ok none) | "warn" => some (.ok (some [])) | "parseerr" => some (.parseError [])
      | _ => none
    let fin : Option ValSrc := match fin with
      | .list [.atom "lit", .atom h] => (hexData h).map .lit
      | .list [.atom "var", .atom h] => (hexData h).map .var
      | _ => none
    match natOf n, natOf i, start, acts.mapM actOf, loop.mapM actOf, fin with
    | some n, some i, some st, some acts, some loop, some fin =>
      some ⟨n, .evalLike i .eval, some ⟨st, acts, loop, fin⟩⟩
    | _, _, _, _, _, _ => none
  | _ => none

def statusOf : Sexp → Option Status
  | .atom "ok" => some .ok
  | .atom "evalerror" => some .evalError
  | .atom "interrupted" => some .interrupted
  | .atom "unknownsession" => some .unknownSession
  | .atom "sessionclosed" => some .sessionClosed
  | .atom "operror" => some .opError
  | .list [.atom "newsession", k] => (natOf k).map .newSession
  | .list (.atom "sessions" :: ks) => (ks.mapM natOf).map .sessions
  | _ => none

def obsOf : Sexp → Option Obs
  | .list [.atom "out", r, .atom h] => match natOf r, hexData h with
    | some r, some d => some (.chunk .out r d)
    | _, _ => none
  | .list [.atom "err", r, .atom h] => match natOf r, hexData h with
    | some r, some d => some (.chunk .err r d)
    | _, _ => none
  | .list [.atom "value", r, .atom h] => match natOf r, hexData h with
    | some r, some d => some (.value r d)
    | _, _ => none
  | .list [.atom "done", r, st] => match natOf r, statusOf st with
    | some r, some st => some (.done r st)
    | _, _ => none
  | _ => none

/-- Does the model message `m` match the observed message? -/
def matchesObs (o : Obs) (m : Msg) : Bool :=
  match o, m with
  | .chunk k r d, .chunk k' r' d' => k == k' && r == r' && d == d'
  | .chunk .err r _, .res r' (.errText _) => r == r'
  | .chunk .err r _, .res r' (.warn _) => r == r'
  | .value r v, .res r' (.value v') => r == r' && v == v'
  | .done r st, .done r' st' => r == r' && st == st'
  | _, _ => false

structure Node where
  s : State
  ci : Nat
  si : Nat
  /-- per session: remaining actions of the running eval -/
  progs : List (Nat × List Act)

def wpcKey : WPc → List Nat
  | .idle => [0] | .exited => [1]
  | .dequeued q => [2, q.rid] | .ready q => [3, q.rid] | .parsed r => [4, r]
  | .evaluating r => [5, r] | .running r => [6, r] | .flagSeen r => [7, r]
  | .evalDone r res => [8, r, resKey res] | .stopRequested r res => [9, r, resKey res]
  | .joined r res => [10, r, resKey res] | .tookOut r res d => [11, r, resKey res, d.length]
  | .drainedOut r res => [12, r, resKey res] | .tookErr r res d => [13, r, resKey res, d.length]
  | .sending r msgs => [14, r, msgs.length]
where resKey : Res → Nat
  | .value _ => 0 | .error _ => 1 | .interrupted => 2

def fpcKey : FPc → List Nat
  | .none => [0] | .waiting _ => [1] | .tookOut _ d => [2, d.length] | .mid _ => [3]
  | .tookErr _ d => [4, d.length] | .exited => [5]

def nodeKey (n : Node) : List Nat :=
  let sessKeys := (List.range (n.s.nextSess + 1)).flatMap fun i =>
    let ss := n.s.sess i
    [if ss.live then 1 else 0, ss.queue.length, if ss.flag then 1 else 0, if ss.stop then 1 else 0,
     ss.outBuf.length, ss.errBuf.length, ss.defs.length] ++ wpcKey ss.wpc ++ fpcKey ss.fpc ++
    [((n.progs.lookup i).map List.length).getD 0, 99999]
  let rk := match n.s.rpc with
    | .idle => 0 | .closing _ _ => 1 | .reply _ => 2
  [n.ci, n.si, rk] ++ sessKeys

def progOf (clients : Array Cli) (rid : Nat) : Prog :=
  ((clients[rid]?).bind (·.prog)).getD ⟨.query, [], [], .lit []⟩

def setProg (ps : List (Nat × List Act)) (i : Nat) (a : List Act) : List (Nat × List Act) :=
  (i, a) :: ps.filter (fun p => p.1 != i)

/-- Next unmatched observed chunk of stream `k` for request `r` (its data), if any. -/
def nextChunk (obs : Array Obs) (si : Nat) (k : Stream) (r : Nat) (skip : Nat) : Option Data :=
  let rec go (j : Nat) (skip : Nat) (fuel : Nat) : Option Data :=
    match fuel with
    | 0 => none
    | fuel + 1 =>
      match obs[j]? with
      | none => none
      | some (.chunk k' r' d) =>
        if k' == k && r' == r then (if skip = 0 then some d else go (j + 1) (skip - 1) fuel)
        else go (j + 1) skip fuel
      | some _ => go (j + 1) skip fuel
  go si skip (obs.size + 1)

/-- Candidate labels at a node, with the updated program table. Sends first. -/
def candidates (clients : Array Cli) (obs : Array Obs) (n : Node) :
    List (Label × List (Nat × List Act) × Nat) :=
  let s := n.s
  let sessIds := (List.range (s.nextSess + 1)).filter (· != 0)
  let perSess (i : Nat) : List (Label × List (Nat × List Act) × Nat) :=
    let ss := s.sess i
    let remaining := (n.progs.lookup i).getD []
    let w : List (Label × List (Nat × List Act) × Nat) :=
      match ss.wpc with
      | .idle => if ss.queue.isEmpty then (if ss.live then [] else [(.wExit i, n.progs, n.ci)])
                 else [(.wDequeue i, n.progs, n.ci)]
      | .exited => []
      | .dequeued _ => [(.wReset i, n.progs, n.ci)]
      | .ready q =>
        let p := progOf clients q.rid
        [(.wStart i p.start, setProg n.progs i p.acts, n.ci)]
      | .parsed _ => [(.wSpawn i, n.progs, n.ci)]
      | .evaluating r =>
        let p := progOf clients r
        if remaining.isEmpty && p.loop.isEmpty then [(.wFinish i p.fin, n.progs, n.ci)]
        else [(.wTest i, n.progs, n.ci)]
      | .running r =>
        let p := progOf clients r
        let rem := if remaining.isEmpty then p.loop else remaining
        match rem with
        | [] => []
        | a :: rest =>
          -- a print must keep the buffer a prefix of the next chunk still to be observed
          let ok : Bool := match a with
            | .print k d =>
              let inflight : Bool := match k, ss.fpc with
                | .out, .tookOut _ _ => true
                | .err, .tookErr _ _ => true
                | _, _ => false
              let buf := (if k == .out then ss.outBuf else ss.errBuf) ++ d
              match nextChunk obs n.si k r (if inflight then 1 else 0) with
              | some e => buf.isPrefixOf e
              | none => false
            | _ => true
          if ok then [(.wAct i a, setProg n.progs i rest, n.ci)] else []
      | .flagSeen _ => [(.wClear i, n.progs, n.ci)]
      | .evalDone _ _ => [(.wStop i, n.progs, n.ci)]
      | .stopRequested _ _ => [(.wJoin i, n.progs, n.ci)]
      | .joined r _ =>
        let ok := ss.outBuf.isEmpty || nextChunk obs n.si .out r 0 == some ss.outBuf
        if ok then [(.wTakeOut i, n.progs, n.ci)] else []
      | .tookOut _ _ _ => [(.wSendOut i, n.progs, n.ci)]
      | .drainedOut r _ =>
        let ok := ss.errBuf.isEmpty || nextChunk obs n.si .err r 0 == some ss.errBuf
        if ok then [(.wTakeErr i, n.progs, n.ci)] else []
      | .tookErr _ _ _ => [(.wSendErr i, n.progs, n.ci)]
      | .sending _ _ => [(.wSend i, n.progs, n.ci)]
    let f : List (Label × List (Nat × List Act) × Nat) :=
      match ss.fpc with
      | .waiting r =>
        let stop := if ss.stop then [(Label.fStop i, n.progs, n.ci)] else []
        -- a pass over two empty buffers is a no-op; a take must equal the next observed chunk
        let take :=
          if ss.outBuf.isEmpty && ss.errBuf.isEmpty then []
          else if ss.outBuf.isEmpty || nextChunk obs n.si .out r 0 == some ss.outBuf then
            [(Label.fTakeOut i, n.progs, n.ci)]
          else []
        stop ++ take
      | .tookOut _ _ => [(.fSendOut i, n.progs, n.ci)]
      | .mid r =>
        if ss.errBuf.isEmpty || nextChunk obs n.si .err r 0 == some ss.errBuf then
          [(.fTakeErr i, n.progs, n.ci)] else []
      | .tookErr _ _ => [(.fSendErr i, n.progs, n.ci)]
      | _ => []
    f ++ w
  let reader : List (Label × List (Nat × List Act) × Nat) :=
    match s.rpc with
    | .idle =>
      match clients[n.ci]? with
      | some c => if c.seen ≤ n.si then [(.client c.msg, n.progs, n.ci + 1)] else []
      | none => []
    | _ => [(.reader, n.progs, n.ci)]
  let all := sessIds.flatMap perSess ++ reader
  -- sends (labels that append a message) first
  let isSend (l : Label) : Bool := match l with
    | .wSend _ | .wSendOut _ | .wSendErr _ | .fSendOut _ | .fSendErr _ | .reader => true
    | _ => false
  all.filter (fun c => isSend c.1) ++ all.filter (fun c => !isSend c.1)

def quiescent (s : State) : Bool :=
  (List.range (s.nextSess + 1)).all fun i =>
    let ss := s.sess i
    ss.queue.isEmpty && (match ss.wpc with | .idle | .exited => true | _ => false)

structure Search where
  visited : Std.HashSet (List Nat) := {}
  nodes : Nat := 0
  best : Nat := 0

partial def dfs (clients : Array Cli) (obs : Array Obs) (budget : Nat) (n : Node) :
    StateM Search Bool := do
  let st ← get
  if st.nodes ≥ budget then return false
  let key := nodeKey n
  if st.visited.contains key then return false
  set { st with visited := st.visited.insert key, nodes := st.nodes + 1, best := max st.best n.si }
  if n.ci == clients.size && n.si == obs.size && quiescent n.s &&
     (match n.s.rpc with | .idle => true | _ => false) then
    return true
  for (l, progs, ci) in candidates clients obs n do
    match step n.s l with
    | none => pure ()
    | some s' =>
      let oldLen := n.s.respQ.length
      let newLen := s'.respQ.length
      if newLen == oldLen then
        if (← dfs clients obs budget ⟨s', ci, n.si, progs⟩) then return true
      else
        match s'.respQ.getLast?, obs[n.si]? with
        | some m, some o =>
          if matchesObs o m then
            if (← dfs clients obs budget ⟨s', ci, n.si + 1, progs⟩) then return true
        | _, _ => pure ()
  return false

def accept (clients : Array Cli) (obs : Array Obs) (budget : Nat) : String :=
  let (ok, st) := (dfs clients obs budget ⟨init, 0, 0, []⟩).run {}
  if ok then s!"OK accept {st.nodes}"
  else if st.nodes ≥ budget then "OK budget"
  else s!"OK reject {st.nodes} {st.best}"

def handle (op : String) (rest : String) : Option String :=
  if op != "nrepl_accept" then none else
  match Sexp.parseAll rest with
  | some [.list [.atom "trace", .list (.atom "client" :: cs), .list (.atom "server" :: ms)]] =>
    match cs.mapM cliOf, ms.mapM obsOf with
    | some cs, some ms => some (accept cs.toArray ms.toArray 30000)
    | none, _ => some "ERR client"
    | _, none => some "ERR server"
  | _ => some "ERR parse"

end DriverNrepl
