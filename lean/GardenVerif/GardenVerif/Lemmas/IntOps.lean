import GardenVerif.Model.IntOps
/-!
Helper lemmas for Props/C04.lean: `Int64.toInt` of the model's `core` functions
(`checked_div`, `wrapping_abs`, `rem_euclid`) in terms of mathematical integers, and the
bounds that make `bmod (2^64)` the identity. Core Lean only (no Mathlib).
-/

namespace IntOps

theorem toInt_neg_one : (-1 : Int64).toInt = -1 := by decide
theorem toInt_u32Max : u32Max.toInt = 4294967295 := by decide

theorem bmod64 (n : Int) : Int.bmod n (2^64) =
    if n % 18446744073709551616 < 9223372036854775808 then n % 18446744073709551616
    else n % 18446744073709551616 - 18446744073709551616 := by
  rw [Int.bmod_def]
  have : ((2 ^ 64 : Nat) : Int) = 18446744073709551616 := by decide
  rw [this]
  rfl

theorem fits_iff (n : Int) : fits n = true ↔ (-9223372036854775808 ≤ n ∧ n < 9223372036854775808) := by
  simp [fits]

theorem fits_toInt (a : Int64) : fits a.toInt = true := by
  have h1 := Int64.le_toInt a
  have h2 := Int64.toInt_lt a
  rw [fits_iff]; omega

theorem bmod_of_fits (n : Int) (h : fits n = true) : Int.bmod n (2^64) = n := by
  rw [fits_iff] at h
  rw [bmod64]; split <;> omega

theorem tdiv_bounds (x y : Int) (hx : -9223372036854775808 ≤ x) (hx' : x < 9223372036854775808)
    (hy1 : -9223372036854775808 ≤ y) (hy2 : y < 9223372036854775808)
    (hy : y ≠ 0) (h : ¬(x = -9223372036854775808 ∧ y = -1)) :
    -9223372036854775808 ≤ x.tdiv y ∧ x.tdiv y < 9223372036854775808 := by
  have hq := Int.natAbs_tdiv_le_natAbs x y
  have hd := Int.mul_tdiv_add_tmod x y
  have hr : (x.tmod y).natAbs < y.natAbs := by
    rw [Int.natAbs_tmod]; exact Nat.mod_lt _ (by omega)
  constructor
  · omega
  · apply Classical.byContradiction
    intro hc
    have hq2 : x.tdiv y = 9223372036854775808 := by omega
    have hx2 : x = -9223372036854775808 := by omega
    rw [hq2] at hd
    omega

theorem toInt_ne_zero {b : Int64} (hb : b ≠ 0) : b.toInt ≠ 0 := by
  intro h; apply hb; apply Int64.toInt_inj.mp; simpa using h

theorem toInt_min : Int64.minValue.toInt = -9223372036854775808 := by decide

theorem eq_min_iff (a : Int64) : a = Int64.minValue ↔ a.toInt = -9223372036854775808 := by
  rw [← toInt_min, Int64.toInt_inj]

theorem eq_neg_one_iff (a : Int64) : a = -1 ↔ a.toInt = -1 := by
  rw [← toInt_neg_one, Int64.toInt_inj]

/-- Division: quotient of the non-overflowing cases is exactly truncated division. -/
theorem toInt_div_of_no_overflow (a b : Int64) (hb : b ≠ 0) (h : ¬(a = Int64.minValue ∧ b = -1)) :
    (a / b).toInt = a.toInt.tdiv b.toInt := by
  rw [Int64.toInt_div]
  apply bmod_of_fits
  rw [fits_iff]
  have := tdiv_bounds a.toInt b.toInt (Int64.le_toInt a) (Int64.toInt_lt a) (Int64.le_toInt b)
    (Int64.toInt_lt b) (toInt_ne_zero hb) (by rw [eq_min_iff, eq_neg_one_iff] at h; exact h)
  exact this

theorem toInt_wrappingAbs (b : Int64) :
    (wrappingAbs b).toInt = if b.toInt = -9223372036854775808 then -9223372036854775808 else (b.toInt.natAbs : Int) := by
  have h1 := Int64.le_toInt b
  have h2 := Int64.toInt_lt b
  unfold wrappingAbs
  split
  · rename_i hlt
    rw [Int64.lt_iff_toInt_lt] at hlt
    simp only [Int64.toInt_zero] at hlt
    rw [Int64.toInt_sub, bmod64]
    simp only [Int64.toInt_zero]
    split <;> split <;> omega
  · rename_i hlt
    rw [Int64.lt_iff_toInt_lt] at hlt
    simp only [Int64.toInt_zero] at hlt
    split <;> omega

theorem toInt_remEuclid (a b : Int64) (hb : b ≠ 0) :
    (remEuclid a b).toInt = a.toInt % b.toInt := by
  have hb' := toInt_ne_zero hb
  have h1 := Int64.le_toInt b
  have h2 := Int64.toInt_lt b
  have e1 := Int.emod_nonneg a.toInt hb'
  have e2 := Int.emod_lt a.toInt hb'
  have ht : a.toInt.tmod b.toInt = a.toInt % b.toInt - ((if 0 ≤ a.toInt ∨ b.toInt ∣ a.toInt then 0 else b.toInt.natAbs : Nat) : Int) :=
    Int.tmod_eq_emod
  unfold remEuclid
  simp only
  split
  · rename_i hlt
    rw [Int64.lt_iff_toInt_lt, Int64.toInt_mod] at hlt
    simp only [Int64.toInt_zero] at hlt
    rw [Int64.toInt_add, Int64.toInt_mod, toInt_wrappingAbs b, bmod64]
    split at ht
    · omega
    · split <;> split <;> omega
  · rename_i hlt
    rw [Int64.lt_iff_toInt_lt, Int64.toInt_mod] at hlt
    simp only [Int64.toInt_zero] at hlt
    rw [Int64.toInt_mod]
    split at ht <;> omega

/-- A base of absolute value at least 2 raised to a power of at least 64 is not an `i64`. -/
theorem pow_not_fits (x : Int) (n : Nat) (hx : 2 ≤ x.natAbs) (hn : 64 ≤ n) : fits (x ^ n) = false := by
  have h1 : (x ^ n).natAbs = x.natAbs ^ n := Int.natAbs_pow x n
  have h2 : 2 ^ n ≤ x.natAbs ^ n := Nat.pow_le_pow_left hx n
  have h3 : 2 ^ 64 ≤ 2 ^ n := Nat.pow_le_pow_right (by decide) hn
  cases hf : fits (x ^ n) with
  | false => rfl
  | true =>
    rw [fits_iff] at hf
    omega

theorem toInt_ofInt_of_fits (n : Int) (h : fits n = true) : (Int64.ofInt n).toInt = n := by
  rw [fits_iff] at h
  exact Int64.toInt_ofInt_of_le (by omega) (by omega)

/-- `checkedPow` is exactly "the power, if it is an `i64`" (the early exit is redundant). -/
theorem checkedPow_spec (a : Int64) (n : Nat) :
    checkedPow a n = if fits (a.toInt ^ n) then some (Int64.ofInt (a.toInt ^ n)) else none := by
  unfold checkedPow
  by_cases h : 64 ≤ n ∧ 2 ≤ a.toInt.natAbs
  · simp [h, pow_not_fits a.toInt n h.2 h.1]
  · simp [h]

end IntOps
