import GardenVerif.Model.Machine
import GardenVerif.Generated.Tables
/-!
M6: the JSON session (src/json_session.rs, src/commands.rs, src/env.rs `Stack::pop_to_toplevel`,
src/eval.rs `eval`, `eval_toplevel_exprs(_then_stop)`, `eval_tests_until_error`,
`push_test_stackframe`) on top of the evaluator model M4 (`Machine.step`).

Session state = the evaluator state (`Machine.State`: the call stack PERSISTS between requests,
the loaded functions / enums live in `prog`) + the table of loaded tests.
A request is what `handle_request` receives, with the source text already parsed by the REAL parser
(the harness passes the `astx` tree), the REPL command split by `classify` below
(`parse_command` / `Command::from_string`), whose vocabulary is `Tables.replCommands` (regenerated from the Rust).

Every `expect` / `unwrap` / index on the modelled path is an explicit outcome:
`sessionPanic` for sites in json_session.rs / commands.rs / env.rs, `evalPanic` for sites inside
`eval` (a `Machine.step` panic). Running user code is `Machine.step` iterated with fuel
(`outOfFuel` is its own outcome: non-termination of user code is out of scope).

`Cfg` selects the code being described: `Cfg.patched` = /repo HEAD (which contains the commits
"fix: :skip and :replace with nothing pending answer a message instead of panicking" and
"fix: :abort also drops the toplevel frame's pending expressions"); `Cfg.pinned` = HEAD with those two
session-layer fixes reverted (the theorems are about `patched`; the session-layer defects they repaired are
witnessed on `pinned`). The evaluator is HEAD's in both (the if/match restore fix now lives in
`Machine.dispatch`).

Import-free apart from M4 and the generated tables (the driver links it).
-/
namespace Session
open Machine

/-- Which of the session-layer fixes are applied. -/
structure Cfg where
  /-- `:skip` with nothing pending answers a message (before the fix: `expect` panic) -/
  skipGuard : Bool
  /-- `:replace` with nothing pending answers a message and never pops the frame's last
  (placeholder) value (before the fix: pops one value unconditionally) -/
  replaceGuard : Bool
  /-- `pop_to_toplevel` clears frame 0's `exprs_to_eval` -/
  abortClears : Bool
  deriving DecidableEq, Repr

def Cfg.pinned : Cfg := ⟨false, false, false⟩
/-- /repo HEAD. -/
def Cfg.patched : Cfg := ⟨true, true, true⟩

-- ---------------------------------------------------------------- requests

structure TestDef where
  name : String
  body : List Expr

/-- A toplevel item of a `run` request, as the real parser produced it. -/
inductive Item where
  | funD (d : FunDef)
  | enumD (d : EnumDef)
  | testD (t : TestDef)
  | expr (e : Expr)
  | block (es : List Expr)
  /-- struct / method / import / hinted function: outside the modelled fragment -/
  | other (what : String)

/-- `Command` (src/commands.rs), one constructor per variant of `Tables.replCommands`.
Arguments that do not influence the session state are reduced to "given or not". -/
inductive Cmd where
  | abort | doc | forget (name : Option String) | forgetCalls | forgetLocal (name : Option String)
  | frameStatements | frameValues | functions | globals | help
  | load (arg : Bool) | locals | methods | namespace_ (arg : Bool) | namespaces | parse | quit
  /-- `none` = the argument does not parse as an expression -/
  | replace (e : Option Expr)
  | resume | search | skip | source
  | test (name : Option String) | stack | trace
  | type_ (e : Option Expr)
  | types | uptime | version

/-- The `Command` variant name of each constructor, as it appears in `Tables.replCommands`. -/
def Cmd.variant : Cmd → String
  | .abort => "Abort" | .doc => "Doc" | .forget _ => "Forget" | .forgetCalls => "ForgetCalls"
  | .forgetLocal _ => "ForgetLocal" | .frameStatements => "FrameStatements"
  | .frameValues => "FrameValues" | .functions => "Functions" | .globals => "Globals"
  | .help => "Help" | .load _ => "Load" | .locals => "Locals" | .methods => "Methods"
  | .namespace_ _ => "Namespace" | .namespaces => "Namespaces" | .parse => "Parse" | .quit => "Quit"
  | .replace _ => "Replace" | .resume => "Resume" | .search => "Search" | .skip => "Skip"
  | .source => "Source" | .test _ => "Test" | .stack => "Stack" | .trace => "Trace"
  | .type_ _ => "Type" | .types => "Types" | .uptime => "Uptime" | .version => "Version"

/-- Build the command for a variant name; `args` is the raw argument text (`Some(args)`),
`inline` the argument parsed as an inline expression (`none` = parse error). -/
def Cmd.ofVariant (variant : String) (args : Option String) (inline : Option Expr) : Option Cmd :=
  match variant with
  | "Abort" => some .abort | "Doc" => some .doc | "Forget" => some (.forget args)
  | "ForgetCalls" => some .forgetCalls | "ForgetLocal" => some (.forgetLocal args)
  | "FrameStatements" => some .frameStatements | "FrameValues" => some .frameValues
  | "Functions" => some .functions | "Globals" => some .globals | "Help" => some .help
  | "Load" => some (.load args.isSome) | "Locals" => some .locals | "Methods" => some .methods
  | "Namespace" => some (.namespace_ args.isSome) | "Namespaces" => some .namespaces
  | "Parse" => some .parse | "Quit" => some .quit | "Replace" => some (.replace inline)
  | "Resume" => some .resume | "Search" => some .search | "Skip" => some .skip
  | "Source" => some .source | "Test" => some (.test args) | "Stack" => some .stack
  | "Trace" => some .trace | "Type" => some (.type_ inline) | "Types" => some .types
  | "Uptime" => some .uptime | "Version" => some .version
  | _ => none

-- `parse_command` / `Command::from_string` on the raw input text

def isWs (c : Char) : Bool := c == ' ' || c == '\t' || c == '\n' || c == '\r'

def trimChars (cs : List Char) : List Char :=
  ((cs.dropWhile isWs).reverse.dropWhile isWs).reverse

/-- `s.split_once(' ')` -/
def splitOnceSpace : List Char → Option (List Char × List Char)
  | [] => none
  | c :: cs =>
    if c == ' ' then some ([], cs)
    else match splitOnceSpace cs with
      | some (a, b) => some (c :: a, b)
      | none => none

def lowerChar (c : Char) : Char :=
  if 'A' ≤ c ∧ c ≤ 'Z' then Char.ofNat (c.toNat + 32) else c

inductive InputKind where
  /-- a known command: its table row and raw arguments -/
  | command (row : Tables.ReplCommand) (args : Option String)
  | noSuchCommand
  | source

/-- `Command::from_string`: trim, split at the first space, lower-case the name, look it up;
otherwise `NoSuchCommand` iff the UNTRIMMED input starts with `:`. -/
def classify (input : String) : InputKind :=
  let t := trimChars input.toList
  let (name, args) := match splitOnceSpace t with
    | some (n, a) => (n, some (String.ofList a))
    | none => (t, none)
  let lname := String.ofList (name.map lowerChar)
  match Tables.replCommands.find? (fun r => r.name == lname) with
  | some row => .command row args
  | none => if input.toList.head? == some ':' then .noSuchCommand else .source

inductive Req where
  /-- `{"method":"run","input":…}`: the raw input, the input parsed as toplevel items
  (`none` = parse errors) and the command arguments parsed as an inline expression -/
  | run (id : Option Nat) (input : String) (items : Option (List Item)) (inline : Option Expr)
  /-- not JSON, or JSON that is not a request -/
  | malformed
  | interrupt
  /-- `load` / `eval_up_to`: answered by the implementation, not modelled -/
  | other (what : String)

-- ---------------------------------------------------------------- responses

inductive Resp where
  /-- `Evaluate { value: Ok(..) }`; `value` = the displayed value of the last expression -/
  | evalOk (id : Option Nat) (value : Option String) (frame : String)
  /-- `Evaluate { value: Err(..) }` for a runtime error (or `Interrupted` kind for a toplevel eval) -/
  | evalErr (id : Option Nat) (e : Err) (frame : String)
  | parseErr
  /-- `RunCommand`; `msg` is a canonical tag for the message -/
  | cmd (id : Option Nat) (msg : String) (frame : String)
  | malformed (id : Option Nat)
  | interrupted

inductive Outcome where
  | ok
  /-- a panic site of json_session.rs / commands.rs / env.rs -/
  | sessionPanic (site : String)
  /-- a panic site inside `eval` (src/eval.rs) -/
  | evalPanic (site : String)
  | outOfFuel
  /-- `:quit` -/
  | exit
  | unsupported (what : String)
  deriving DecidableEq, Repr

structure State where
  m : Machine.State
  tests : List TestDef

structure Result where
  state : State
  responses : List Resp
  outcome : Outcome
  /-- text of the `printed` notifications of this request -/
  printed : String

def Result.isPanic (r : Result) : Bool :=
  match r.outcome with
  | .sessionPanic _ => true
  | .evalPanic _ => true
  | _ => false

def Result.isSessionPanic (r : Result) : Bool :=
  match r.outcome with
  | .sessionPanic _ => true
  | _ => false

-- ---------------------------------------------------------------- the evaluator inside a session

/-- One evaluator step as the session sees it: `Machine.step`, except that a `fn` value whose
definition was removed by `:forget` is a model artefact (the Rust value carries its own
definition): unsupported. -/
def mstep (cfg : Cfg) (s : Machine.State) : StepResult :=
  match step s with
  | .panic site =>
    if site == "function value without definition" then .unsupported "forgotten function value"
    else .panic site
  | r => r

inductive EvalRes where
  | done (m : Machine.State) (v : Value)
  | error (m : Machine.State) (e : Err)
  | panic (site : String)
  | unsupported (what : String)
  | fuel

def evalLoop (cfg : Cfg) : Nat → Machine.State → EvalRes
  | 0, _ => .fuel
  | n + 1, m =>
    match mstep cfg m with
    | .cont m' => evalLoop cfg n m'
    | .done m' v => .done m' v
    | .error m' e => .error m' e
    | .panic site => .panic site
    | .unsupported w => .unsupported w

/-- `eval`: returns `Unit` at once when one frame is left and nothing is pending. -/
def eval (cfg : Cfg) (fuel : Nat) (m : Machine.State) : EvalRes :=
  match m.frames with
  | [f] => if f.exprs.isEmpty then .done m vUnit else evalLoop cfg fuel m
  | _ => evalLoop cfg fuel m

-- ---------------------------------------------------------------- stack operations

def lastList {α : Type} : List α → List α
  | [] => []
  | [a] => [a]
  | _ :: b :: rest => lastList (b :: rest)

/-- `Stack::pop_to_toplevel`: frames → the bottom one; its values → the bottom one; its binding
blocks → the outermost one; (patched) its pending entries → none. The model keeps every stack with
the top at the head, so Rust's `truncate(1)` keeps the LAST element. -/
def popToToplevel (cfg : Cfg) (m : Machine.State) : Machine.State :=
  match lastList m.frames with
  | [f] =>
    let f' : Frame := { f with exprs := (if cfg.abortClears then [] else f.exprs),
                               values := lastList f.values, blocks := lastList f.blocks }
    { m with frames := [f'] }
  | _ => m

def frameName (f : Frame) : String :=
  match f.kind with
  | .toplevel => "toplevel"
  | .fn n => if n.startsWith "test " then n else "fun " ++ n
  | .closure => "closure"

/-- `env.top_frame_name()` (unwraps the top frame). -/
def topName (m : Machine.State) : Option String :=
  match m.frames with
  | f :: _ => some (frameName f)
  | [] => none

/-- `push_test_stackframe`. -/
def testFrame (t : TestDef) : Frame :=
  { exprs := t.body.map (fun e => (St.N, e)), values := [vUnit], blocks := [[]], nextBlock := [],
    callerUses := true, kind := .fn ("test " ++ t.name), callerId := none }

/-- `eval_toplevel_exprs`: the pending entries of the CURRENT frame are replaced. -/
def setTopExprs (m : Machine.State) (es : List Expr) : Option Machine.State :=
  match m.frames with
  | f :: rest => some { m with frames := { f with exprs := es.map (fun e => (St.N, e)) } :: rest }
  | [] => none

/-- `load_toplevel_items_with_stubs` for functions and enums: a later definition of the same
name replaces the earlier one. -/
def addFun (funs : List FunDef) (d : FunDef) : List FunDef :=
  if funs.any (fun x => x.name == d.name) then funs.map (fun x => if x.name == d.name then d else x)
  else funs ++ [d]

def addEnum (enums : List EnumDef) (d : EnumDef) : List EnumDef :=
  if enums.any (fun x => x.name == d.name) then enums.map (fun x => if x.name == d.name then d else x)
  else enums ++ [d]

def addTest (tests : List TestDef) (t : TestDef) : List TestDef :=
  if tests.any (fun x => x.name == t.name) then tests.map (fun x => if x.name == t.name then t else x)
  else tests ++ [t]

def loadDefs (p : Program) : List Item → Program
  | [] => p
  | .funD d :: rest => loadDefs { p with funs := addFun p.funs d } rest
  | .enumD d :: rest => loadDefs { p with enums := addEnum p.enums d } rest
  | _ :: rest => loadDefs p rest

def itemTests : List Item → List TestDef
  | [] => []
  | .testD t :: rest => t :: itemTests rest
  | _ :: rest => itemTests rest

def itemExprs : List Item → List Expr
  | [] => []
  | .expr e :: rest => e :: itemExprs rest
  | .block es :: rest => es ++ itemExprs rest
  | _ :: rest => itemExprs rest

def itemUnsupported : List Item → Option String
  | [] => none
  | .other w :: _ => some w
  | _ :: rest => itemUnsupported rest

-- ---------------------------------------------------------------- results

def respond (st : State) (r : Resp) : Result :=
  { state := st, responses := [r], outcome := .ok, printed := st.m.out }

def die (st : State) (o : Outcome) : Result :=
  { state := st, responses := [], outcome := o, printed := st.m.out }

/-- `eval_to_response` (commands): the id is NOT echoed. -/
def evalToResponse (cfg : Cfg) (fuel : Nat) (st : State) : Result :=
  match eval cfg fuel st.m with
  | .done m v =>
    match topName m with
    | some n => respond { st with m := m } (.evalOk none (some (display m.prog v)) n)
    | none => die st (.sessionPanic "top_frame_name: empty stack")
  | .error m e =>
    match topName m with
    | some n => respond { st with m := m } (.evalErr none e n)
    | none => die st (.sessionPanic "top_frame_name: empty stack")
  | .panic site => die st (.evalPanic site)
  | .unsupported w => die st (.unsupported w)
  | .fuel => die st .outOfFuel

/-- `err_to_response`: `Interrupted` carries no id. -/
def errToResponse (st : State) (m : Machine.State) (id : Option Nat) (e : Err) : Result :=
  match topName m with
  | some n => respond { st with m := m } (.evalErr (if e == .interrupted then none else id) e n)
  | none => die st (.sessionPanic "top_frame_name: empty stack")

/-- `eval_tests_until_error`: every test of the request is run; the first error is the response;
after a passing test the stack is popped to the toplevel. `none` = all passed. -/
def runTests (cfg : Cfg) (fuel : Nat) (st : State) (id : Option Nat) :
    List TestDef → Except Result State
  | [] => .ok st
  | t :: rest =>
    let m := { st.m with frames := testFrame t :: st.m.frames }
    match eval cfg fuel m with
    | .done m' _ => runTests cfg fuel { st with m := popToToplevel cfg m' } id rest
    | .error m' e => .error (errToResponse st m' id e)
    | .panic site => .error (die st (.evalPanic site))
    | .unsupported w => .error (die st (.unsupported w))
    | .fuel => .error (die st .outOfFuel)

/-- `handle_run_eval_request` after a successful parse. -/
def handleSource (cfg : Cfg) (fuel : Nat) (st : State) (id : Option Nat) (items : List Item) : Result :=
  match itemUnsupported items with
  | some w => die st (.unsupported w)
  | none =>
  match st.m.frames with
  | [] => die st (.sessionPanic "stack.0.last().unwrap()")
  | _ :: _ =>
  -- load_toplevel_items_with_stubs; env.tests.insert for every test of the request
  let st := { st with m := { st.m with prog := loadDefs st.m.prog items },
                      tests := (itemTests items).foldl addTest st.tests }
  match runTests cfg fuel st id (itemTests items) with
  | .error r => r
  | .ok st =>
    -- eval_toplevel_exprs_then_stop
    let exprs := itemExprs items
    match exprs.getLast? with
    | none =>
      match topName st.m with
      | some n => respond st (.evalOk id none n)
      | none => die st (.sessionPanic "top_frame_name: empty stack")
    | some last =>
      let old := st.m.stopAt
      match setTopExprs { st.m with stopAt := some last.id } exprs with
      | none => die st (.sessionPanic "Stack should always be non-empty.")
      | some m =>
        match eval cfg fuel m with
        | .done m' v =>
          let m' := { m' with stopAt := old }
          match topName m' with
          | some n => respond { st with m := m' } (.evalOk id (some (display m'.prog v)) n)
          | none => die st (.sessionPanic "top_frame_name: empty stack")
        | .error m' e => errToResponse st { m' with stopAt := old } id e
        | .panic site => die st (.evalPanic site)
        | .unsupported w => die st (.unsupported w)
        | .fuel => die st .outOfFuel

def cmdResp (st : State) (id : Option Nat) (msg : String) : Result :=
  match topName st.m with
  | some n => respond st (.cmd id msg n)
  | none => die st (.sessionPanic "top_frame_name: empty stack")

def removeKey (b : Block) (name : String) : Block := b.filter (fun kv => kv.1 != name)

def sortedNames (l : List String) : List String := (l.toArray.qsort (· < ·)).toList

/-- `run_command` + the `EvalAction` arms of `handle_run_request`. -/
def handleCommand (cfg : Cfg) (fuel : Nat) (st : State) (id : Option Nat) (c : Cmd) : Result :=
  match c with
  | .abort => cmdResp { st with m := popToToplevel cfg st.m } id "Aborted"
  | .resume => evalToResponse cfg fuel st
  | .skip =>
    match st.m.frames with
    | [] => die st (.sessionPanic "stack.0.last_mut().unwrap()")
    | f :: rest =>
      match f.exprs with
      | [] =>
        if cfg.skipGuard then cmdResp st id "nothing-to-skip"
        else die st (.sessionPanic "Tried to skip an expression, but none in this frame.")
      | _ :: es => evalToResponse cfg fuel { st with m := { st.m with frames := { f with exprs := es } :: rest } }
  | .replace none => cmdResp st id "replace-usage"
  | .replace (some e) =>
    match st.m.frames with
    | [] => die st (.sessionPanic "stack.0.last_mut().unwrap()")
    | f :: rest =>
      if cfg.replaceGuard && f.exprs.isEmpty then cmdResp st id "nothing-to-replace" else
      let vals := if cfg.replaceGuard then (match f.values with | _ :: b :: tl => b :: tl | l => l)
                  else f.values.drop 1
      evalToResponse cfg fuel { st with m := { st.m with
        frames := { f with values := vals, exprs := (St.N, e) :: f.exprs } :: rest } }
  | .test none => cmdResp st id "test-usage"
  | .test (some name) =>
    match st.tests.find? (fun t => t.name == name) with
    | none => respond st (.malformed id)
    | some t => evalToResponse cfg fuel { st with m := { st.m with frames := testFrame t :: st.m.frames } }
  | .type_ none => cmdResp st id "type-usage"
  | .type_ (some e) =>
    match setTopExprs st.m [e] with
    | none => die st (.sessionPanic "Stack should always be non-empty.")
    | some m =>
      match eval cfg fuel m with
      | .done m' _ => cmdResp { st with m := m' } id "type-ok"
      | .error m' _ => cmdResp { st with m := m' } id "type-failed"
      | .panic site => die st (.evalPanic site)
      | .unsupported w => die st (.unsupported w)
      | .fuel => die st .outOfFuel
  | .forget none => cmdResp st id "forget-usage"
  | .forget (some name) =>
    if st.m.prog.funs.any (fun d => d.name == name) then
      cmdResp { st with m := { st.m with prog := { st.m.prog with
        funs := st.m.prog.funs.filter (fun d => d.name != name) } } } id ""
    else if (nsLookup st.m.prog name).isSome then die st (.unsupported "forget of a non-function")
    else cmdResp st id "forget-unknown"
  | .forgetLocal none => cmdResp st id "forget-local-usage"
  | .forgetLocal (some name) =>
    match st.m.frames with
    | [] => die st (.sessionPanic "Should always have at least one frame")
    | f :: rest =>
      if (lookupBlocks f.blocks name).isSome then
        cmdResp { st with m := { st.m with frames :=
          { f with blocks := f.blocks.map (fun b => removeKey b name) } :: rest } } id ""
      else cmdResp st id "forget-local-unknown"
  | .locals =>
    match st.m.frames with
    | [] => cmdResp st id "locals"
    | f :: _ => cmdResp st id ("locals " ++ " ".intercalate (sortedNames (f.blocks.flatMap (fun b => b.map (·.1)))))
  | .stack => cmdResp st id ("stack " ++ " ".intercalate (st.m.frames.map frameName))
  | .namespace_ true =>
    match st.m.frames with
    | [] => die st (.sessionPanic "Should always have at least one frame")
    | _ => die st (.unsupported "namespace switch")
  | .namespace_ false =>
    match st.m.frames with
    | [] => die st (.sessionPanic "Should always have at least one frame")
    | _ => cmdResp st id "namespace"
  | .load false => cmdResp st id "load-usage"
  | .load true => die st (.unsupported "load of a file")
  | .trace => die st (.unsupported "expression tracing prints to stdout")
  | .quit => die st .exit
  | .doc | .forgetCalls | .frameStatements | .frameValues | .functions | .globals | .help
  | .methods | .namespaces | .parse | .search | .source | .types | .uptime | .version =>
    cmdResp st id "info"

/-- `handle_run_request`. -/
def handleRun (cfg : Cfg) (fuel : Nat) (st : State) (id : Option Nat) (input : String)
    (items : Option (List Item)) (inline : Option Expr) : Result :=
  match classify input with
  | .command row args =>
    match Cmd.ofVariant row.variant args (if row.args == "defaulted" then inline else
        (if args.isSome then inline else none)) with
    | some c => handleCommand cfg fuel st id c
    | none => die st (.unsupported ("command not modelled: " ++ row.variant))
  | .noSuchCommand => cmdResp st id "no-such-command"
  | .source =>
    match st.m.frames with
    | [] => die st (.sessionPanic "stack.0.last().unwrap()")
    | _ =>
      match items with
      | none => respond st .parseErr
      | some its => handleSource cfg fuel st id its

/-- `handle_request` (reader thread) + `handle_request_in_worker` (eval thread). `interrupt` is
answered by the reader and never reaches the worker. -/
def handle (cfg : Cfg) (fuel : Nat) (st : State) (req : Req) : Result :=
  let st := { st with m := { st.m with out := "" } }
  match req with
  | .interrupt => respond { st with m := { st.m with interrupted := true } } .interrupted
  | .malformed => respond st (.malformed none)
  | .other w => die st (.unsupported w)
  | .run id input items inline => handleRun cfg fuel st id input items inline

structure RunResult where
  state : State
  responses : List Resp
  outcome : Outcome

/-- The session serves requests until an outcome other than `ok`. -/
def run (cfg : Cfg) (fuel : Nat) : State → List Req → RunResult
  | st, [] => { state := st, responses := [], outcome := .ok }
  | st, r :: rest =>
    let h := handle cfg fuel st r
    match h.outcome with
    | .ok =>
      let t := run cfg fuel h.state rest
      { t with responses := h.responses ++ t.responses }
    | o => { state := h.state, responses := h.responses, outcome := o }

/-- `Env::new`: one toplevel frame holding the placeholder `Unit`, nothing loaded. -/
def freshWith (prog : Program) (toplevelVars : Block) : State :=
  { m := { prog := { prog with toplevel := [] },
           frames := [{ exprs := [], values := [vUnit], blocks := [toplevelVars], nextBlock := [],
                        callerUses := true, kind := .toplevel }],
           ticks := 0, out := "", interrupted := false, tickLimit := none, stackLimit := none,
           interruptAt := [] },
    tests := [] }

def fresh : State := freshWith { funs := [], enums := [], toplevel := [] } []

end Session
