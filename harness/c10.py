"""C10 — `:abort` returns the session to a clean top level.

Proof: GardenVerif.Props.C10 over the session model M6: `abort_clean`, `abort_equiv_fresh`
(the aborted session equals the fresh session with the same definitions and toplevel variables),
`abort_same_responses`, `nothing_leftover`.
Tie: the same model as C09 (`session_run` vs `garden reftest-json-session`, compared per response).
Direct oracle on the implementation alone: session A = definitions, toplevel lets, one or two
evaluations that STOP inside nested calls / loops / blocks / tests (runtime error, or an interrupt
injected at a tick inside a long loop), `:abort`, probes; session B = a FRESH session fed the same
definitions and toplevel lets and the same probes. Every probe must answer the same in A and B; and in
A: each local of the aborted frames -> `No such variable`, `:resume` -> Unit at once, `:skip` -> nothing
pending, `:stack` -> only the toplevel, `:locals` -> only the toplevel variables.
"""
from . import common
from . import session_client as SC

LEAN_MODULES = ["GardenVerif.Props.C10"]

DEFS = SC.DEFS[:6]
LETS = ["let tv1 = 5", "let tv2 = [1, 2]", "let tv3 = \"s\""]
# (source, locals of the aborted frames / blocks, toplevel lets the source performs before it stops)
STOPPERS = [
    ("f(100)", ["a", "la", "b", "lb", "inner"], []),
    ("h(0)", ["n", "acc", "x", "sq", "deep"], []),
    ("m(Green(3))", ["c", "k", "mk"], []),
    ("loopy(\"x\")", ["n", "i"], []),
    ("let c2 = fun(z) { let cz = z  cz + nosuchc }\nc2(1)", ["z", "cz"], ["let c2 = fun(z) { let cz = z  cz + nosuchc }"]),
    ("if True { let blk1 = 1  nosuchb }", ["blk1"], []),
    ("for y in [1, 2] { let fy = y  nosuchf }", ["y", "fy"], []),
    ("let i0 = 0\nwhile i0 < 2 { i0 += 1  let wl = i0  nosuchw }", ["wl"], ["let i0 = 1"]),
    ("match Some(2) { Some(p) => { let mp = p  nosuchm } None => 0 }", ["p", "mp"], []),
    ("pr(f(100))", ["a", "la", "b", "lb", "inner", "s"], []),
    ("[1, h(f(100))]", ["a", "la", "b", "lb", "inner", "n", "acc"], []),
    # loading a failing test stops inside the test frame
    ("test t_bad { let tl = 1  nosuch_t }", ["tl"], []),
    ("test t_call { let tc = 2  f(100) }", ["tc", "a", "la", "b", "lb", "inner"], []),
    ("if 1 { 2 } else { 3 }", [], []),
    ("match 1 { Some(x) => x }", ["x"], []),
    ("nosuch1 + nosuch2", [], []),
]
INTERRUPTED = [
    ("loopy(300)", ["n", "i", "w"], []),
    ("let j0 = 7\nfor q in [1, 2, 3] { let fq = loopy(150) }", ["q", "fq", "n", "i", "w"], ["let j0 = 7"]),
]


def run(ctx):
    cmds = SC.commands()
    rng = ctx.rng
    n = ctx.scale(60, 600)
    cases = []
    for k in range(n):
        defs = DEFS[:]           # all definitions (order shuffled)
        rng.shuffle(defs)
        lets = [l for l in LETS if rng.random() < 0.7]
        pre = [dict(kind="run", input=x) for x in defs + lets]
        if rng.random() < 0.3:
            # (a toplevel `for` as the last expression is left pending by eval_toplevel_exprs_then_stop's
            # stop-at special case, so it would not be a clean prefix for the fresh session)
            pre.append(dict(kind="run", input=rng.choice([e for e in SC.OK_EVALS[:10] if not e.startswith("for ")])))
        stops, locs, tl, ints = [], [], [], []
        if rng.random() < 0.25:
            s = rng.choice(INTERRUPTED)
            ints = [rng.randrange(150, 600)]
            stops.append(s)
        for _ in range(rng.randrange(0 if stops else 1, 3)):
            # a stopper that performs toplevel lets must run at the toplevel, i.e. first
            stops.append(rng.choice([s for s in STOPPERS if not stops or not s[2]]))
        mids = []
        for (src, ls, tls) in stops:
            mids.append(dict(kind="run", input=src))
            locs += ls
            tl += tls
            if rng.random() < 0.3:
                mids.append(dict(kind="run", input=rng.choice([":locals", ":stack", ":resume", ":fvalues", "1 + 1"])))
        locs = sorted(set(locs) - {"tv1", "tv2", "tv3", "i0", "j0", "c2"})
        # first the probes that leave nothing pending themselves (a failing probe such as an unbound
        # local leaves ITS entry pending at the toplevel, in the fresh session as well)
        first = [":resume", ":skip", ":stack", ":locals", ":fvalues", ":fstmts"]
        rng.shuffle(first)
        second = locs + ["tv1", "f(0)", "1 + 1", ":locals", ":stack"]
        rng.shuffle(second)
        probes = [dict(kind="run", input=x) for x in first + second]
        a = pre + mids + [dict(kind="run", input=":abort")] + probes
        b = pre + [dict(kind="run", input=x) for x in tl] + probes
        cases.append(dict(a=a, b=b, ints=ints, n_pre=len(pre) + len(mids) + 1, n_pre_b=len(pre) + len(tl),
                          locs=locs, stops=[s[0] for s in stops], lets=lets + tl))
    ctx.rule = ("definitions + toplevel lets; 1-2 evaluations stopping inside nested calls / for / while / if / "
                "match / closure / test frames (runtime error) or interrupted at a random tick inside a loop; "
                "`:abort`; probes (every local of the aborted frames, :resume, :skip, :stack, :locals, :fvalues, "
                ":fstmts, a toplevel variable, a call, 1 + 1) in random order; compared with a FRESH session fed "
                "the same definitions and toplevel lets. Non-trivial: the stack had more than one frame or a "
                "pending block when `:abort` was issued.")
    ctx.assumptions += ["toplevel variables introduced by the aborted request itself before it stopped are part of "
                        "'the same top-level variables' (the fresh session is fed those lets with their value at the stop)"]
    ra = common.pmap(lambda c: SC.run_reftest(ctx, c["a"], c["ints"]), cases)
    rb = common.pmap(lambda c: SC.run_reftest(ctx, c["b"], []), cases)
    model = ctx.model_batch(SC.model_request(ctx, [(c["a"], c["ints"]) for c in cases], cfg="patched", fuel=60000), timeout=900)
    n_probe = n_cmp = n_deep = 0
    for c, xa, xb, mr in zip(cases, ra, rb, model):
        rj = [SC.req_json(r) for r in c["a"]]
        respa = SC.split_responses(xa["objs"])
        respb = SC.split_responses(xb["objs"])
        if xa["timeout"] or xb["timeout"]:
            ctx.cov["timeouts_skipped"] = ctx.cov.get("timeouts_skipped", 0) + 1
            continue
        if xa["panic"] or len(respa) != len(c["a"]) or xb["panic"] or len(respb) != len(c["b"]):
            ctx.fail("C10/session-dies", "a session of the abort experiment died: %s / %s" % (xa["panic"], xb["panic"]),
                     requests=rj, interrupts=c["ints"], fresh=[SC.req_json(r) for r in c["b"]])
            continue
        la = [SC.canon_real(c["a"][i], o, p, cmds) for i, (o, p) in enumerate(respa)]
        lb = [SC.canon_real(c["b"][i], o, p, cmds) for i, (o, p) in enumerate(respb)]
        # was something pending / deeper than the toplevel right before :abort ?
        before = la[c["n_pre"] - 2] if c["n_pre"] >= 2 else ""
        deep = "frame=toplevel" not in before or "evalerr" in before
        n_deep += 1 if deep else 0
        ctx.case(tuple(rj) + tuple(c["ints"]), deep)
        pa, pb = la[c["n_pre"]:], lb[c["n_pre_b"]:]
        probes = c["a"][c["n_pre"]:]
        for i, (x, y) in enumerate(zip(pa, pb)):
            n_probe += 1
            if x != y:
                ctx.fail("C10/probe-differs-from-fresh", "probe %r after :abort answers %s, in the fresh session %s" % (
                    probes[i]["input"], x, y), requests=rj, interrupts=c["ints"], fresh=[SC.req_json(r) for r in c["b"]])
                break
            inp = probes[i]["input"]
            if inp in (":fvalues", ":fstmts"):
                # pending values / entries of the frame, verbatim (the canonical line only says `info`)
                ma = respa[c["n_pre"] + i][0]["kind"].get("run_command", {}).get("message")
                mb = respb[c["n_pre_b"] + i][0]["kind"].get("run_command", {}).get("message")
                # The fresh session's toplevel frame also holds the results of the prefix evaluations
                # (every toplevel evaluation leaves its value on frame 0's value stack), below the values
                # the probes produced. So: among the first probes (nothing evaluated since `:abort`) the
                # aborted session must show exactly the placeholder; later, its values above the
                # placeholder must be the newest values of the fresh session.
                bad = False
                if inp == ":fstmts":
                    bad = ma != mb
                elif i < 6:
                    bad = ma != "Unit\n"
                else:
                    top_a = (ma or "").split("\n")[:-2]
                    bad = (mb or "").split("\n")[:len(top_a)] != top_a or not (ma or "").endswith("Unit\n")
                if bad:
                    ctx.fail("C10/leftover-visible", "%s after :abort prints %r, in the fresh session %r" % (inp, ma, mb),
                             requests=rj, interrupts=c["ints"], fresh=[SC.req_json(r) for r in c["b"]])
                    break
            want = None
            if inp in c["locs"]:
                want = "err=no-such-variable_" + inp
            elif inp == ":resume":
                want = "evalok id=- value=556e6974 frame=toplevel"
            elif inp == ":skip":
                want = "msg=nothing-to-skip"
            elif inp == ":stack":
                want = "msg=stack_toplevel frame=toplevel"
            elif inp == "1 + 1":
                want = "value=32 frame=toplevel"
            if want and want not in x:
                ctx.fail("C10/leftover-visible", "probe %r after :abort answers %s (expected …%s…)" % (inp, x, want),
                         requests=rj, interrupts=c["ints"])
                break
            if inp == ":locals":
                names = x.split("msg=locals", 1)[1].split(" frame=")[0].strip("_").split("_") if "msg=locals" in x else []
                extra = [v for v in names if v and v in c["locs"]]
                if extra:
                    ctx.fail("C10/leftover-visible", ":locals after :abort lists %r" % extra, requests=rj)
                    break
        # correspondence of session A with the model
        pm = SC.parse_model(mr)
        if pm is None:
            ctx.disagree("session_run", rj, mr, "driver error")
            continue
        ml, outcome, detail, _ = pm
        for i in range(min(len(ml), len(la))):
            n_cmp += 1
            if ml[i] != la[i]:
                ctx.disagree("session_run response %d" % i, dict(requests=rj, interrupts=c["ints"]), ml[i], la[i])
                break
        else:
            if outcome.startswith("panic"):
                ctx.disagree("session_run death", dict(requests=rj, interrupts=c["ints"]), "model panics: " + detail,
                             "implementation answered everything")
        if len(ctx.samples) < 5:
            ctx.sample(dict(stops=c["stops"], interrupts=c["ints"], locals=c["locs"], before_abort=before,
                            probes=[p["input"] for p in probes][:8], answers=pa[:8]))
    ctx.cov["experiments"] = len(cases)
    ctx.cov["aborted_with_pending_or_nested_stack"] = n_deep
    ctx.cov["probes_compared_with_fresh"] = n_probe
    ctx.cov["responses_compared_with_model"] = n_cmp
    ctx.cov["interrupted_experiments"] = sum(1 for c in cases if c["ints"])
    ctx.log("abort experiments: %d (%d nested/pending at abort, %d interrupted), %d probes, %d model comparisons" % (
        len(cases), n_deep, ctx.cov["interrupted_experiments"], n_probe, n_cmp))
