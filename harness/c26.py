"""C26 — Test verdicts are independent and the exit status is honest.

Proof: GardenVerif.Props.C26 over Model/TestRunner.lean (`eval_tests` / `run_tests_in_files` on top of
the evaluator model M4 extended with `assert`): exit_honest, counts_match, runner_is_map /
verdict_independent / verdict_order_irrelevant / verdict_filter_irrelevant (no tick limit), and the
model-level counterexample for a shared tick budget (`garden sandboxed-test`).

Tie: hook op `testrun` of `garden verif` (src/verif_runner.rs: what `garden test -n F file` does, output
captured, per-tick trace) vs driver op `testrun_model` on the same parsed items: verdict list, exit
status, end state, output, summary line and the per-tick trace, for several orders, filters and
tick/stack limits; plus hook verdicts == CLI verdicts.

Direct oracle (CLI only): every generated file is run with `garden test` in every order of its tests
(all permutations up to 4 tests, a sample for 5) and with every `-n` filter of a fixed family
(each full name, shared substrings, "", a non-matching one): a test's verdict (pass / failure
message) must be the same in every run it is selected in; the exit status must be 1 exactly when
a `Failed:` line is printed and 0 otherwise; the summary counts must equal the number of
selected tests and of `Failed:` lines. `garden sandboxed-test` (budget 100000 ticks): each test
alone (offset inside it) vs the whole file.
Suites spread over 2-3 files given in ONE `garden test f1 f2 …` invocation, with test names that collide
across files and (every other suite) a name defined twice in one file, the later definition usually being
the failing one: every test is first run in isolation (its file's functions + that test); each
invocation (both file orders, `-n` filters matching the duplicated names, each file alone) must print a
`Failed:` line for exactly the selected tests that fail in isolation, count EVERY selected test in the
summary, and exit 1 iff one of them fails. Files with a repeated name also go through the model tie.
"""
import itertools
import json
import os
import re
from . import machine_corr as MC
from . import prog_core_gen as PG
from . import common
from .common import hexs, unhex, pmap, crashed

LEAN_MODULES = ["GardenVerif.Props.C26"]

KINDS = ["pass", "pass", "fail", "fail", "err", "deep", "leakdef", "leakuse", "rand", "rand"]

BOOM = "fun boom(n) {\n  if n <= 0 { nosuch9 } else { boom(n - 1) + 1 }\n}"


def gen_test(rng, k, kind, shared_funs, loop=False, name=None):
    tg = PG.Gen(rng, size=rng.choice([6, 12, 25]), err_rate=(0.04 if kind == "rand" else 0.0), exits=0.3)
    tg.funs = list(shared_funs)
    body = []
    for _ in range(rng.randrange(0, 4)):
        if tg.budget <= 0:
            break
        body.append(tg.stmt(1))
    body.append("let r = %s" % tg.expr(PG.INT, 1))
    if kind == "pass":
        body.append(rng.choice(["assert(r == r)", "assert(True)", "assert(string_repr(r) == string_repr(r))",
                                "assert(r <= r)", "assert((r < r) || True)"]))
    elif kind == "fail":
        body.append(rng.choice(["assert(r == r + 1)", "assert(False)", "assert(r < r)", "assert(r != r)",
                                "assert(string_repr(r) == \"x\")", "assert([r] == [])"]))
        if rng.random() < 0.3:
            body.append("assert(True)")
    elif kind == "err":
        body.append(rng.choice(["nosuch0", "assert(5)", "1 + \"s\"", "boom(1, 2)", "r()", "assert(r / 0 == 1)"]))
    elif kind == "deep":
        body.append("assert(boom(%d) == 0)" % rng.randrange(0, 6))
    elif kind == "leakdef":
        body.append("let leaked = 1")
        body.append(rng.choice(["assert(leaked == 1)", "assert(leaked == 2)", "nosuch1"]))
    elif kind == "leakuse":
        body.append(rng.choice(["assert(leaked == 1)", "assert(r == r)\n  assert(leaked == 1)"]))
    elif kind == "rand":
        body.append("assert(%s)" % tg.expr(PG.BOOL, 0))
    elif kind == "loop":
        body.append("let i = 0\n  while True { i += 1 }")
    name = name or "t%d_%s" % (k, kind)
    return name, "test %s {\n%s}\n" % (name, "".join("  " + s + "\n" for s in body))


def gen_file(rng, max_tests, with_loop=False):
    g = PG.Gen(rng, size=40, err_rate=0.0, exits=0.3)
    funs = [g.fun_def() for _ in range(rng.randrange(0, 3))]
    shared = list(g.funs)
    n = rng.randrange(2, max_tests + 1)
    kinds = [rng.choice(KINDS) for _ in range(n)]
    if "leakuse" in kinds and "leakdef" not in kinds:
        kinds[rng.randrange(n)] = "leakdef"
        if "leakuse" not in kinds:
            kinds[(kinds.index("leakdef") + 1) % n] = "leakuse"
    if with_loop:
        kinds[rng.randrange(n)] = "loop"
    tests = [gen_test(rng, k, kind, shared) for k, kind in enumerate(kinds)]
    return [BOOM] + funs, tests, kinds


def render(funs, tests):
    return "\n".join(funs) + "\n\n" + "\n".join(src for _, src in tests)


def filters_for(names):
    fs = ["", "zzz", "t", "_pass", "fail", "_", "t0"]
    fs += names
    out = []
    for f in fs:
        if f not in out:
            out.append(f)
    return out


DUP_NAMES = ["roundtrip", "dup", "basic", "roundtrip_big", "edge"]


def gen_suite(rng, in_file_dup):
    """A test suite spread over 2-3 files (each with its own helper functions, namespaces are per file) whose
    test names collide across files; if `in_file_dup`, one file also defines the same name twice. In most
    suites the LATER definition of a colliding name is the failing one. -> list of (funs, [(name, src, kind)])"""
    nfiles = rng.randrange(2, 4)
    files = []
    for fi in range(nfiles):
        g = PG.Gen(rng, size=25, err_rate=0.0, exits=0.3)
        funs = [BOOM] + [g.fun_def() for _ in range(rng.randrange(0, 2))]
        files.append([funs, list(g.funs), []])
    coll = rng.choice(DUP_NAMES)
    late_fails = rng.random() < 0.8
    # the colliding name: first definition in file 0, a later one in the last file
    plan = {0: [(coll, "pass" if late_fails else rng.choice(["fail", "err"]))],
            nfiles - 1: [(coll, rng.choice(["fail", "err", "deep"]) if late_fails else "pass")]}
    for fi in range(nfiles):
        for _ in range(rng.randrange(0, 3)):
            nm = rng.choice(DUP_NAMES + ["only%d" % fi, "t%d_x" % fi])
            if not in_file_dup and any(nm == n for n, _ in plan.get(fi, [])):
                continue
            plan.setdefault(fi, []).append((nm, rng.choice(["pass", "pass", "fail", "err", "rand"])))
    if in_file_dup:
        fi = rng.randrange(nfiles)
        nm = rng.choice(DUP_NAMES)
        plan.setdefault(fi, []).append((nm, "pass"))
        plan[fi].append((nm, rng.choice(["fail", "err"])))
        if rng.random() < 0.5:
            plan[fi].append(("after_dup", "pass"))
    out = []
    for fi in range(nfiles):
        funs, shared, _ = files[fi]
        tests = []
        for k, (nm, kind) in enumerate(plan.get(fi, [])):
            n, src = gen_test(rng, k, kind, shared, name=nm)
            tests.append((n, src, kind))
        if not tests:
            n, src = gen_test(rng, 0, "pass", shared, name="only%d" % fi)
            tests.append((n, src, "pass"))
        out.append((funs, tests))
    return out


def failed_multiset(stdout):
    return sorted((m.group(1), m.group(3) if m.group(3) is not None else "<no message>") for m in FAILED.finditer(stdout))


def sigint_probe(scratch, tag, tests, hang_name):
    """Run `garden test` on a file whose test `hang_name` prints a marker and spins; wait for the marker, send ONE
    SIGINT, collect exit status and output. -> dict(status=ok|inconclusive, rc, stdout, src)"""
    import signal
    import subprocess
    import time
    src = "\n".join(tests)
    path = os.path.join(scratch, "sigint_%s.gdn" % tag)
    outp = path + ".out"
    with open(path, "w") as f:
        f.write(src)
    with open(outp, "w") as out:
        p = subprocess.Popen([common.GARDEN, "test", path], stdout=out, stderr=subprocess.PIPE,
                             preexec_fn=common._limits(3))
    marker = hang_name + " started"
    t0 = time.time()
    seen = False
    while time.time() - t0 < 180 and p.poll() is None:
        if marker in open(outp).read():
            seen = True
            break
        time.sleep(0.1)
    if not seen:
        p.kill()
        p.wait()
        return dict(status="inconclusive", why="marker never printed", src=src, stdout=open(outp).read())
    time.sleep(0.2)
    p.send_signal(signal.SIGINT)
    try:
        p.wait(timeout=180)
    except subprocess.TimeoutExpired:
        p.kill()
        p.wait()
        return dict(status="inconclusive", why="did not stop within 180 s of SIGINT", src=src, stdout=open(outp).read())
    so = open(outp).read()
    for q in (path, outp):
        try:
            os.remove(q)
        except OSError:
            pass
    return dict(status="ok", rc=p.returncode, stdout=so, src=src)


FAILED = re.compile(r"^Failed: (\S+)(?: (\S+:\d+))?\n(?:  (.*)\n)?", re.M)


def parse_cli(stdout):
    """-> (dict name -> message-or-None for failed tests, summary line)"""
    failed = {}
    for m in FAILED.finditer(stdout):
        failed[m.group(1)] = m.group(3) if m.group(3) is not None else "<no message>"
    lines = [l for l in stdout.split("\n") if l.strip()]
    return failed, (lines[-1] if lines else "")


def expected_summary(n, f):
    p = n - f
    if n == 0:
        return "No tests found."
    pl = "" if n == 1 else "s"
    if f == 0 and n == 1:
        return "Ran 1 test: it passed."
    if f == 0:
        return "Ran %d test%s: they all passed." % (n, pl)
    return "Ran %d test%s: %d passed and %d failed." % (n, pl, p, f)


TESTRUN = re.compile(r"^OK \(testrun \(tests(.*?)\) \(exit (\d+)\) (\(end[^)]*\)) \(out ([0-9a-f]*)\) "
                     r"\(summary ([0-9a-f]*)\)(?: \(items ([0-9a-f]*)\))? \(trace ([0-9a-f]*)\)\)$")
ONE = re.compile(r"\(t (\S+) (\([^()]*\))\)")


def canon_verdict(v, impl):
    """verdict s-expression -> comparable string"""
    v = v[1:-1].split(" ")
    if v[0] == "pass":
        return "pass"
    if v[0] == "assertion":
        return "assertion " + unhex(v[-1])
    if v[0] == "exception":
        return "err " + MC.classify_err(unhex(v[-1]))
    if v[0] == "err":
        return "err " + " ".join(v[1:])
    return v[0]


def parse_testrun(r, impl):
    if r is None or not r.startswith("OK (testrun"):
        return dict(kind="other", raw=(r or "None")[:300])
    if "(unsupported " in r[:40]:
        return dict(kind="unsupported", raw=r[:200])
    m = TESTRUN.match(r)
    if not m:
        if "(panic " in r or "(unknown " in r:
            return dict(kind="unknown", raw=r[:300])
        return dict(kind="other", raw=r[:300])
    tests, ex, end, out, summ, items, trace = m.groups()
    vs = [(n, canon_verdict(v, impl)) for n, v in ONE.findall(tests)]
    summ = unhex(summ)
    last = [l for l in summ.split("\n") if l.strip()]
    return dict(kind="ok", verdicts=vs, exit=int(ex), end=end, out=unhex(out), summary=last[-1] if last else "",
                items=unhex(items) if items else None, trace=unhex(trace).split("\n") if trace else [])


def run(ctx):
    rng = ctx.rng
    nfiles = ctx.scale(24, 300)
    max_tests = ctx.scale(4, 5)
    perm_cap = ctx.scale(8, 40)
    ctx.rule = ("files of 2..%d tests + 0..2 shared functions + a recursive helper; test bodies = statements of the "
                "core-program generator (locals with the same names in every test, calls of the shared functions) "
                "followed by a closing statement of a kind in {passing assert, failing assert (==, <, != and bare), "
                "runtime error in the body, error %s frames deep in a recursive call, definition of a local that "
                "another test tries to read, random Bool assert, infinite loop (limit variants only)}; each file is "
                "run by the CLI in every order of its tests (<= %d orders) and with every filter of a fixed family. "
                "Non-trivial = the file has at least one failing/erroring and one passing test." % (max_tests, "0..5", perm_cap))
    files = [gen_file(rng, max_tests) for _ in range(nfiles)]
    scratch = ctx.scratch("files")

    # ------------------------------------------------------------------ CLI oracle
    jobs = []
    for fi, (funs, tests, kinds) in enumerate(files):
        names = [n for n, _ in tests]
        perms = list(itertools.permutations(range(len(tests))))
        if len(perms) > perm_cap:
            perms = [perms[0]] + rng.sample(perms[1:], perm_cap - 1)
        for pi, perm in enumerate(perms):
            jobs.append((fi, perm, ""))
        flts = filters_for(names)[1:]
        if ctx.quick() and len(flts) > 5:
            flts = rng.sample(flts, 5)
        for flt in flts:
            jobs.append((fi, tuple(range(len(tests))), flt))

    def run_job(job):
        fi, perm, flt = job
        funs, tests, kinds = files[fi]
        src = render(funs, [tests[i] for i in perm])
        path = os.path.join(scratch, "f%d_%s_%s.gdn" % (fi, "".join(map(str, perm)), hexs(flt)))
        with open(path, "w") as f:
            f.write(src)
        args = ["test"] + (["-n", flt] if flt else []) + [path]
        rc, so, se = ctx.garden(args, timeout=60)
        if rc == -9999:
            rc, so, se = ctx.garden(args, timeout=300)
        try:
            os.remove(path)
        except OSError:
            pass
        return rc, so, se, src

    results = pmap(run_job, jobs)
    per_file = {}
    n_runs = 0
    verdict_hist = {}
    for job, (rc, so, se, src) in zip(jobs, results):
        fi, perm, flt = job
        funs, tests, kinds = files[fi]
        names = [tests[i][0] for i in perm]
        sel = [n for n in names if flt in n]
        n_runs += 1
        replay = dict(src=src, args=["test"] + (["-n", flt] if flt else []), rc=rc, stdout=so[-1500:])
        if crashed(rc) or rc == -9999:
            ctx.fail("C26/crash", "`garden test` crashed or hung (rc %d): %s" % (rc, se[-300:]), **replay)
            continue
        failed, last = parse_cli(so)
        # exit status honest
        if (rc != 0) != (len(failed) > 0) or rc not in (0, 1):
            ctx.fail("C26/exit-status", "exit status %d with %d `Failed:` lines" % (rc, len(failed)), **replay)
        # counts match
        unknown = [n for n in failed if n not in sel]
        if unknown:
            ctx.fail("C26/unselected-test-ran", "verdict reported for tests not selected: %s" % unknown, **replay)
        want = expected_summary(len(sel), len(failed))
        if last != want:
            ctx.fail("C26/summary-counts", "summary line %r, expected %r from the verdict lines" % (last, want), **replay)
        d = per_file.setdefault(fi, {})
        for n in sel:
            v = ("fail", failed[n]) if n in failed else ("pass",)
            d.setdefault(n, []).append((v, perm, flt, src))
    for fi, d in per_file.items():
        funs, tests, kinds = files[fi]
        has_pass = has_fail = False
        for n, obs in d.items():
            vs = set(o[0] for o in obs)
            v0 = obs[0][0]
            verdict_hist[v0[0]] = verdict_hist.get(v0[0], 0) + 1
            has_pass |= v0[0] == "pass"
            has_fail |= v0[0] == "fail"
            if len(vs) > 1:
                a = obs[0]
                b = next(o for o in obs if o[0] != a[0])
                ctx.fail("C26/verdict-depends-on-context",
                         "test %s: verdict %r in one run, %r in another" % (n, a[0], b[0]),
                         src_a=a[3], filter_a=a[2], src_b=b[3], filter_b=b[2])
        ctx.case(render(funs, tests), has_pass and has_fail)
    ctx.cov["cli_runs"] = n_runs
    ctx.cov["cli_verdicts_by_kind"] = verdict_hist


    # ------------------------------------------------------------------ several files, colliding test names
    # Oracle: every test is first run IN ISOLATION (a file with its own file's functions and that one test);
    # then the whole suite is run in one `garden test f1 f2 …` invocation (both file orders, several `-n`
    # filters): the summary must count EVERY selected test (duplicates of a name included), the `Failed:`
    # lines must be exactly the selected tests that fail in isolation, exit status 1 iff there is one.
    suites = [gen_suite(rng, k % 2 == 1) for k in range(ctx.scale(10, 40))]
    sdir = ctx.scratch("suites")

    def run_suite(item):
        si, suite = item
        d = os.path.join(sdir, "s%d" % si)
        os.makedirs(d, exist_ok=True)
        iso = []          # per file: list of (name, verdict)
        for fi, (funs, tests) in enumerate(suite):
            row = []
            for ti, (n, src, kind) in enumerate(tests):
                path = os.path.join(d, "iso_%d_%d.gdn" % (fi, ti))
                with open(path, "w") as f:
                    f.write("\n".join(funs) + "\n\n" + src)
                rc, so, se = ctx.garden(["test", path], timeout=120)
                fm = failed_multiset(so)
                row.append((n, ("fail", fm[0][1]) if fm else ("pass",), rc, so))
            iso.append(row)
        paths = []
        for fi, (funs, tests) in enumerate(suite):
            path = os.path.join(d, "f%d.gdn" % fi)
            with open(path, "w") as f:
                f.write("\n".join(funs) + "\n\n" + "\n".join(src for _, src, _ in tests))
            paths.append(path)
        names = [n for row in iso for n, _, _, _ in row]
        dups = sorted(set(n for n in names if names.count(n) > 1))
        flts = [""] + dups[:2] + ["round", "o", "zzz"]
        runs = []
        for order in (list(range(len(paths))), list(reversed(range(len(paths))))):
            for flt in (flts if order[0] == 0 else [""] + dups[:1]):
                args = ["test"] + (["-n", flt] if flt else []) + [paths[i] for i in order]
                rc, so, se = ctx.garden(args, timeout=120)
                runs.append((order, flt, rc, so, se))
        # single files too (a name repeated inside one file)
        for fi, p in enumerate(paths):
            rc, so, se = ctx.garden(["test", p], timeout=120)
            runs.append(([fi], "", rc, so, se))
        return iso, runs

    n_suite_runs = n_dup_sel = n_late_fail = 0
    for (si, suite), (iso, runs) in zip(enumerate(suites), pmap(run_suite, list(enumerate(suites)))):
        srcs = {"f%d.gdn" % fi: "\n".join(funs) + "\n\n" + "\n".join(src for _, src, _ in tests)
                for fi, (funs, tests) in enumerate(suite)}
        seen = set()
        for row in iso:
            for n, v, rc, so in row:
                if n in seen and v[0] == "fail":
                    n_late_fail += 1
                seen.add(n)
                if crashed(rc) or (rc != 0) != (v[0] == "fail"):
                    ctx.fail("C26/exit-status", "isolated test %s: exit status %d, verdict %s" % (n, rc, v[0]),
                             files=srcs, stdout=so[-800:])
        ctx.case(sorted(srcs.items()), True)
        for order, flt, rc, so, se in runs:
            n_suite_runs += 1
            sel = [(n, v) for fi in order for n, v, _, _ in iso[fi] if flt in n]
            n_dup_sel += len(set(n for n, _ in sel)) < len(sel)
            want_failed = sorted((n, v[1]) for n, v in sel if v[0] == "fail")
            got_failed = failed_multiset(so)
            lines_ = [l for l in so.split("\n") if l.strip()]
            last = lines_[-1] if lines_ else ""
            replay = dict(files=srcs, args=["test"] + (["-n", flt] if flt else []) + ["f%d.gdn" % i for i in order],
                          rc=rc, stdout=so[-1500:],
                          isolated={"f%d.gdn" % fi: [(n, v) for n, v, _, _ in iso[fi]] for fi in order})
            if crashed(rc) or rc == -9999:
                ctx.fail("C26/crash", "`garden test` crashed or hung (rc %d): %s" % (rc, se[-300:]), **replay)
                continue
            if got_failed != want_failed:
                ctx.fail("C26/verdict-depends-on-context",
                         "tests failing in this run %r, tests (selected here) failing in isolation %r"
                         % (got_failed, want_failed), **replay)
            want = expected_summary(len(sel), len(want_failed))
            if last != want:
                ctx.fail("C26/summary-counts", "summary line %r, but %d tests are selected of which %d fail in "
                         "isolation (expected %r)" % (last, len(sel), len(want_failed), want), **replay)
            if (rc != 0) != bool(want_failed) or rc not in (0, 1):
                ctx.fail("C26/exit-status", "exit status %d, but %d selected tests fail in isolation"
                         % (rc, len(want_failed)), **replay)
    ctx.cov["suite_invocations"] = n_suite_runs
    ctx.cov["suite_invocations_selecting_duplicate_names"] = n_dup_sel
    ctx.cov["suites_where_a_later_duplicate_fails"] = n_late_fail


    # ------------------------------------------------------------------ a test interrupted by SIGINT (Ctrl-C, CI watchdog)
    # The interrupted test was selected and did not pass: the run must not look green. (HEAD: the interrupted test is
    # recorded with `Interrupted`, printed as `Failed: name`, counted as failed, the remaining tests are not run, exit 1;
    # the model's `runTestsWith` records `(name, interrupted)` and stops in the same way.)
    quick_t = "test %s {\n  assert(1 + 1 == 2)\n}\n"
    hang_t = "test %s {\n  println(\"%s started\")\n  let i = 0\n  while True { i += 1 }\n}\n"
    sig_cases = [("mid", [quick_t % "a_quick", hang_t % ("b_hangs", "b_hangs"), quick_t % "c_after"], "b_hangs", 1),
                 ("first", [hang_t % ("a_hangs", "a_hangs"), quick_t % "b_after"], "a_hangs", 0)]
    n_sig = 0
    for r, (tag, tests_, hang, n_before) in zip(pmap(lambda c: sigint_probe(scratch, c[0], c[1], c[2]), sig_cases), sig_cases):
        if r["status"] != "ok":
            ctx.cov.setdefault("sigint_probes_inconclusive", []).append(r.get("why"))
            continue
        n_sig += 1
        failed, last = parse_cli(r["stdout"])
        replay = dict(src=r["src"], how="garden test FILE; wait for `%s started`; send one SIGINT" % hang, rc=r["rc"],
                      stdout=r["stdout"][-800:])
        ctx.case(("sigint", tag), True)
        if crashed(r["rc"]) and r["rc"] != -2:
            ctx.fail("C26/crash", "`garden test` crashed after SIGINT (rc %d)" % r["rc"], **replay)
        elif r["rc"] == 0:
            ctx.fail("C26/exit-status", "exit status 0 although the selected test %s was interrupted and did not pass"
                     % hang, **replay)
        elif r["rc"] == 1:
            if hang not in failed:
                ctx.fail("C26/summary-counts", "the interrupted test %s has no `Failed:` line" % hang, **replay)
            want = expected_summary(n_before + 1, 1 + sum(1 for n in failed if n != hang))
            if last != want:
                ctx.fail("C26/summary-counts", "summary line %r after the interrupt, expected %r (the interrupted test "
                         "counted as failed)" % (last, want), **replay)
        # any other non-zero status (e.g. killed by the signal, 130) is an honest non-green outcome
    ctx.cov["sigint_probes"] = n_sig

    # ------------------------------------------------------------------ correspondence
    corr = []
    for fi, (funs, tests, kinds) in enumerate(files):
        names = [n for n, _ in tests]
        base = render(funs, tests)
        corr.append((fi, base, "", None, None))
        perm = list(range(len(tests)))
        rng.shuffle(perm)
        corr.append((fi, render(funs, [tests[i] for i in perm]), "", None, None))
        corr.append((fi, base, rng.choice(filters_for(names)[2:]), None, None))
        corr.append((fi, base, "", rng.choice([5, 20, 60, 150]), rng.choice([None, 2, 3, 5])))
    # files that define the same test name twice (eval_tests runs every definition, in order)
    for suite in suites:
        for funs, tests in suite:
            names_ = [n for n, _, _ in tests]
            if len(set(names_)) < len(names_):
                src_ = "\n".join(funs) + "\n\n" + "\n".join(src for _, src, _ in tests)
                corr.append((-1, src_, "", None, None))
                corr.append((-1, src_, next(n for n in names_ if names_.count(n) > 1), None, None))
    # files with an infinite loop: only with a tick limit
    loops = [gen_file(rng, max_tests, with_loop=True) for _ in range(ctx.scale(8, 60))]
    for funs, tests, kinds in loops:
        corr.append((-1, render(funs, tests), "", rng.choice([40, 200, 1000]), rng.choice([None, 4])))

    def opt(x):
        return "-" if x is None else str(x)
    impl_lines = ["testrun %s %s %s %s trace" % (hexs(s), hexs(f) if f else "-", opt(tl), opt(sl))
                  for _, s, f, tl, sl in corr]
    impl = [parse_testrun(r, True) for r in ctx.garden_batch(impl_lines, timeout=900)]
    model_lines = []
    for (fi, s, f, tl, sl), i in zip(corr, impl):
        items = i.get("items") if i["kind"] == "ok" else None
        model_lines.append("testrun_model %s %s %s 400000 trace %s" % (hexs(f) if f else "-", opt(tl), opt(sl),
                                                                      items if items else "(bad"))
    model = [parse_testrun(r, False) for r in ctx.model_batch(model_lines, timeout=900)]
    n_cmp = n_unsup = n_limit = 0
    for (fi, s, f, tl, sl), i, m in zip(corr, impl, model):
        inp = dict(src=s, filter=f, tick_limit=tl, stack_limit=sl)
        if i["kind"] != "ok":
            ctx.disagree("testrun", inp, None, i.get("raw"), detail="hook op failed")
            continue
        if m["kind"] == "unsupported":
            n_unsup += 1
            continue
        if m["kind"] != "ok":
            ctx.disagree("testrun", inp, m.get("raw"), i["verdicts"], detail="model did not finish")
            continue
        n_cmp += 1
        n_limit += any(v in ("ticklimit", "stacklimit") for _, v in i["verdicts"])
        # ids in the hook's trace are those of the items it printed, so the traces are comparable
        for key in ("verdicts", "exit", "end", "out", "summary", "trace"):
            if i[key] != m[key]:
                det = "%s: impl %r / model %r" % (key, str(i[key])[:300], str(m[key])[:300])
                if key == "trace":
                    for k, (a, b) in enumerate(zip(i["trace"], m["trace"])):
                        if a != b:
                            det = "trace line %d: impl %r / model %r" % (k, a, b)
                            break
                    else:
                        det = "trace length: impl %d / model %d" % (len(i["trace"]), len(m["trace"]))
                ctx.disagree("testrun", inp, m["verdicts"], i["verdicts"], detail=det)
                break
        # hook == CLI for the unlimited runs of generated files
        if fi >= 0 and tl is None and sl is None and fi in per_file:
            for n, v in i["verdicts"]:
                obs = per_file[fi].get(n)
                if not obs:
                    continue
                cli = obs[0][0]
                hook = ("pass",) if v == "pass" else ("fail",)
                if cli[0] != hook[0]:
                    ctx.disagree("testrun-vs-cli", inp, None, [n, v, cli], detail="hook op and CLI give different verdicts")
    ctx.cov["correspondence_runs_compared"] = n_cmp
    ctx.cov["correspondence_runs_outside_fragment"] = n_unsup
    ctx.cov["correspondence_runs_with_limit_verdict"] = n_limit

    # ------------------------------------------------------------------ sandboxed-test (shared budget)
    probe = ([], [("a_loop", "test a_loop {\n  let i = 0\n  while True { i += 1 }\n}\n"),
                  ("b_ok", "test b_ok {\n  assert(True)\n}\n")], ["loop", "pass"])
    sb = [probe] + loops[:ctx.scale(3, 60)] + files[:ctx.scale(2, 40)]

    def run_sb(item):
        funs, tests, kinds = item
        src = render(funs, tests)
        path = os.path.join(scratch, "sb%d.gdn" % (abs(hash(src)) % 10**9))
        with open(path, "w") as f:
            f.write(src)
        out = {}
        offs = [("<all>", len(src) + 5)] + [(n, src.index("test " + n) + 6) for n, _ in tests]
        for n, off in offs:
            rc, so, se = ctx.garden(["sandboxed-test", path, str(off)], timeout=120)
            try:
                out[n] = (rc, json.loads(so))
            except Exception:
                out[n] = (rc, None)
        try:
            os.remove(path)
        except OSError:
            pass
        return src, out

    n_sb = n_shared = 0
    for (funs, tests, kinds), (src, out) in zip(sb, pmap(run_sb, sb)):
        rc_all, all_ = out["<all>"]
        if all_ is None:
            ctx.fail("C26/sandboxed-crash", "`garden sandboxed-test` gave no JSON (rc %s)" % rc_all, src=src)
            continue
        for n, _ in tests:
            rc1, alone = out[n]
            if alone is None or n not in alone.get("tests", {}) or n not in all_.get("tests", {}):
                ctx.fail("C26/sandboxed-crash", "`garden sandboxed-test` gave no verdict for %s" % n, src=src)
                continue
            n_sb += 1
            da, dw = alone["tests"][n]["description"], all_["tests"][n]["description"]
            if da != dw:
                if dw == "exceeded resource limit":
                    n_shared += 1
                    ctx.fail("C26/sandboxed-shared-tick-budget",
                             "sandboxed-test: test %s is %r alone but `exceeded resource limit` in the whole file: the "
                             "100000-tick budget is shared by all tests (env.ticks is never reset)" % (n, da),
                             src=src, test=n, alone=da, whole_file=dw)
                else:
                    ctx.fail("C26/sandboxed-verdict-depends-on-context",
                             "sandboxed-test: test %s is %r alone but %r in the whole file" % (n, da, dw), src=src)
    ctx.cov["sandboxed_test_verdicts_compared"] = n_sb
    ctx.cov["sandboxed_shared_budget_hits"] = n_shared

    ctx.sample({"src": render(*files[0][:2]), "kinds": files[0][2],
                "verdicts": {n: o[0][0] for n, o in per_file.get(0, {}).items()}})
    ctx.sample({"src": render(*files[1][:2]), "kinds": files[1][2],
                "verdicts": {n: o[0][0] for n, o in per_file.get(1, {}).items()}})
    ctx.assumptions += [
        "test bodies are in the fragment of the machine model M4 + assert (no methods, structs, dicts, floats, try, "
        "type hints); files outside it are skipped by the correspondence (counted) but not by the CLI oracle",
        "assert is modelled by an encoding (call of an `unsup \"assert\"` receiver) evaluated by a transcription of "
        "the Assert arm of eval_expr and of eval_assert; AssertionFailed is a tagged type-error in the model",
        "independence is proved for environments without a tick limit (garden test); with a limit it is false in "
        "model and code (finding C26/sandboxed-shared-tick-budget)",
        "one file per run (run_tests_in_files with several files loads them into one Env; not exercised)",
    ]
