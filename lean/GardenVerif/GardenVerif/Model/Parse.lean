import GardenVerif.Model.Syntax
/-!
M2 (part 2): `src/parser.rs` as fuel-indexed recursion over a token list.

* Input: the REAL lexer's tokens reduced to the facts the parser reads: `text`, `touchesPrev`
  (`start_offset == previous token's end_offset`; for token 0: `start_offset == 0`, which is what
  a `Position::todo` end offset compares equal to), `line`, `endLine`.
* Every parse function is `Nat → P α` (fuel first), `P α = St → Res α` with
  `Res = ok value state | panic site | outOfFuel`. `St` = token index + diagnostics kinds emitted.
* Panic sites: the ten `assert!(tokens.idx > start_idx)` (named by their line in the pinned
  `parser.rs`), the two `expect("TODO: handle empty …")`, `unpop` at index 0, `parse_float`'s `unwrap`.
* Positions: an expression carries `Pos = (line, endPos)`: its start line and its end offset encoded
  as `0` = offset 0 (`Position::todo`), `i+1` = end of token `i`. `Position::merge` keeps the first
  start line and the max end, so `merge` is `max` on this encoding, and the call test
  `expr.position.end_offset == '('.start_offset` is `endPos == idx ∧ tok.touchesPrev`.
* The model is of the tree WITH the three repairs in /verif/patches/parser-fix-left-assoc.diff
  (infix loop folds left: the right operand is parsed without infix operators),
  parser-fix-tuple-progress.diff (tuple loop breaks on an invalid element like its sibling loops) and
  parser-fix-eof-progress.diff: the three loops whose progress assertion fails at the end of the file
  (tuple type hint, parameters, destructuring; `parse_symbol` un-pops a token it never popped there)
  `break` instead of asserting, and the loops that never terminate there `break`: type arguments at the end
  of the file, type parameters / enum body / struct literal fields when an iteration made no progress.
  `parse_symbol` itself is unchanged. parser-fix-struct-literal-keyword.diff: `parse_struct_literal`
  returns `Invalid` when its name (a keyword on a later line) was not consumed.
  The flag `pn` ("pinned") selects the pre-repair behaviour of exactly these places (a pinned non-terminating loop shows
  as `outOfFuel`); theorems are about `pn = false`, the negative witnesses in
  Props/C03.lean and Props/C01Parse.lean about `pn = true`.
* Not modelled: syntax ids, `value_is_used` (second pass), doc comments, diagnostics' messages and
  positions (only their kind and order).
-/

namespace Parse

structure Tok where
  text : String
  touchesPrev : Bool
  line : Nat
  endLine : Nat
  deriving Repr, Inhabited, DecidableEq

inductive DiagKind where
  | invalid | incomplete
  deriving Repr, DecidableEq, Inhabited

structure St where
  idx : Nat
  diags : List DiagKind
  deriving Repr, DecidableEq

inductive Res (α : Type) where
  | ok (v : α) (s : St)
  | panic (site : String)
  | outOfFuel
  deriving Repr

def P (α : Type) := St → Res α

@[inline] def P.pure {α} (a : α) : P α := fun s => .ok a s
@[inline] def P.bind {α β} (m : P α) (f : α → P β) : P β := fun s =>
  match m s with
  | .ok a s' => f a s'
  | .panic p => .panic p
  | .outOfFuel => .outOfFuel

instance : Monad P where
  pure := P.pure
  bind := P.bind

def panic {α} (site : String) : P α := fun _ => .panic site
def outOfFuel {α} : P α := fun _ => .outOfFuel

/-- The 21 infix operators of `token_as_binary_op` (a translator regenerates this list). -/
def gardenBinaryOps : List String :=
  ["+", "+.", "-", "-.", "*", "*.", "/", "/.", "%", "**", "==", "!=", "&&", "||", "&", "|",
   "<", "<=", ">", ">=", "^"]

def keywords : List String :=
  ["let", "fun", "enum", "struct", "import", "if", "else", "while", "return", "test", "match",
   "break", "continue", "for", "in", "assert", "as", "method", "public", "shared", "try", "catch"]

/-! ### Token classification (the regex `is_match` calls are prefix matches) -/

def isSymStart (c : Char) : Bool := c.isAlpha || c == '_'

/-- `SYMBOL_RE.is_match`: `^[a-zA-Z_][a-zA-Z0-9_]*`. -/
def isSymbolTok (s : String) : Bool :=
  match s.toList with
  | c :: _ => isSymStart c
  | [] => false

/-- `INTEGER_RE.is_match`: `^-?[0-9][0-9_]*`. -/
def isIntTok (s : String) : Bool :=
  match s.toList with
  | '-' :: d :: _ => d.isDigit
  | d :: _ => d.isDigit
  | [] => false

def dropDigitsUnderscore : List Char → List Char
  | c :: cs => if c.isDigit || c == '_' then dropDigitsUnderscore cs else c :: cs
  | [] => []

/-- `FLOAT_RE.is_match`: `^-?[0-9][0-9_]*\.[0-9][0-9_]*`. -/
def isFloatChars (cs : List Char) : Bool :=
  let cs := match cs with | '-' :: r => r | r => r
  match cs with
  | d :: r =>
    d.isDigit && (match dropDigitsUnderscore r with
      | '.' :: d2 :: _ => d2.isDigit
      | _ => false)
  | [] => false

def isFloatTok (s : String) : Bool := isFloatChars s.toList

def isStringTok (s : String) : Bool :=
  match s.toList with
  | '"' :: _ => true
  | _ => false

def digitsToNat (cs : List Char) : Nat := cs.foldl (fun a c => a * 10 + (c.toNat - 48)) 0

/-- `text.replace('_', "").parse::<i64>()` on a text matching INTEGER_RE at its start. -/
def parseI64 (s : String) : Option Int :=
  let cs := s.toList.filter (· != '_')
  let (neg, ds) := match cs with | '-' :: r => (true, r) | r => (false, r)
  if ds.isEmpty || !ds.all Char.isDigit then none
  else
    let n : Int := digitsToNat ds
    let v := if neg then -n else n
    if -9223372036854775808 ≤ v ∧ v ≤ 9223372036854775807 then some v else none

/-- Is the whole text (after removing `_`) `-?digits.digits`? (`f64::from_str` then succeeds; anything
else that matched FLOAT_RE only as a prefix makes `parse().unwrap()` panic — except exponent forms,
which the real lexer never produces in one token.) -/
def floatWhole (cs : List Char) : Bool :=
  let cs := match cs with | '-' :: r => r | r => r
  match cs.span Char.isDigit with
  | (a, '.' :: b) => !a.isEmpty && !b.isEmpty && b.all Char.isDigit
  | _ => false

/-- `unescape_string`: returns the number of invalid escapes and the string. -/
def unescapeChars : List Char → Nat × List Char
  | '\\' :: 'n' :: r => let (n, s) := unescapeChars r; (n, '\n' :: s)
  | '\\' :: 't' :: r => let (n, s) := unescapeChars r; (n, '\t' :: s)
  | '\\' :: '\\' :: r => let (n, s) := unescapeChars r; (n, '\\' :: s)
  | '\\' :: '"' :: r => let (n, s) := unescapeChars r; (n, '"' :: s)
  | '\\' :: r => let (n, s) := unescapeChars r; (n + 1, '\\' :: s)
  | c :: r => let (n, s) := unescapeChars r; (n, c :: s)
  | [] => (0, [])

def dropLastQuote (cs : List Char) : List Char :=
  match cs.reverse with
  | '"' :: r => r.reverse
  | _ => cs

def unescapeTok (text : String) : Nat × String :=
  let (n, s) := unescapeChars (dropLastQuote (text.toList.drop 1))
  (n, String.ofList s)

/-! ### Positions -/

structure Pos where
  line : Nat
  endPos : Nat
  deriving Repr, DecidableEq, Inhabited

def Pos.todo : Pos := ⟨0, 0⟩
def Pos.merge (a b : Pos) : Pos := ⟨a.line, max a.endPos b.endPos⟩

/-- A token together with its index. -/
structure TokI where
  tok : Tok
  i : Nat
  deriving Repr, Inhabited

def TokI.pos (t : TokI) : Pos := ⟨t.tok.line, t.i + 1⟩
def TokI.text (t : TokI) : String := t.tok.text

structure PExpr where
  e : Expr
  pos : Pos
  deriving Inhabited

structure PSym where
  name : String
  pos : Pos
  deriving Inhabited

def PSym.isPlaceholder (s : PSym) : Bool := isPlaceholderName s.name

structure PBlock where
  exprs : List Expr
  close : Pos
  deriving Inhabited

def PBlock.block (b : PBlock) : Block := .mk b.exprs

/-! ### Token stream primitives -/

abbrev Toks := List Tok

def getIdx : P Nat := fun s => .ok s.idx s
def getDiags : P (List DiagKind) := fun s => .ok s.diags s
def setDiags (d : List DiagKind) : P Unit := fun s => .ok () { s with diags := d }
def diag (k : DiagKind) : P Unit := fun s => .ok () { s with diags := s.diags ++ [k] }

def peekAt (toks : Toks) (k : Nat) : P (Option TokI) := fun s =>
  .ok ((toks[s.idx + k]?).map fun t => ⟨t, s.idx + k⟩) s
def peek (toks : Toks) : P (Option TokI) := peekAt toks 0
def peekIs (toks : Toks) (text : String) : P Bool := fun s =>
  .ok (match toks[s.idx]? with | some t => t.text == text | none => false) s
def pop (toks : Toks) : P (Option TokI) := fun s =>
  match toks[s.idx]? with
  | some t => .ok (some ⟨t, s.idx⟩) { s with idx := s.idx + 1 }
  | none => .ok none s
def unpop : P Unit := fun s =>
  if s.idx > 0 then .ok () { s with idx := s.idx - 1 } else .panic "lex.rs:70 unpop"
def prev (toks : Toks) : P (Option TokI) := fun s =>
  .ok (if s.idx = 0 then none else (toks[s.idx - 1]?).map fun t => ⟨t, s.idx - 1⟩) s

/-- `require_a_token`. -/
def requireAToken (toks : Toks) : P TokI := do
  match ← pop toks with
  | some t => pure t
  | none =>
    let p ← prev toks
    diag .incomplete
    match p with
    | some t => pure t
    | none => panic "parser.rs:86 expect"

/-- `check_required_token`. -/
def checkRequiredToken (toks : Toks) (expected : String) : P (Bool × TokI) := do
  let p ← prev toks
  match ← pop toks with
  | some t =>
    if t.text != expected then do
      diag .invalid
      unpop
      pure (false, t)
    else pure (true, t)
  | none =>
    diag .incomplete
    match p with
    | some t => pure (false, t)
    | none => panic "parser.rs:151 expect"

def requireToken (toks : Toks) (expected : String) : P TokI := do
  let (_, t) ← checkRequiredToken toks expected
  pure t

def requiredTokenOk (toks : Toks) (expected : String) : P Bool := do
  let (ok, _) ← checkRequiredToken toks expected
  pure ok

/-- `parse_symbol` (the description only changes message texts). -/
def parseSymbol (toks : Toks) (_pn : Bool) : P PSym := do
  let p ← prev toks
  -- NB at the end of the file `require_a_token` hands back the PREVIOUS token, which is then
  -- treated as the symbol, or un-popped although it was never popped (the index moves BACK by one).
  -- The loops that call this guard against the resulting lack of progress (parser-fix-eof-progress).
  let t ← requireAToken toks
  if !isSymbolTok t.text then do
    diag .invalid
    unpop
    pure ⟨"__placeholder", t.pos⟩
  else if keywords.contains t.text then do
    let sameLine := match p with
      | some pt => pt.tok.endLine == t.tok.line
      | none => false
    if sameLine then do
      diag .invalid
      pure ⟨"__keyword_placeholder", t.pos⟩
    else do
      diag .invalid
      unpop
      pure ⟨"__keyword_placeholder", t.pos⟩
  else pure ⟨t.text, t.pos⟩

/-- Diagnostics for repeated names (`parse_parameters`, `parse_let_destination`). -/
def dupDiags : List String → List String → P Unit
  | [], _ => pure ()
  | x :: xs, seen =>
    if x == "_" then dupDiags xs seen
    else if seen.contains x then do diag .invalid; dupDiags xs seen
    else dupDiags xs (x :: seen)

/-! ### Type hints, parameters, destinations, patterns (no expressions inside) -/

mutual
/-- `parse_type_hint`. -/
def parseTypeHint (toks : Toks) (pn : Bool) : Nat → P TypeHint
  | 0 => outOfFuel
  | fuel + 1 => do
    if ← peekIs toks "(" then parseTupleTypeHint toks pn fuel
    else do
      let sym ← parseSymbol toks pn
      let args ← parseTypeArguments toks pn fuel
      if sym.name == "Tuple" then diag .invalid
      pure (.mk sym.name args)
/-- `parse_type_arguments`. -/
def parseTypeArguments (toks : Toks) (pn : Bool) : Nat → P (List TypeHint)
  | 0 => outOfFuel
  | fuel + 1 => do
    if !(← peekIs toks "<") then pure []
    else do
      let _ ← requireToken toks "<"
      let args ← typeArgsLoop toks pn fuel []
      let _ ← requireToken toks ">"
      pure args
def typeArgsLoop (toks : Toks) (pn : Bool) : Nat → List TypeHint → P (List TypeHint)
  | 0, _ => outOfFuel
  | fuel + 1, acc => do
    if ← peekIs toks ">" then pure acc
    -- repair: at the end of the file stop (the pinned code re-reads the `<` / `,` that `parse_symbol`
    -- un-pops and recurses / loops forever)
    else if !pn && (← peek toks).isNone then pure acc
    else do
      let arg ← parseTypeHint toks pn fuel
      let acc := acc ++ [arg]
      match ← peek toks with
      | some t =>
        if t.text == "," then do let _ ← pop toks; typeArgsLoop toks pn fuel acc
        else if t.text == ">" then pure acc
        else do diag .invalid; pure acc
      | none => do diag .incomplete; pure acc
/-- `parse_tuple_type_hint`. -/
def parseTupleTypeHint (toks : Toks) (pn : Bool) : Nat → P TypeHint
  | 0 => outOfFuel
  | fuel + 1 => do
    let _ ← requireToken toks "("
    let items ← tupleHintLoop toks pn fuel []
    let _ ← requireToken toks ")"
    pure (.mk "Tuple" items)
def tupleHintLoop (toks : Toks) (pn : Bool) : Nat → List TypeHint → P (List TypeHint)
  | 0, _ => outOfFuel
  | fuel + 1, acc => do
    let start ← getIdx
    if ← peekIs toks ")" then pure acc
    else do
      let h ← parseTypeHint toks pn fuel
      let acc := acc ++ [h]
      match ← peek toks with
      | none => do diag .incomplete; pure acc
      | some t =>
        if t.text == ")" then pure acc
        else do
          if t.text == "," then do let _ ← pop toks
          else do diag .incomplete; let _ ← pop toks
          if (← getIdx) > start then tupleHintLoop toks pn fuel acc
          else if pn then panic "parser.rs:1995" else pure acc
end

/-- `parse_type_params`. -/
def typeParamsLoop (toks : Toks) (pn : Bool) : Nat → List String → P (List String)
  | 0, _ => outOfFuel
  | fuel + 1, acc => do
    if ← peekIs toks ">" then pure acc
    else do
      let start ← getIdx
      let arg ← parseSymbol toks pn
      let acc := acc ++ [arg.name]
      match ← peek toks with
      | some t =>
        if t.text == "," then do
          let _ ← pop toks
          if !pn && (← getIdx) ≤ start then pure acc else typeParamsLoop toks pn fuel acc
        else if t.text == ">" then pure acc
        else do diag .invalid; pure acc
      | none => do diag .incomplete; pure acc

def parseTypeParams (toks : Toks) (pn : Bool) (fuel : Nat) : P (List String) := do
  if !(← peekIs toks "<") then pure []
  else do
    let _ ← requireToken toks "<"
    let ps ← typeParamsLoop toks pn fuel []
    let _ ← requireToken toks ">"
    pure ps

/-- `parse_colon_and`. -/
def parseColonAnd (toks : Toks) (pn : Bool) (fuel : Nat) : P TypeHint := do
  let _ ← requireToken toks ":"
  parseTypeHint toks pn fuel

/-- `parse_colon_and_hint_opt`. -/
def parseColonAndHintOpt (toks : Toks) (pn : Bool) (fuel : Nat) : P (Option TypeHint) := do
  match ← peek toks with
  | none => pure none
  | some t =>
    if t.text == ":" then do
      let h ← parseColonAnd toks pn fuel
      pure (some h)
    else if isSymbolTok t.text && !keywords.contains t.text then do
      diag .invalid
      let h ← parseTypeHint toks pn fuel
      pure (some h)
    else pure none

/-- `parse_parameter(…, require_type_hint = false)` (the only call in the pinned tree). -/
def parseParameter (toks : Toks) (pn : Bool) (fuel : Nat) : P Param := do
  let s ← parseSymbol toks pn
  let h ← parseColonAndHintOpt toks pn fuel
  pure ⟨s.name, h⟩

def paramsLoop (toks : Toks) (pn : Bool) : Nat → List Param → P (List Param)
  | 0, _ => outOfFuel
  | fuel + 1, acc => do
    let start ← getIdx
    if ← peekIs toks ")" then pure acc
    else do
      let p ← parseParameter toks pn fuel
      let acc := acc ++ [p]
      match ← peek toks with
      | some t =>
        if t.text == "," then do
          let _ ← pop toks
          if (← getIdx) > start then paramsLoop toks pn fuel acc
          else if pn then panic "parser.rs:2183" else pure acc
        else if t.text == ")" then pure acc
        else do diag .invalid; pure acc
      | none => do diag .incomplete; pure acc

/-- `parse_parameters`; also returns the positions of the parentheses' end (unused by callers). -/
def parseParameters (toks : Toks) (pn : Bool) (fuel : Nat) : P (List Param) := do
  let (ok, _) ← checkRequiredToken toks "("
  if !ok then pure []
  else do
    let ps ← paramsLoop toks pn fuel []
    let _ ← requireToken toks ")"
    dupDiags (ps.map (·.name)) []
    pure ps

def destLoop (toks : Toks) (pn : Bool) : Nat → List String → P (List String)
  | 0, _ => outOfFuel
  | fuel + 1, acc => do
    if ← peekIs toks ")" then do let _ ← pop toks; pure acc
    else do
      let start ← getIdx
      let s ← parseSymbol toks pn
      if s.isPlaceholder && !(← peekIs toks ",") then pure acc
      else do
        let acc := acc ++ [s.name]
        if !(← peekIs toks ")") then do let _ ← requireToken toks ","
        if (← getIdx) > start then destLoop toks pn fuel acc
        else if pn then panic "parser.rs:2812" else pure acc

/-- `parse_let_destination`. -/
def parseLetDestination (toks : Toks) (pn : Bool) (fuel : Nat) : P LetDest := do
  if ← peekIs toks "(" then do
    let _ ← pop toks
    let syms ← destLoop toks pn fuel []
    dupDiags syms []
    pure (.destr syms)
  else do
    let s ← parseSymbol toks pn
    pure (.sym s.name)

/-- `parse_pattern`. -/
def parsePattern (toks : Toks) (pn : Bool) (fuel : Nat) : P Pattern := do
  let v ← parseSymbol toks pn
  if ← peekIs toks "(" then do
    let _ ← requireToken toks "("
    let d ← parseLetDestination toks pn fuel
    let _ ← requireToken toks ")"
    pure ⟨v.name, some d⟩
  else pure ⟨v.name, none⟩

/-! ### Literals -/

/-- `parse_integer`. -/
def parseInteger (toks : Toks) : P PExpr := do
  let t ← requireAToken toks
  if isIntTok t.text then
    match parseI64 t.text with
    | some i => pure ⟨.intLit i, t.pos⟩
    | none => do diag .invalid; pure ⟨.intLit 11223344, t.pos⟩
  else do diag .invalid; pure ⟨.intLit 11223344, t.pos⟩

/-- `parse_float`. -/
def parseFloat (toks : Toks) : P PExpr := do
  let t ← requireAToken toks
  if isFloatTok t.text then
    let cs := t.text.toList.filter (· != '_')
    if floatWhole cs then pure ⟨.floatLit (String.ofList cs), t.pos⟩
    else panic "parser.rs:229 unwrap"
  else do diag .invalid; pure ⟨.floatLit "1122.3344", t.pos⟩

/-- `parse_variable`. -/
def parseVariable (toks : Toks) (pn : Bool) : P PExpr := do
  let s ← parseSymbol toks pn
  pure ⟨.var s.name, s.pos⟩

def diagN : Nat → DiagKind → P Unit
  | 0, _ => pure ()
  | n + 1, k => do diag k; diagN n k

/-- Position of `)`/`]` after a comma-separated list (`parse_call_arguments`, `parse_list_literal`). -/
def closePos (toks : Toks) (term : String) : P Pos := do
  match ← peek toks with
  | some t =>
    if t.text == term then do let _ ← pop toks; pure t.pos
    else match ← prev toks with
      | some p => pure p.pos
      | none => pure Pos.todo
  | none => match ← prev toks with
      | some p => pure p.pos
      | none => pure Pos.todo

/-- The `while let Some(t) = tokens.peek() { if t.text == "}" {break} else {pop} }` of
`parse_struct_literal_fields`. -/
def skipToCloseBrace (toks : Toks) : P Unit := fun s =>
  .ok () { s with idx := s.idx + ((toks.drop s.idx).takeWhile (fun t => t.text != "}")).length }

/-! ### Expressions -/

mutual
/-- `parse_expression` (`allowBinop = true`) and, after the left-associativity repair, the operand
parser used for the right-hand side of an infix operator (`allowBinop = false`). -/
def parseExpressionT (toks : Toks) (pn : Bool) (allowBinop : Bool) : Nat → P PExpr
  | 0 => outOfFuel
  | fuel + 1 => do
    let e ← parseNoTrailing toks pn fuel
    trailing toks pn allowBinop fuel e

/-- The `loop` of `parse_expression`. -/
def trailing (toks : Toks) (pn : Bool) (allowBinop : Bool) : Nat → PExpr → P PExpr
  | 0, _ => outOfFuel
  | fuel + 1, expr => do
    let start ← getIdx
    match ← peek toks with
    | none => pure expr
    | some t =>
      if t.text == "(" && expr.pos.endPos == start && t.tok.touchesPrev then do
        let (args, close) ← parseCallArguments toks pn fuel
        let expr' : PExpr := ⟨.call expr.e args, expr.pos.merge close⟩
        if (← getIdx) > start then trailing toks pn allowBinop fuel expr' else panic "parser.rs:1361"
      else if t.text == "." then do
        let _ ← pop toks
        let next ← peek toks
        let touching := match next with | some n => n.tok.touchesPrev | none => false
        if touching then do
          let v ← parseSymbol toks pn
          if ← peekIs toks "(" then do
            let (args, close) ← parseCallArguments toks pn fuel
            let expr' : PExpr := ⟨.mcall expr.e v.name args, expr.pos.merge close⟩
            if (← getIdx) > start then trailing toks pn allowBinop fuel expr' else panic "parser.rs:1361"
          else do
            let expr' : PExpr := ⟨.dot expr.e v.name, expr.pos.merge v.pos⟩
            if (← getIdx) > start then trailing toks pn allowBinop fuel expr' else panic "parser.rs:1361"
        else do
          diag .invalid
          let expr' : PExpr := ⟨.dot expr.e "__placeholder", expr.pos.merge t.pos⟩
          if (← getIdx) > start then trailing toks pn allowBinop fuel expr' else panic "parser.rs:1361"
      else if t.text == "::" then do
        let _ ← pop toks
        let next ← peek toks
        let touching := match next with | some n => n.tok.touchesPrev | none => false
        if touching then do
          let v ← parseSymbol toks pn
          let expr' : PExpr := ⟨.ns expr.e v.name, expr.pos.merge v.pos⟩
          if (← getIdx) > start then trailing toks pn allowBinop fuel expr' else panic "parser.rs:1361"
        else do
          diag .invalid
          let expr' : PExpr := ⟨.ns expr.e "__placeholder", expr.pos.merge t.pos⟩
          if (← getIdx) > start then trailing toks pn allowBinop fuel expr' else panic "parser.rs:1361"
      else if (allowBinop || pn) && gardenBinaryOps.contains t.text then do
        let _ ← pop toks
        if pn then do
          -- pinned tree: right-recursive call, then ONE rotation (parser.rs:1321-1357). The rotated
          -- node's position is approximated by the merge with the whole right operand.
          let rhs ← parseExpressionT toks pn true fuel
          let expr' : PExpr := match rhs.e with
            | .binop nl nop nr => ⟨.binop (.binop expr.e t.text nl) nop nr, expr.pos.merge rhs.pos⟩
            | r => ⟨.binop expr.e t.text r, expr.pos.merge rhs.pos⟩
          if (← getIdx) > start then trailing toks pn allowBinop fuel expr' else panic "parser.rs:1361"
        else do
          -- repaired tree: the right operand is parsed without infix operators, the loop folds left
          let rhs ← parseExpressionT toks pn false fuel
          let expr' : PExpr := ⟨.binop expr.e t.text rhs.e, expr.pos.merge rhs.pos⟩
          if (← getIdx) > start then trailing toks pn allowBinop fuel expr' else panic "parser.rs:1361"
      else pure expr

/-- `parse_call_arguments`. -/
def parseCallArguments (toks : Toks) (pn : Bool) : Nat → P (List Expr × Pos)
  | 0 => outOfFuel
  | fuel + 1 => do
    let open_ ← requireToken toks "("
    let args ← commaSep toks pn fuel open_.tok.line ")" []
    let close ← closePos toks ")"
    pure (args, close)

/-- `parse_comma_separated_exprs`. -/
def commaSep (toks : Toks) (pn : Bool) : Nat → Nat → String → List Expr → P (List Expr)
  | 0, _, _, _ => outOfFuel
  | fuel + 1, openLine, term, acc => do
    if ← peekIs toks term then pure acc
    else do
      let start ← getIdx
      let arg ← parseExpressionT toks pn true fuel
      if arg.e.isInvalidOrPlaceholder then pure acc
      else if !((← getIdx) > start) then panic "parser.rs:1082"
      else
        match ← peek toks with
        | some t =>
          if t.text == "," then do
            let _ ← pop toks
            commaSep toks pn fuel openLine term (acc ++ [arg.e])
          else if t.text != term then do
            diag .invalid
            if arg.pos.line == t.tok.line then commaSep toks pn fuel openLine term (acc ++ [arg.e])
            else if openLine != arg.pos.line then commaSep toks pn fuel openLine term (acc ++ [arg.e])
            else pure (acc ++ [arg.e])
          else pure (acc ++ [arg.e])
        | none => do
          diag .incomplete
          pure (acc ++ [arg.e])

/-- `parse_expression_no_trailing`. -/
def parseNoTrailing (toks : Toks) (pn : Bool) : Nat → P PExpr
  | 0 => outOfFuel
  | fuel + 1 => do
    let t1 ← peek toks
    let t2 ← peekAt toks 1
    let second := match t1, t2 with
      | some _, some b => b.text
      | _, _ => ""
    if second == "=" then parseAssign toks pn fuel
    else if second == "+=" || second == "-=" then parseAssignUpdate toks pn fuel
    else
      let first := match t1 with | some a => a.text | none => ""
      if first == "let" then parseLet toks pn fuel
      else if first == "return" then parseReturn toks pn fuel
      else if first == "while" then parseWhile toks pn fuel
      else if first == "for" then parseForIn toks pn fuel
      else if first == "break" then do
        let t ← requireToken toks "break"; pure ⟨.brk, t.pos⟩
      else if first == "continue" then do
        let t ← requireToken toks "continue"; pure ⟨.cont, t.pos⟩
      else if first == "if" then parseIf toks pn fuel
      else if first == "match" then parseMatch toks pn fuel
      else if first == "try" then parseTry toks pn fuel
      else parseSimple toks pn fuel

/-- `parse_simple_expression`. -/
def parseSimple (toks : Toks) (pn : Bool) : Nat → P PExpr
  | 0 => outOfFuel
  | fuel + 1 => do
    match ← peek toks with
    | none => do
      diag .incomplete
      pure ⟨.invalid, Pos.todo⟩
    | some t =>
      let next ← peekAt toks 1
      if t.text == "(" then parseTupleOrParen toks pn fuel
      else if t.text == "[" then parseListLiteral toks pn fuel
      else if t.text == "Dict" then parseDictLiteral toks pn fuel
      else if t.text == "fun" && (match next with | some n => n.text == "(" | none => false) then
        parseLambda toks pn fuel
      else if t.text == "assert" then parseAssert toks pn fuel
      else if isSymbolTok t.text then
        if (match next with | some n => n.text == "{" && n.tok.touchesPrev | none => false) then
          parseStructLiteral toks pn fuel
        else parseVariable toks pn
      else if isStringTok t.text then do
        let _ ← pop toks
        let (n, s) := unescapeTok t.text
        diagN n .invalid
        pure ⟨.strLit s, t.pos⟩
      else if isFloatTok t.text then parseFloat toks
      else if isIntTok t.text then parseInteger toks
      else do
        diag .invalid
        pure ⟨.invalid, t.pos⟩

/-- `parse_tuple_literal_or_parentheses`. -/
def parseTupleOrParen (toks : Toks) (pn : Bool) : Nat → P PExpr
  | 0 => outOfFuel
  | fuel + 1 => do
    let open_ ← requireToken toks "("
    if ← peekIs toks ")" then do
      let close ← requireToken toks ")"
      pure ⟨.tuple [], open_.pos.merge close.pos⟩
    else do
      let e ← parseExpressionT toks pn true fuel
      if ← peekIs toks "," then do
        let es ← tupleLoop toks pn fuel [e.e]
        let close ← requireToken toks ")"
        pure ⟨.tuple es, open_.pos.merge close.pos⟩
      else do
        let close ← requireToken toks ")"
        pure ⟨.paren e.e, open_.pos.merge close.pos⟩

/-- The loop of `parse_tuple_literal_or_parentheses` WITH the repair (break on an invalid element). -/
def tupleLoop (toks : Toks) (pn : Bool) : Nat → List Expr → P (List Expr)
  | 0, _ => outOfFuel
  | fuel + 1, acc => do
    let isComma ← peekIs toks ","
    let isClose ← peekIs toks ")"
    if !isComma && !isClose then do
      diag .invalid
      pure acc
    else do
      if isComma then do let _ ← pop toks
      if ← peekIs toks ")" then pure acc
      else do
        let start ← getIdx
        let e ← parseExpressionT toks pn true fuel
        if !pn && e.e.isInvalidOrPlaceholder then pure acc
        else if (← getIdx) > start then tupleLoop toks pn fuel (acc ++ [e.e])
        else panic "parser.rs:328"

/-- `parse_list_literal`. -/
def parseListLiteral (toks : Toks) (pn : Bool) : Nat → P PExpr
  | 0 => outOfFuel
  | fuel + 1 => do
    let open_ ← requireToken toks "["
    let items ← commaSep toks pn fuel open_.tok.line "]" []
    let close ← closePos toks "]"
    pure ⟨.list items, open_.pos.merge close⟩

/-- `parse_dict_literal`. -/
def parseDictLiteral (toks : Toks) (pn : Bool) : Nat → P PExpr
  | 0 => outOfFuel
  | fuel + 1 => do
    let d ← requireToken toks "Dict"
    let _ ← requireToken toks "["
    let items ← dictLoop toks pn fuel []
    let close ← requireToken toks "]"
    pure ⟨.dict items, d.pos.merge close.pos⟩

/-- `parse_dict_literal_items`. -/
def dictLoop (toks : Toks) (pn : Bool) : Nat → List KV → P (List KV)
  | 0, _ => outOfFuel
  | fuel + 1, acc => do
    if ← peekIs toks "]" then pure acc
    else do
      let start ← getIdx
      let k ← parseExpressionT toks pn true fuel
      if k.e.isInvalidOrPlaceholder then pure acc
      else do
        let _ ← requireToken toks "=>"
        let v ← parseExpressionT toks pn true fuel
        let acc := acc ++ [KV.mk k.e v.e]
        if !((← getIdx) > start) then panic "parser.rs:404"
        else
          match ← peek toks with
          | some t =>
            if t.text == "," then do let _ ← pop toks; dictLoop toks pn fuel acc
            else if t.text != "]" then do diag .invalid; dictLoop toks pn fuel acc
            else pure acc
          | none => do diag .incomplete; pure acc

/-- `parse_lambda`. -/
def parseLambda (toks : Toks) (pn : Bool) : Nat → P PExpr
  | 0 => outOfFuel
  | fuel + 1 => do
    let f ← requireToken toks "fun"
    let tps ← parseTypeParams toks pn fuel
    let ps ← parseParameters toks pn fuel
    let r ← parseColonAndHintOpt toks pn fuel
    let body ← parseBlock toks pn fuel
    pure ⟨.lambda (.mk tps ps r body.block), f.pos.merge body.close⟩

/-- `parse_assert`. -/
def parseAssert (toks : Toks) (pn : Bool) : Nat → P PExpr
  | 0 => outOfFuel
  | fuel + 1 => do
    let kw ← requireToken toks "assert"
    let open_ ← requireToken toks "("
    if ← peekIs toks ")" then do
      match ← pop toks with
      | some close => do
        diag .invalid
        pure ⟨.invalid, open_.pos.merge close.pos⟩
      | none => panic "parser.rs:512 unwrap"
    else do
      let e ← parseExpressionT toks pn true fuel
      let close ← requireToken toks ")"
      pure ⟨.assertE e.e, kw.pos.merge close.pos⟩

/-- `parse_if`. -/
def parseIf (toks : Toks) (pn : Bool) : Nat → P PExpr
  | 0 => outOfFuel
  | fuel + 1 => do
    let ifTok ← requireToken toks "if"
    let c ← parseExpressionT toks pn true fuel
    let t ← parseBlock toks pn fuel
    if ← peekIs toks "else" then do
      let _ ← pop toks
      if ← peekIs toks "if" then do
        let inner ← parseIf toks pn fuel
        pure ⟨.ifE c.e t.block (some (.mk [inner.e])), ifTok.pos.merge inner.pos⟩
      else do
        let e ← parseBlock toks pn fuel
        pure ⟨.ifE c.e t.block (some e.block), ifTok.pos.merge e.close⟩
    else pure ⟨.ifE c.e t.block none, ifTok.pos.merge t.close⟩

/-- `parse_while`. -/
def parseWhile (toks : Toks) (pn : Bool) : Nat → P PExpr
  | 0 => outOfFuel
  | fuel + 1 => do
    let w ← requireToken toks "while"
    let c ← parseExpressionT toks pn true fuel
    let b ← parseBlock toks pn fuel
    pure ⟨.whileE c.e b.block, w.pos.merge b.close⟩

/-- `parse_try`. -/
def parseTry (toks : Toks) (pn : Bool) : Nat → P PExpr
  | 0 => outOfFuel
  | fuel + 1 => do
    let t ← requireToken toks "try"
    let b ← parseBlock toks pn fuel
    let _ ← requireToken toks "catch"
    let _ ← requireToken toks "("
    let s ← parseSymbol toks pn
    let _ ← requireToken toks ")"
    let c ← parseBlock toks pn fuel
    pure ⟨.tryE b.block s.name c.block, t.pos.merge c.close⟩

/-- `parse_for_in`. -/
def parseForIn (toks : Toks) (pn : Bool) : Nat → P PExpr
  | 0 => outOfFuel
  | fuel + 1 => do
    let f ← requireToken toks "for"
    let d ← parseLetDestination toks pn fuel
    let _ ← requireToken toks "in"
    let e ← parseExpressionT toks pn true fuel
    let b ← parseBlock toks pn fuel
    pure ⟨.forIn d e.e b.block, f.pos.merge b.close⟩

/-- `parse_return`. -/
def parseReturn (toks : Toks) (pn : Bool) : Nat → P PExpr
  | 0 => outOfFuel
  | fuel + 1 => do
    let r ← requireToken toks "return"
    match ← peek toks with
    | some n =>
      if r.tok.endLine == n.tok.line then do
        let e ← parseExpressionT toks pn true fuel
        pure ⟨.ret (some e.e), r.pos.merge e.pos⟩
      else pure ⟨.ret none, r.pos⟩
    | none => pure ⟨.ret none, r.pos⟩

/-- `parse_struct_literal`. -/
def parseStructLiteral (toks : Toks) (pn : Bool) : Nat → P PExpr
  | 0 => outOfFuel
  | fuel + 1 => do
    let start ← getIdx
    let name ← parseSymbol toks pn
    -- repair parser-fix-struct-literal-keyword.diff: the name is a keyword on a later line, which
    -- `parse_symbol` does not consume; the pinned code then re-enters this function on the same token
    -- from the fields loop without bound (native stack overflow; `outOfFuel` here)
    if !pn && (← getIdx) == start then pure ⟨.invalid, name.pos⟩
    else do
    let _ ← requireToken toks "{"
    let fields ← fieldsLoop toks pn fuel []
    let close ← requireToken toks "}"
    pure ⟨.structLit name.name fields, name.pos.merge close.pos⟩

/-- `parse_struct_literal_fields`. -/
def fieldsLoop (toks : Toks) (pn : Bool) : Nat → List Field → P (List Field)
  | 0, _ => outOfFuel
  | fuel + 1, acc => do
    if ← peekIs toks "}" then pure acc
    else do
      let start ← getIdx
      let sym ← parseSymbol toks pn
      if sym.isPlaceholder then do
        if ← peekIs toks ":" then do let _ ← pop toks
      else do let _ ← requireToken toks ":"
      let e ← parseExpressionT toks pn true fuel
      if (← getIdx) == start then do
        skipToCloseBrace toks
        pure acc
      else do
        let acc := acc ++ [Field.mk sym.name e.e]
        match ← peek toks with
        | none => do diag .incomplete; pure acc
        | some t =>
          if t.text == "," then do let _ ← pop toks
          -- repair: an iteration that ends where it started would repeat forever (pinned: it does)
          if !pn && (← getIdx) == start then pure acc else fieldsLoop toks pn fuel acc

/-- `parse_match`. -/
def parseMatch (toks : Toks) (pn : Bool) : Nat → P PExpr
  | 0 => outOfFuel
  | fuel + 1 => do
    let kw ← requireToken toks "match"
    let s ← parseExpressionT toks pn true fuel
    let open_ ← requireToken toks "{"
    if open_.text != "{" then pure ⟨.matchE s.e [], s.pos⟩
    else do
      let cases ← matchLoop toks pn fuel []
      let close ← requireToken toks "}"
      pure ⟨.matchE s.e cases, kw.pos.merge close.pos⟩

def matchLoop (toks : Toks) (pn : Bool) : Nat → List Case → P (List Case)
  | 0, _ => outOfFuel
  | fuel + 1, acc => do
    match ← peek toks with
    | none => do diag .incomplete; pure acc
    | some t =>
      if t.text == "}" then pure acc
      else do
        let start ← getIdx
        let pat ← parsePattern toks pn fuel
        let _ ← requireToken toks "=>"
        let b ← parseCaseBlock toks pn fuel
        -- `if tokens.idx <= start_idx { break }` makes the assertion at parser.rs:995 unreachable
        if (← getIdx) ≤ start then pure acc
        else matchLoop toks pn fuel (acc ++ [Case.mk pat b.block])

/-- `parse_case_block`. -/
def parseCaseBlock (toks : Toks) (pn : Bool) : Nat → P PBlock
  | 0 => outOfFuel
  | fuel + 1 => do
    let b ← (do
      if ← peekIs toks "{" then parseBlock toks pn fuel
      else do
        let e ← parseExpressionT toks pn true fuel
        pure (⟨[e.e], e.pos⟩ : PBlock))
    if ← peekIs toks "," then do let _ ← pop toks
    pure b

/-- `parse_block`. -/
def parseBlock (toks : Toks) (pn : Bool) : Nat → P PBlock
  | 0 => outOfFuel
  | fuel + 1 => do
    let open_ ← requireToken toks "{"
    if open_.text != "{" then pure ⟨[], open_.pos⟩
    else do
      let es ← blockLoop toks pn fuel []
      let close ← requireToken toks "}"
      pure ⟨es, close.pos⟩

def blockLoop (toks : Toks) (pn : Bool) : Nat → List Expr → P (List Expr)
  | 0, _ => outOfFuel
  | fuel + 1, acc => do
    match ← peek toks with
    | none => pure acc
    | some t =>
      if t.text == "}" then pure acc
      else do
        let start ← getIdx
        let e ← parseExpressionT toks pn true fuel
        if e.e.isInvalidOrPlaceholder then pure acc
        else if (← getIdx) > start then blockLoop toks pn fuel (acc ++ [e.e])
        else panic "parser.rs:2334"

/-- `parse_let`. -/
def parseLet (toks : Toks) (pn : Bool) : Nat → P PExpr
  | 0 => outOfFuel
  | fuel + 1 => do
    let l ← requireToken toks "let"
    let d ← parseLetDestination toks pn fuel
    let h ← parseColonAndHintOpt toks pn fuel
    let _ ← requireToken toks "="
    let e ← parseExpressionT toks pn true fuel
    pure ⟨.letE d h e.e, l.pos.merge e.pos⟩

/-- `parse_assign`. -/
def parseAssign (toks : Toks) (pn : Bool) : Nat → P PExpr
  | 0 => outOfFuel
  | fuel + 1 => do
    let v ← parseSymbol toks pn
    if !(← peekIs toks "=") then pure ⟨.invalid, Pos.todo⟩
    else do
      let _ ← requireToken toks "="
      let e ← parseExpressionT toks pn true fuel
      pure ⟨.assign v.name e.e, v.pos.merge e.pos⟩

/-- `parse_assign_update`. -/
def parseAssignUpdate (toks : Toks) (pn : Bool) : Nat → P PExpr
  | 0 => outOfFuel
  | fuel + 1 => do
    let v ← parseSymbol toks pn
    let opTok ← requireAToken toks
    let op ← (if opTok.text == "+=" then pure "+="
              else if opTok.text == "-=" then pure "-="
              else do diag .invalid; pure "+=" : P String)
    let e ← parseExpressionT toks pn true fuel
    pure ⟨.update op v.name e.e, v.pos.merge e.pos⟩
end

/-- `parse_expression`. -/
abbrev parseExpression (toks : Toks) (pn : Bool) (fuel : Nat) : P PExpr := parseExpressionT toks pn true fuel

/-! ### Definitions -/

def popIfPublic (toks : Toks) : P Bool := do
  if ← peekIs toks "public" then do let _ ← pop toks; pure true
  else pure false

/-- `parse_function` + `parse_function_`. -/
def parseFunction (toks : Toks) (pn : Bool) (fuel : Nat) : P (Option Item) := do
  let pub ← popIfPublic toks
  let _ ← requireToken toks "fun"
  let name ← parseSymbol toks pn
  if name.name == "__keyword_placeholder" then pure none
  else do
    let tps ← parseTypeParams toks pn fuel
    let ps ← parseParameters toks pn fuel
    let r ← parseColonAndHintOpt toks pn fuel
    let body ← parseBlock toks pn fuel
    pure (some (.func pub name.name (.mk tps ps r body.block)))

/-- `parse_method`. -/
def parseMethod (toks : Toks) (pn : Bool) (fuel : Nat) : P Item := do
  let pub ← popIfPublic toks
  let _ ← requireToken toks "method"
  let name ← parseSymbol toks pn
  let tps ← parseTypeParams toks pn fuel
  let ps ← parseParameters toks pn fuel
  let (recv, recvHint, rest) ← (match ps with
    | [] => do
      diag .invalid
      pure ("__placeholder", TypeHint.mk "__placeholder" [], [])
    | p :: rest =>
      pure (p.name, (match p.hint with | some h => h | none => TypeHint.mk "__placeholder" []), rest)
    : P (String × TypeHint × List Param))
  let r ← parseColonAndHintOpt toks pn fuel
  let body ← parseBlock toks pn fuel
  pure (.method pub name.name recv recvHint (.mk tps rest r body.block))

/-- `parse_test`. -/
def parseTest (toks : Toks) (pn : Bool) (fuel : Nat) : P Item := do
  let _ ← requireToken toks "test"
  let name ← parseSymbol toks pn
  if ← peekIs toks "(" then do
    let saved ← getDiags
    let _ ← parseParameters toks pn fuel
    setDiags saved
    diag .invalid
  let body ← parseBlock toks pn fuel
  pure (.test name.name body.block)

/-- `parse_variant`. -/
def parseVariant (toks : Toks) (pn : Bool) (fuel : Nat) : P Variant := do
  let name ← parseSymbol toks pn
  if ← peekIs toks "(" then do
    let _ ← pop toks
    let h ← parseTypeHint toks pn fuel
    let _ ← requireToken toks ")"
    pure ⟨name.name, some h⟩
  else pure ⟨name.name, none⟩

/-- `parse_enum_body`. -/
def enumBodyLoop (toks : Toks) (pn : Bool) : Nat → List Variant → P (List Variant)
  | 0, _ => outOfFuel
  | fuel + 1, acc => do
    if ← peekIs toks "}" then pure acc
    else do
      let start ← getIdx
      let v ← parseVariant toks pn fuel
      match ← peek toks with
      | some t =>
        if t.text == "," then do
          let _ ← pop toks
          if !pn && (← getIdx) ≤ start then pure (acc ++ [v]) else enumBodyLoop toks pn fuel (acc ++ [v])
        else if t.text == "}" then pure (acc ++ [v])
        else do diag .invalid; pure (acc ++ [v])
      | none => do diag .incomplete; pure (acc ++ [v])

/-- `parse_enum`. -/
def parseEnum (toks : Toks) (pn : Bool) (fuel : Nat) : P Item := do
  let pub ← popIfPublic toks
  let _ ← requireToken toks "enum"
  let name ← parseSymbol toks pn
  let tps ← parseTypeParams toks pn fuel
  if !(← requiredTokenOk toks "{") then pure (.enum pub name.name tps [])
  else do
    let vs ← enumBodyLoop toks pn fuel []
    let _ ← requireToken toks "}"
    pure (.enum pub name.name tps vs)

/-- `parse_struct_fields`. -/
def structFieldsLoop (toks : Toks) (pn : Bool) : Nat → List StructField → P (List StructField)
  | 0, _ => outOfFuel
  | fuel + 1, acc => do
    if ← peekIs toks "}" then pure acc
    else
      match ← peek toks with
      | none => do diag .incomplete; pure acc
      | some _ => do
        let sym ← parseSymbol toks pn
        let h ← parseColonAnd toks pn fuel
        let f : StructField := ⟨sym.name, h⟩
        match ← peek toks with
        | some t =>
          if t.text == "," then do let _ ← pop toks; structFieldsLoop toks pn fuel (acc ++ [f])
          else if t.text == "}" then pure (acc ++ [f])
          else do diag .invalid; pure (acc ++ [f])
        | none => do diag .incomplete; pure (acc ++ [f])

/-- `parse_struct`. -/
def parseStruct (toks : Toks) (pn : Bool) (fuel : Nat) : P Item := do
  let pub ← popIfPublic toks
  let _ ← requireToken toks "struct"
  let name ← parseSymbol toks pn
  let tps ← parseTypeParams toks pn fuel
  if !(← requiredTokenOk toks "{") then pure (.struct pub name.name tps [])
  else do
    let fs ← structFieldsLoop toks pn fuel []
    let _ ← requireToken toks "}"
    pure (.struct pub name.name tps fs)

/-- `parse_import`. -/
def parseImport (toks : Toks) (pn : Bool) : P (Option Item) := do
  let _ ← requireToken toks "import"
  match ← pop toks with
  | none => do diag .incomplete; pure none
  | some pathTok =>
    if isStringTok pathTok.text then do
      let (n, s) := unescapeTok pathTok.text
      diagN n .invalid
      if ← peekIs toks "as" then do
        let _ ← pop toks
        let sym ← parseSymbol toks pn
        pure (some (.importI s (some sym.name)))
      else pure (some (.importI s none))
    else do diag .incomplete; pure none

/-- `parse_definition`. -/
def parseDefinition (toks : Toks) (pn : Bool) (fuel : Nat) : P (Option Item) := do
  let t1 ← peek toks
  let t2 ← peekAt toks 1
  let t3 ← peekAt toks 2
  match t1, t2 with
  | some a, some b =>
    let a := a.text
    let b := b.text
    let nextnextParen := match t3 with | some c => c.text == "(" | none => false
    if a == "fun" && b != "(" then parseFunction toks pn fuel
    else if a == "public" && b == "fun" && !nextnextParen then parseFunction toks pn fuel
    else if a == "method" || (a == "public" && b == "method") then do
      let m ← parseMethod toks pn fuel; pure (some m)
    else if a == "test" then do let m ← parseTest toks pn fuel; pure (some m)
    else if a == "enum" || (a == "public" && b == "enum") then do
      let m ← parseEnum toks pn fuel; pure (some m)
    else if a == "struct" || (a == "public" && b == "struct") then do
      let m ← parseStruct toks pn fuel; pure (some m)
    else if a == "import" then parseImport toks pn
    else do diag .invalid; pure none
  | _, _ => do diag .incomplete; pure none

/-- `parse_toplevel_item_from_tokens`. -/
def parseToplevelItem (toks : Toks) (pn : Bool) (fuel : Nat) : P (Option Item) := do
  let first := match ← peek toks with | some t => t.text | none => ""
  if ["fun", "method", "test", "enum", "struct", "public", "import"].contains first then
    parseDefinition toks pn fuel
  else if first == "{" then do
    let b ← parseBlock toks pn fuel
    pure (some (.block b.block))
  else do
    let e ← parseExpression toks pn fuel
    pure (some (.expr e.e))

/-- `parse_toplevel_items_from_tokens`. -/
def itemsLoop (toks : Toks) (pn : Bool) : Nat → List Item → P (List Item)
  | 0, _ => outOfFuel
  | fuel + 1, acc => do
    let start ← getIdx
    if start ≥ toks.length then pure acc
    else
      match ← parseToplevelItem toks pn fuel with
      | none => pure acc
      | some item =>
        if item.isInvalidOrPlaceholder then pure (acc ++ [item])
        else if (← getIdx) > start then itemsLoop toks pn fuel (acc ++ [item])
        else panic "parser.rs:3067"

/-- `parse_toplevel_items` on a token list: items and diagnostics kinds. -/
def parseItemsCfg (pinned : Bool) (fuel : Nat) (toks : Toks) : Res (List Item) :=
  itemsLoop toks pinned fuel [] ⟨0, []⟩

/-- The parser of the repaired tree. -/
def parseItems (fuel : Nat) (toks : Toks) : Res (List Item) := parseItemsCfg false fuel toks

/-- Fuel that suffices for every token list of this length in practice (each loop iteration and
each nesting level that does not consume a token costs a bounded amount). The driver uses it; the
theorems quantify over all fuel. -/
def defaultFuel (toks : Toks) : Nat := 40 * (toks.length + 2)

end Parse
