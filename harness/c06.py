"""C06 — Block-local variables never outlive their block.

Proof: GardenVerif.Props.C06 (balance invariant of the machine model M4, preserved by every step
including break / continue / return; toplevel_scope_restored, frame_scope_restored).
Tie: per-tick traces of the real evaluator (which include the key set of every binding block) vs the
model machine. Direct oracle on the implementation alone: for every generated nesting of blocks with
a `let` at each level and an exit statement (none / break / continue / return) at the innermost
level, each inner variable is referenced after control has left its block — the run must end with
`No such variable <that name>`; and the trace must show, at every tick where the toplevel frame has
no entered block pending, exactly one binding block.
"""
import itertools
import re
from . import machine_corr as MC
from . import prog_core_gen as PG

LEAN_MODULES = ["GardenVerif.Props.C06"]

CONSTRUCTS = ["while", "for", "if", "ifelse", "match", "forT"]
EXITS = ["none", "break", "continue", "return"]


def build(nesting, exit_kind, in_fun, probe_level, rng):
    """Program with one block per entry of `nesting`; level k binds variable vk; the innermost block
    ends with the exit statement; afterwards v<probe_level> is referenced."""
    n = len(nesting)
    has_loop = [c in ("while", "for", "forT") for c in nesting]

    def body(k, ind):
        pad = "  " * ind
        lines = []
        if k == n:
            if exit_kind == "break" or exit_kind == "continue":
                lines.append(pad + exit_kind)
            elif exit_kind == "return":
                lines.append(pad + "return 7")
            lines_after = []
            return lines
        c = nesting[k]
        inner = ["%slet v%d = %d" % ("  " * (ind + 1), k, 10 + k)] + body(k + 1, ind + 1)
        if k + 1 < n or exit_kind == "none":
            inner.append("%sprintln(string_repr(v%d))" % ("  " * (ind + 1), k))
        blk = "{\n" + "\n".join(inner) + "\n" + pad + "}"
        if c == "while":
            lines.append("%slet i%d = 0" % (pad, k))
            head = "while i%d < 2 " % k
            inner.insert(0, "%si%d += 1" % ("  " * (ind + 1), k))
            blk = "{\n" + "\n".join(inner) + "\n" + pad + "}"
            lines.append(pad + head + blk)
        elif c == "for":
            lines.append(pad + "for x%d in [1, 2] " % k + blk)
        elif c == "forT":
            lines.append(pad + "for (p%d, q%d) in [(1, 2), (3, 4)] " % (k, k) + blk)
        elif c == "if":
            lines.append(pad + "if True " + blk)
        elif c == "ifelse":
            lines.append(pad + "if False { let u%d = 0 } else " % k + blk)
        elif c == "match":
            lines.append(pad + "match Some(%d) { Some(m%d) => " % (k, k) + blk + " None => { let u%d = 0 } }" % k)
        return lines

    stmts = body(0, 1 if in_fun else 0)
    probe = "println(string_repr(v%d))" % probe_level
    if in_fun:
        src = "fun f() {\n" + "\n".join(stmts) + "\n  0\n}\nf()\n" + probe + "\n"
        # also probe inside the function after the construct: separate variant
    else:
        src = "\n".join(stmts) + "\n" + probe + "\n"
    return src


def valid(nesting, exit_kind, in_fun):
    if exit_kind in ("break", "continue"):
        return any(c in ("while", "for", "forT") for c in nesting)
    if exit_kind == "return":
        return in_fun
    return True


def run(ctx):
    rng = ctx.rng
    depth = 3
    cases = []
    for d in range(1, depth + 1):
        layer = []
        for nesting in itertools.product(CONSTRUCTS, repeat=d):
            for ex in EXITS:
                for in_fun in (False, True):
                    if not valid(nesting, ex, in_fun):
                        continue
                    for probe in range(d):
                        layer.append((nesting, ex, in_fun, probe))
        # depth <= 2 exhaustively; depth 3 (an exit crossing two nested blocks inside a loop, three
        # blocks in all) sampled at quick, exhaustive at thorough
        if d == 3 and ctx.quick():
            layer = rng.sample(layer, 1200)
        cases += layer
    # probes inside the function body, after the construct (frame-level restoration)
    srcs = [build(n, e, f, p, rng) for n, e, f, p in cases]
    extra = []
    for n, e, f, p in cases:
        if f and e != "return":
            s = build(n, e, True, p, rng)
            s = s.replace("\n  0\n}\nf()\nprintln(string_repr(v%d))\n" % p,
                          "\n  println(string_repr(v%d))\n  0\n}\nf()\n" % p)
            extra.append(((n, e, "in-fun-probe", p), s))
    # the BINDERS of the constructs (loop variable, destructured loop variables, match binder, the `let` of the
    # branch not taken) are block-local too: probe them after the construct (seeded C06-2 bound the variables of
    # `for (a, b) in` in the enclosing block)
    binder = {"for": ["x%d"], "forT": ["p%d", "q%d"], "match": ["m%d", "u%d"], "ifelse": ["u%d"]}
    for (n, e, f, p), s in zip(cases, srcs):
        for b in binder.get(n[p], []):
            name = b % p
            tail = "println(string_repr(v%d))\n" % p
            if s.endswith(tail):
                extra.append(((n, e, "binder-probe:" + name, p), s[:-len(tail)] + "println(string_repr(%s))\n" % name))
    all_cases = [(c, s) for c, s in zip(cases, srcs)] + extra
    ctx.rule = ("all nestings of {while, for, for-with-tuple-destructuring, if, if/else, match arm} to depth %d, a `let` "
                "at every level, exit statement {none, break, continue, return} at the innermost level, at toplevel and "
                "inside a function, one case per inner variable referenced after the construct (depth <= 2 exhaustive, "
                "depth 3 sampled to 1200 at quick and exhaustive at thorough) + random generated programs for the trace correspondence. Non-trivial = the "
                "exit statement crosses at least one block boundary (every case with exit != none, or depth >= 2)." % depth)
    res = MC.run_pairs(ctx, [s for _, s in all_cases], tick_limit=50000)
    hist = {}
    for (case, src), (i, m) in zip(all_cases, res):
        nesting, ex, where, probe = case
        ctx.case(src, ex != "none" or len(nesting) >= 2)
        hist[ex] = hist.get(ex, 0) + 1
        d = MC.compare(i, m)
        if d:
            ctx.disagree("machine", {"src": src}, m.get("outcome"), i.get("outcome"), detail=d)
        if i["kind"] in ("panic", "died"):
            ctx.fail("C06/crash", "evaluator crashed: %s" % i.get("raw"), src=src)
            continue
        want = "no-such-variable v%d" % probe
        if isinstance(where, str) and where.startswith("binder-probe:"):
            want = "no-such-variable " + where.split(":", 1)[1]
        if not (i["kind"] == "err" and i.get("outcome") == want):
            ctx.fail("C06/leak/%s/%s" % (ex, "+".join(nesting)),
                     "variable %s bound inside a block is still visible after control left the block by %s "
                     "(expected `No such variable`)" % (want.split()[-1], ex if ex != "none" else "normal completion"),
                     src=src, observed=[i["kind"], i.get("outcome"), i.get("out")])
        # trace oracle: whenever the toplevel frame is current and nothing block-owning is pending,
        # there is exactly one binding block
        for line in i.get("trace", []):
            mm = re.match(r"^T \d+ (\d+) (\w+)#\d+ \|(.*?) \|(.*?) \|(.*)$", line)
            if not mm or mm.group(1) != "1":
                continue
            pend = mm.group(3).split()
            owners = sum(1 for x in pend if x.startswith("E#") is False and False)
            # pending entries are "ST#id": block owners cannot be told apart from the id alone, so the
            # check is restricted to ticks where every pending entry is not-yet-started (state N)
            if all(x.startswith("N#") for x in pend) and mm.group(2) == "N":
                nblocks = mm.group(5).count("{")
                if nblocks != 1:
                    ctx.fail("C06/toplevel-blocks", "toplevel frame has %d binding blocks between statements" % nblocks,
                             src=src, trace_line=line)
                    break
    ctx.cov["exit_kind_histogram"] = hist
    ctx.sample({"src": all_cases[5][1], "impl": res[5][0].get("outcome")})
    ctx.sample({"src": all_cases[-1][1], "impl": res[-1][0].get("outcome")})
    # random programs: trace correspondence (block key sets are part of every trace line)
    progs = [PG.gen_program(rng, size=rng.choice([15, 30, 50]), err_rate=0.01, exits=0.5)[0]
             for _ in range(ctx.scale(600, 6000))]
    res2 = MC.run_pairs(ctx, progs, tick_limit=50000)
    n_exits = 0
    for src, (i, m) in zip(progs, res2):
        crossing = bool(re.search(r"\b(break|continue|return)\b", src))
        n_exits += crossing
        ctx.case(src, crossing)
        d = MC.compare(i, m)
        if d:
            ctx.disagree("machine(random)", {"src": src}, m.get("outcome"), i.get("outcome"), detail=d)
        if i["kind"] in ("panic", "died"):
            ctx.fail("C06/crash", "evaluator crashed: %s" % i.get("raw"), src=src)
    ctx.cov["random_programs"] = len(progs)
    ctx.cov["random_programs_with_early_exit"] = n_exits
    ctx.assumptions += ["machine model M4 is hand-written from src/eval.rs; tied by per-tick trace equality "
                        "(including binding-block key sets) on every run",
                        "runs that end in a runtime error are outside the invariant (the state is kept for :resume)",
                        "fragment: see C08"]
