"""C07 — Resuming after a runtime error reproduces the same error.

Proof: GardenVerif.Props.C07 over the machine model M4 + the session's `:resume` (Model/Resume.lean):
`error_restore_fixpoint` / `resume_any_number` (an error step that restores the stack exactly is a
fixpoint of `:resume`), `every_site_restores` (EVERY error site of `Machine.dispatch` restores exactly),
`resume_same_error` (hence any number of `:resume`s after any error step give the same error on the same
stack), and `builtin_arms_restore_shape` over the regenerated table of `saved_values` shapes (tie T).

Tie (C): `garden reftest-json-session` transcripts — a failing `run`, then `:resume` x 3 — against the
model's `resume_run` (error kind per response, crash = panic) for the programs inside the model's
fragment. Direct oracle on the implementation alone, for EVERY generated failing step (all built-in
functions and methods of the regenerated table at every argument position and arity +-1, every
operator, every control-flow / binding / call error, each at toplevel, inside a function and inside a
closure): the three resumed responses carry the same message and the same position as the first
error, and the process stays alive.
"""
import json
import os
import re
import shutil
from . import machine_corr as MC
from .common import pmap, hexs, unhex, run_cmd, LEAN_DIR, GARDEN, NPROC

LEAN_MODULES = ["GardenVerif.Props.C07"]
RESUMES = 3

# ---------------------------------------------------------------- table


def load_arms():
    t = open(os.path.join(LEAN_DIR, "GardenVerif", "Generated", "Tables.lean")).read()
    arms = []
    for m in re.finditer(r'\{ name := "(\w+)", isMethod := (\w+), gardenName := "([^"]*)", namespaceFile := "([^"]*)", '
                         r'receiverType := "([^"]*)",\s*params := \[([^\]]*)\], arity := ([^,]*),.*?'
                         r'restoreShapes := \[([^\]]*)\]', t, re.S):
        name, meth, gname, nsf, rty, params, arity, shapes = m.groups()
        arms.append(dict(name=name, method=(meth == "true"), garden=gname, ns=nsf, recv=rty,
                         params=re.findall(r'"([^"]*)"', params),
                         shapes=re.findall(r'"([^"]*)"', shapes)))
    return arms


NOWHERE = "/nonexistent-garden-c07"


def good_value(ty):
    """A harmless value of the declared parameter type."""
    if ty == "String":
        return '"zz"'
    if ty == "Int":
        return "1"
    if ty == "Path":
        return 'Path{ p: "%s/x" }' % NOWHERE
    if ty.startswith("List"):
        return "[]"
    if ty == "Namespace":
        return None
    return "Unit"


def bad_value(ty):
    """A value that is NOT of the declared type (None = every value is accepted)."""
    if ty in ("String", "Path", "Namespace") or ty.startswith("List"):
        return "42"
    if ty == "Int":
        return '"zz"'
    return None


RECEIVERS = {"Dict": 'Dict["k" => 1]', "Float": "1.5", "Int": "7", "List": "[1, 2]",
             "Path": 'Path{ p: "%s/x" }' % NOWHERE, "String": '"abc"'}


def builtin_cases(arms):
    """(class, prelude-items, failing expression) for every arm: wrong type at each position (the other
    positions well-typed and harmless), arity - 1, arity + 1."""
    out = []
    for a in arms:
        items = ""
        if a["method"]:
            recv = RECEIVERS.get(a["recv"])
            if recv is None:
                continue
            head = "%s.%s" % (recv, a["garden"])
        elif a["ns"] == "__prelude.gdn":
            head = a["garden"]
        else:
            alias = a["ns"].strip("_").split(".")[0]
            items = 'import "%s" as %s\n' % (a["ns"], alias)
            head = "%s::%s" % (alias, a["garden"])
        goods = [good_value(t) for t in a["params"]]
        n = len(a["params"])
        for i, ty in enumerate(a["params"]):
            b = bad_value(ty)
            if b is None:
                continue
            args = [b if j == i else (g if g is not None else "42") for j, g in enumerate(goods)]
            out.append(("builtin/%s/type%d" % (a["name"], i), a["name"], items, "%s(%s)" % (head, ", ".join(args))))
        allbad = [bad_value(t) or "Unit" for t in a["params"]]
        if n >= 1:
            out.append(("builtin/%s/arity-1" % a["name"], a["name"], items, "%s(%s)" % (head, ", ".join(allbad[:-1]))))
        out.append(("builtin/%s/arity+1" % a["name"], a["name"], items, "%s(%s)" % (head, ", ".join(allbad + ["42"]))))
    return out


OPERATORS = [
    ("add", '1 + "a"'), ("add-l", '"a" + 1'), ("sub", '1 - "a"'), ("mul", '"a" * 2'), ("div", '1 / "a"'),
    ("div-zero", "1 / 0"), ("mod", '"a" % 2'), ("mod-zero", "7 % 0"), ("pow", '2 ** "a"'), ("pow-neg", "2 ** -1"),
    ("pow-overflow", "9 ** 99"), ("lt", '1 < "a"'), ("le", '"a" <= 1'), ("gt", '1 > "a"'), ("ge", '"a" >= 1'),
    ("and", "True && 1"), ("and-l", "1 && True"), ("or", "False || 1"), ("or-l", "1 || True"),
    ("concat", '"a" ^ 1'), ("concat-l", '1 ^ "a"'), ("addf", "1.5 +. 1"), ("subf", "1 -. 1.5"),
    ("mulf", '1.5 *. "a"'), ("divf", "1 /. 1.5"),
    # Int operators applied to a Float have their own error paths (the "consider a float operator" hint)
    ("add-floatl", "1.5 + 1"), ("add-floatr", "1 + 1.5"), ("sub-floatl", "1.5 - 1"), ("mul-floatr", "2 * 1.5"),
    ("div-floatl", "1.5 / 2"), ("lt-floatl", "1.5 < 1"), ("lt-floatr", "1 < 1.5"), ("ge-floatl", "1.5 >= 1"),
    ("mod-floatr", "7 % 1.5"), ("pow-floatl", "1.5 ** 2"),
]

CONTROL = [
    ("if-cond", "", "if 1 { 2 }"), ("if-else-cond", "", 'if "a" { 2 } else { 3 }'), ("while-cond", "", "while 1 { 2 }"),
    ("for-iteree", "", "for x in 1 { 2 }"), ("for-destructure", "", "for (a, b) in [1] { 2 }"),
    ("for-destructure-size", "", "for (a, b) in [(1, 2, 3)] { 2 }"),
    ("for-destructure-later", "", "for (a, b) in [(1, 2), 3] { a }"),
    ("match-not-enum", "", "match 1 { Some(x) => x }"), ("match-no-case", "", "match Some(1) { None => 2 }"),
    ("match-bad-pattern", "", "match Some(1) { nosuchvariant => 2 }"),
    ("let-destructure", "", "let (a, b) = 1"), ("let-destructure-size", "", "let (a, b) = (1, 2, 3)"),
    ("let-hint", "", 'let x: Int = "a"'), ("let-unbound-hint", "", "let x: NoSuchType = 1"),
    ("assign-unbound", "", "nosuchvar = 1"), ("update-unbound", "", "nosuchvar += 1"),
    ("update-not-int", "", 'let y = "a"\ny += 1'), ("update-rhs", "", 'let y = 1\ny -= "a"'),
    ("no-such-var", "", "nosuchvar"), ("no-such-var-in-call", "", "println(nosuchvar)"),
    ("fun-arity", "fun c07f(a) { a }\n", "c07f()"), ("fun-arity+", "fun c07f(a) { a }\n", "c07f(1, 2)"),
    ("fun-param-type", "fun c07g(a: Int, b: String) { a }\n", 'c07g(1, 2)'),
    ("fun-param-unbound-hint", "fun c07u(a: NoSuchType) { a }\n", "c07u(1)"),
    ("fun-return-type", 'fun c07h(): Int { "a" }\n', "c07h()"),
    ("closure-arity", "", "let c07c = fun(a) { a }\nc07c()"), ("closure-arity+", "", "let c07c = fun(a) { a }\nc07c(1, 2)"),
    ("not-callable", "", "1(2)"), ("not-callable-swap", "", '"a"(println)'), ("not-callable-0", "", '"a"()'),
    ("enum-ctor-arity", "", "Some()"), ("enum-ctor-arity+", "", "Some(1, 2)"),
    ("dot-not-struct", "", "1.foo"), ("dot-no-field", "", 'Path{ p: "a" }.nosuch'),
    ("struct-no-type", "", "NoSuchStruct{ a: 1 }"), ("struct-bad-field", "", 'Path{ p: "a", q: 2 }'),
    ("struct-field-type", "", "Path{ p: 1 }"), ("struct-missing-field", "", "Path{ }"),
    ("method-none", "", "1.nosuchmethod()"), ("method-user-arity", "method c07m(this: Int, a) { a }\n", "1.c07m()"),
    ("method-no-type", "", "(fun() { 1 }).foo()"),
    ("assert-false", "", "assert(False)"), ("assert-eq", "", "assert(1 == 2)"), ("assert-not-bool", "", "assert(1)"),
    ("throw", "", 'throw("boom")'), ("namespace-access", 'import "__fs.gdn" as c07fs\n', "c07fs::nosuchfn"),
    ("list-item", "", "[1, nosuchvar]"), ("nested-arg", "", 'string_repr(1 + "a")'),
]

FRAMES = ["toplevel", "fun", "closure"]


def wrap(frame, items, expr):
    if frame == "toplevel":
        return items + expr + "\n"
    body = "\n".join("  " + l for l in expr.split("\n"))
    if frame == "fun":
        return items + "fun c07wrapper() {\n%s\n}\nc07wrapper()\n" % body
    return items + "let c07wrapper = fun() {\n%s\n}\nc07wrapper()\n" % body


# ---------------------------------------------------------------- running sessions

def parse_responses(text):
    out, dec, i = [], json.JSONDecoder(), 0
    while True:
        while i < len(text) and text[i].isspace():
            i += 1
        if i >= len(text):
            break
        try:
            o, i = dec.raw_decode(text, i)
        except ValueError:
            out.append(("garbage", text[i:i + 80]))
            break
        k = o.get("kind")
        if isinstance(k, dict) and "evaluate" in k:
            v = k["evaluate"]["value"]
            if "Ok" in v:
                out.append(("ok", v["Ok"]))
            else:
                e = v["Err"][0]
                p = e.get("position") or {}
                out.append(("err", e.get("message"), (p.get("start_offset"), p.get("end_offset"), p.get("path"))))
        elif isinstance(k, dict) and ("printed" in k or "printed_stderr" in k):
            continue
        else:
            out.append(("other", json.dumps(k)[:120]))
    return out


def run_session(ctx, d, idx, inputs, timeout=20):
    p = os.path.join(d, "s%d.jsonl" % idx)
    with open(p, "w") as f:
        for i in inputs:
            f.write(json.dumps({"method": "run", "input": i}) + "\n")
    rc, so, se = ctx.garden(["reftest-json-session", p], timeout=timeout, cwd=d)
    pan = ""
    m = re.search(r"panicked at ([^\n]*)\n([^\n]*)", se or "")
    if m:
        pan = m.group(1).strip() + " " + m.group(2).strip()
    return rc, parse_responses(so or ""), pan


def bulk_sessions(ctx, d, jobs, timeout=30):
    """Run many reftest-json-session transcripts with few process spawns from Python (forking a
    threaded Python with a preexec_fn per session costs far more than the 0.2 s session itself):
    one shell loop per worker, each session under `timeout` and an address-space limit.
    jobs: [(tag, [input, ...])] -> {tag: (rc, stdout, stderr)}, rc = -9999 on timeout."""
    os.makedirs(d, exist_ok=True)
    for tag, inputs in jobs:
        with open(os.path.join(d, tag + ".jsonl"), "w") as f:
            for i in inputs:
                f.write(json.dumps({"method": "run", "input": i}) + "\n")
    nw = max(1, min(NPROC, len(jobs)))
    scripts = []
    for w in range(nw):
        tags = [t for k, (t, _) in enumerate(jobs) if k % nw == w]
        sp = os.path.join(d, "worker%d.sh" % w)
        with open(sp, "w") as f:
            f.write("ulimit -v 3000000\nulimit -c 0\ncd '%s'\n" % d)
            for t in tags:
                f.write("timeout %d '%s' reftest-json-session %s.jsonl > %s.out 2> %s.err; echo $? > %s.rc\n" % (
                    timeout, GARDEN, t, t, t, t))
        scripts.append((sp, len(tags)))
    pmap(lambda a: run_cmd(["sh", a[0]], timeout=60 + timeout * max(1, a[1]), mem_gb=None), scripts)
    out = {}
    for tag, _ in jobs:
        def rd(ext):
            try:
                return open(os.path.join(d, tag + ext), errors="replace").read()
            except OSError:
                return ""
        try:
            rc = int(rd(".rc").strip())
        except ValueError:
            rc = -9999
        out[tag] = (-9999 if rc == 124 else rc, rd(".out"), rd(".err"))
    return out


def session_result(rc, so, se):
    pan = ""
    m = re.search(r"panicked at ([^\n]*)\n([^\n]*)", se or "")
    if m:
        pan = m.group(1).strip() + " " + m.group(2).strip()
    return rc, parse_responses(so or ""), pan


def strip_exc(msg):
    return msg[len("Exception: "):] if msg and msg.startswith("Exception: ") else msg


def run(ctx):
    arms = load_arms()
    cases = []   # (class, site, src)
    for frame in FRAMES:
        for cls, arm, items, expr in builtin_cases(arms):
            # quick tier: every built-in case at toplevel, a seeded quarter of them inside a function / closure
            if frame != "toplevel" and ctx.quick() and ctx.rng.random() >= 0.25:
                continue
            cases.append((cls + "@" + frame, "builtin/" + arm, wrap(frame, items, expr), frame))
        for name, expr in OPERATORS:
            cases.append(("op/%s@%s" % (name, frame), "op/" + name.split("-")[0], wrap(frame, "", expr), frame))
        for name, items, expr in CONTROL:
            cases.append(("ctl/%s@%s" % (name, frame), "ctl/" + name, wrap(frame, items, expr), frame))
    # random variation: the failing step nested in a larger expression / after other statements
    rng = ctx.rng
    base = list(cases)
    for _ in range(ctx.scale(100, 3000)):
        cls, site, src, frame = rng.choice(base)
        if frame != "toplevel":
            continue
        lines = src.rstrip("\n").split("\n")
        expr = lines[-1]
        if re.match(r"^(let|for|while|if|match|assert|nosuchvar [-+]?=|y [-+]=|throw)", expr):
            ctxs = ["let c07pre = 5\n%s", "if True {\n  %s\n}", "while True {\n  %s\n}", "for c07i in [1, 2] {\n  %s\n}"]
        else:
            ctxs = ["let c07v = %s", "[1, %s]", "(%s, 2)", "string_repr(%s)", "if True { %s }", "Some(%s)",
                    "for c07i in [1, 2] { %s }", "let c07pre = 5\n%s", "(%s)", "match Some(1) { Some(c07q) => %s }"]
        c = rng.choice(ctxs)
        cases.append((cls + "+ctx", site, "\n".join(lines[:-1] + [c % expr]) + "\n", "nested"))
    ctx.rule = ("systematic: for every arm of Tables.builtinArms (%d built-in functions and methods, called as its "
                "gardenName / namespaceFile / receiverType say) one call with a wrong-typed value at each parameter "
                "position (other positions well-typed, harmless) and one with arity-1 and arity+1 (quick tier: all of them at "
                "toplevel, a seeded quarter inside a function / closure); %d failing operator "
                "applications; %d failing control-flow / binding / call / struct / assert steps; each at toplevel, inside "
                "a function and inside a closure; plus random nestings of the failing step inside a larger expression, "
                "block or loop. Each case: `run` then `:resume` x %d through reftest-json-session. Non-trivial = the "
                "first response is a runtime error (so there is something to resume)." % (
                    len(arms), len(OPERATORS), len(CONTROL), RESUMES))
    d = ctx.scratch("sess")
    os.makedirs(d, exist_ok=True)

    raw = bulk_sessions(ctx, d, [("s%d" % ix, [c[2]] + [":resume"] * RESUMES) for ix, c in enumerate(cases)])
    results = {ix: session_result(*raw["s%d" % ix]) for ix in range(len(cases))}
    # a loaded machine can push a 0.2 s session over the timeout: re-run those alone, generously
    slow = [ix for ix, r in results.items() if r[0] == -9999]
    for ix in slow:
        results[ix] = run_session(ctx, d, ix, [cases[ix][2]] + [":resume"] * RESUMES, timeout=180)
    ctx.cov["sessions_rerun_after_timeout"] = len(slow)
    ctx.log("%d sessions done (%d re-run after a timeout)" % (len(cases), len(slow)))

    hist = {"first_is_error": 0, "first_not_error": 0, "by_kind": {}}
    crashed_first = []
    impl_seq = {}
    for ix, (cls, site, src, frame) in enumerate(cases):
        rc, resp, pan = results[ix]
        first = resp[0] if resp else ("none",)
        is_err = first[0] == "err"
        ctx.case(src, is_err)
        kind = cls.split("/")[0]
        hist["by_kind"].setdefault(kind, [0, 0])
        hist["by_kind"][kind][0 if is_err else 1] += 1
        if not is_err:
            hist["first_not_error"] += 1
            if rc != 0 or pan:
                # a crash of the first run is C02's subject (nothing was resumed); recorded, not judged here
                crashed_first.append({"site": site, "src": src, "panic": pan})
            continue
        hist["first_is_error"] += 1
        seq = [("err", strip_exc(r[1]), r[2]) if r[0] == "err" else r for r in resp]
        impl_seq[ix] = (rc, seq, pan)
        # ---- direct oracle
        replay = dict(src=src, requests=[src] + [":resume"] * RESUMES,
                      responses=[list(map(str, r)) for r in seq], rc=rc, panic=pan)
        if rc != 0 or pan or len(seq) < RESUMES + 1:
            ctx.fail("C07/resume-crash/" + site,
                     "the session died while resuming a runtime error (%d of %d responses): %s" % (
                         len(seq), RESUMES + 1, pan), **replay)
            continue
        bad = None
        for k in range(1, RESUMES + 1):
            r = seq[k]
            if r[0] != "err":
                bad = "resume %d did not stop with an error: %s" % (k, r[:2])
            elif r[1] != seq[0][1]:
                # the first response of an assertion failure is worded by err_to_response, the resumed ones
                # by eval_to_response: compare resumed responses with each other for that one
                if seq[0][1] == "Assertion failed" and k >= 2 and r[1] == seq[1][1]:
                    continue
                if seq[0][1] == "Assertion failed" and k == 1:
                    continue
                bad = "resume %d reports a different error: %r, first was %r" % (k, r[1], seq[0][1])
            elif r[2] != seq[0][2]:
                bad = "resume %d reports a different position: %s, first was %s" % (k, r[2], seq[0][2])
            if bad:
                break
        if bad:
            ctx.fail("C07/resume-differs/" + site, bad, **replay)
    ctx.cov["input_distribution"] = hist
    ctx.cov["crashed_on_the_first_run_not_judged(C02)"] = crashed_first[:10]

    # ---- tie (T): the regenerated restore-shape table
    bad_arms = [a["name"] for a in arms if any(s not in ("receiverFirst", "argsOnly") for s in a["shapes"])]
    ctx.cov["table_arms"] = len(arms)
    ctx.cov["table_arms_not_receiver_first"] = bad_arms
    for n in bad_arms:
        ctx.fail("C07/restore-order/" + n, "Tables.builtinArms: arm %s builds saved_values in an order other than "
                 "[receiver, arg_n .. arg_1]" % n, arm=n)

    # ---- correspondence (C): model `resume_run` on the real parser's tree
    model_builtins = ("builtin/PreludePrint", "builtin/PreludePrintln", "builtin/PreludeStringRepr")
    idxs = [ix for ix in impl_seq if (not cases[ix][1].startswith("builtin/") or cases[ix][1] in model_builtins)
            and not any(w in cases[ix][2] for w in ("import ", "method ", "assert", "Path{", "Dict[",
                                                                          "+.", "-.", "*.", "/.", ": "))]
    srcs = [cases[ix][2] for ix in idxs]
    ast = ctx.garden_batch(["astx " + hexs(s) for s in srcs])
    lines = []
    for a in ast:
        body = a[3:] if a and a.startswith("OK ") else "(astx 1)"
        lines.append("resume_run %d 20000 %s" % (RESUMES, body))
    ctx.log("astx done for %d programs" % len(srcs))
    model = ctx.model_batch(lines, timeout=600)
    ctx.log("model resume_run done")
    ncmp, nunsup, stale = 0, 0, []
    for ix, mresp in zip(idxs, model):
        cls, site, src, frame = cases[ix]
        if not mresp or not mresp.startswith("OK (resume "):
            nunsup += 1
            continue
        mobs = []
        for m in re.finditer(r"\((err ([0-9a-f]*) \S+ \d+ \d+|value|panic [0-9a-f]*|unsupported|out-of-fuel)\)", mresp):
            if m.group(1).startswith("err"):
                mobs.append("err " + unhex(m.group(2)))
            else:
                mobs.append(m.group(1).split(" ")[0])
        if "unsupported" in mobs or "out-of-fuel" in mobs:
            nunsup += 1
            continue
        rc, seq, pan = impl_seq[ix]
        iobs = []
        for r in seq:
            if r[0] == "err":
                iobs.append("err " + MC.classify_err(r[1]))
            elif r[0] == "ok":
                iobs.append("value")
            else:
                iobs.append(r[0])
        if rc != 0 or pan:
            iobs.append("panic")
        if any(o.startswith("err unclassified") for o in iobs):
            nunsup += 1
            continue
        if mobs and mobs[0].startswith("err no-such-variable") and iobs and not iobs[0].startswith("err no-such-variable"):
            nunsup += 1   # a name the model's namespace does not contain (a built-in outside its fragment)
            continue
        ncmp += 1
        model_const = len(mobs) == RESUMES + 1 and len(set(mobs)) == 1
        impl_const = len(iobs) == RESUMES + 1 and len(set(iobs)) == 1
        if mobs == iobs:
            continue
        if not model_const and impl_const and iobs[0] == mobs[0]:
            # the model mirrors a restore defect of the tree it was transcribed from which this tree has repaired
            stale.append(site)
            continue
        ctx.disagree("resume_run", {"src": src}, mobs, iobs)
    ctx.cov["correspondence_compared"] = ncmp
    ctx.cov["correspondence_outside_fragment"] = nunsup + (len(impl_seq) - len(idxs))
    ctx.cov["model_mirrors_defect_repaired_in_this_tree"] = sorted(set(stale))
    for ix in list(impl_seq)[:3] + list(impl_seq)[-2:]:
        rc, seq, pan = impl_seq[ix]
        ctx.sample({"class": cases[ix][0], "src": cases[ix][2], "responses": [list(map(str, r[1:])) for r in seq]})
    shutil.rmtree(d, ignore_errors=True)
    ctx.assumptions += [
        "machine model M4 is hand-written from src/eval.rs (tied tick-for-tick by C06/C08's runs); the built-in arms "
        "outside the model's fragment are covered by the regenerated restore-shape table and by the direct oracle only",
        "`:resume` with nothing changed: no interrupt, no tick limit (a JSON session has none)",
        "the first response to a failed assertion is worded 'Assertion failed' by err_to_response and the resumed ones "
        "carry the assertion's message (eval_to_response); the oracle compares resumed assertion responses with each other",
    ]
