"""C34 — Only public definitions are visible through imports.

Proof: GardenVerif.Props.C34 over the loader model (Model/Imports.lean): `load_terminates` (no
acyclicity hypothesis), `import_exactly_public_partial` (functions), witnesses for the classes in
which the implementation does not follow the statement (types, methods, enum variants, cyclic
unqualified imports).
Tie: generated project directories; the probe expressions are put into the main file, one
`test p<i> { … }` each, and ONE `garden check --json main.gdn` (diagnostics attributed by line) and
ONE `garden test main.gdn` (every test is evaluated on its own, a failing one does not hide the
others) per project are compared with the driver op `imports_eval` on the same project (outcome
kind + the tag of the definition reached); two probes per project are re-run alone through
`garden check` / `garden run` and must agree with the batched answer; projects importing an
unreadable file, or on which a batched process crashes, are run one probe per process.
Direct oracle (no model): reachable <=> public, tag soundness (what is reached is local or public),
check time and run time agree, cyclic projects finish, nothing crashes.
"""
import json
import os
import re
import shutil
import time

from . import common

LEAN_MODULES = ["GardenVerif.Props.C34"]

FN = ["f0", "f1", "f2", "f3"]
STRUCTS = ["S0", "S1"]
ENUMS = ["E0", "E1"]
VARIANTS = ["V0", "V1", "V2"]
METHS = ["g0", "g1", "g2"]
FILES = ["a.gdn", "b.gdn", "c.gdn", "sub/d.gdn", "e.gdn"]
MISSING = "nosuch.gdn"
TIMEOUT = 10

SHAPES = ["rootcycle", "chain", "cycle", "diamond", "rootcycle", "cycle", "self", "multi", "random", "random"]

K_PRIV_TYPE = "C34/private-type-visible"
K_PRIV_METH = "C34/private-method-visible"
K_VARIANTS = "C34/public-enum-variants-not-imported"
K_TRANSITIVE = "C34/type-or-method-visible-without-import"
K_CYCLIC_PARTIAL = "C34/cyclic-unqualified-import-partial"
K_REIMPORT = "C34/reimport-unreadable-panics"
K_SELF = "C34/self-import-panics"


# ------------------------------------------------------------------ generation
def via_name(path, k):
    """`via` functions have project-unique names, so that `ns::via…()` always runs the body that the
    oracle reads (an unqualified import placed after a definition replaces a same-named function)."""
    return "via%s%d" % (os.path.basename(path)[0], k)


class Gen:
    def __init__(self, rng):
        self.rng = rng
        self.tag = 1000

    def next_tag(self):
        self.tag += 1
        return self.tag

    def defs(self, is_main, own_structs):
        rng = self.rng
        out = []
        for _ in range(rng.randint(2, 5)):
            r = rng.random()
            pub = rng.random() < 0.6
            if r < 0.5:
                out.append(("fn", pub, rng.choice(FN[:3] if rng.random() < 0.8 else FN), self.next_tag(), None))
            elif r < 0.65:
                s = rng.choice(STRUCTS)
                own_structs.add(s)
                out.append(("struct", pub, s))
            elif r < 0.8:
                vs = rng.sample(VARIANTS, rng.randint(1, 2))
                out.append(("enum", pub, rng.choice(ENUMS), vs))
            else:
                if is_main:
                    recv = rng.choice(["Int"] + sorted(own_structs))
                else:
                    recv = rng.choice(["Int", "Int"] + STRUCTS)
                out.append(("meth", pub, recv, rng.choice(METHS), self.next_tag()))
        return out

    def project(self, nfiles, shape):
        rng = self.rng
        names = ["main.gdn"] + FILES[:nfiles - 1]
        if rng.random() < 0.5 and nfiles >= 3:
            others = names[1:]
            rng.shuffle(others)
            names = ["main.gdn"] + others
        edges = {n: [] for n in names}   # n -> list of (target, alias or None)

        def add(src, dst, alias_mode=None):
            mode = alias_mode or rng.choice(["as", "as", "plain"])
            edges[src].append((dst, mode))

        n = len(names)
        if shape == "chain":
            for i in range(n - 1):
                add(names[i], names[i + 1])
        elif shape == "diamond" and n >= 4:
            add(names[0], names[1]); add(names[0], names[2]); add(names[1], names[3]); add(names[2], names[3])
            for extra in names[4:]:
                add(rng.choice(names[:4]), extra)
        elif shape == "cycle":
            for i in range(n - 1):
                add(names[i], names[i + 1])
            add(names[-1], rng.choice(names[:-1]))
        elif shape == "rootcycle":
            # a cycle THROUGH THE ENTRY FILE: main imports F, F imports main back (the only importer of
            # main); further files hang off F or main and never import main
            add(names[0], names[1])
            add(names[1], names[0], rng.choice(["plain", "plain", "as"]))
            for i in range(2, n):
                add(rng.choice(names[:i]), names[i])
        elif shape == "self":
            for i in range(n - 1):
                add(names[i], names[i + 1])
            add(rng.choice(names), None)   # target filled in below (self)
        elif shape == "multi":
            tgt = names[1]
            add(names[0], tgt, "as"); add(names[0], tgt, "as"); add(names[0], tgt, "plain")
            for i in range(1, n - 1):
                add(names[i], names[i + 1])
        else:   # random graph, cycles allowed
            for i in range(1, n):
                add(rng.choice(names[:i]), names[i])
            for _ in range(rng.randint(0, n)):
                add(rng.choice(names), rng.choice(names))
        # main always imports something under an alias and something plainly, most of the time
        if shape == "rootcycle":
            pass
        elif rng.random() < 0.8 and not any(m == "as" for _, m in edges[names[0]]):
            add(names[0], rng.choice(names[1:]), "as")
        if shape != "rootcycle" and rng.random() < 0.6 and not any(m == "plain" for _, m in edges[names[0]]):
            add(names[0], rng.choice(names[1:]), "plain")
        missing_mode = rng.random()
        if missing_mode < 0.04:
            add(rng.choice(names), MISSING)
        elif missing_mode < 0.07:
            a, b = rng.choice(names), rng.choice(names)
            add(a, MISSING); add(b, MISSING)

        files = {}
        for name in names:
            own_structs = set()
            items = self.defs(name == "main.gdn", own_structs)
            if shape == "rootcycle" and name == "main.gdn" and not any(i[0] == "fn" and i[1] for i in items):
                items.append(("fn", True, rng.choice(FN[:3]), self.next_tag(), None))
            alias_n = 0
            imps = []
            for dst, mode in edges[name]:
                if dst is None:
                    dst = name
                if mode == "as":
                    alias = "m%d" % alias_n
                    if rng.random() < 0.9:
                        alias_n += 1
                    imps.append(("imp", dst, alias))
                else:
                    imps.append(("imp", dst, None))
            # place imports: mostly first, sometimes in between / after the definitions
            for imp in imps:
                pos = 0 if (rng.random() < 0.55 or shape == "rootcycle") else rng.randint(0, len(items))
                items.insert(pos, imp)
            if shape == "rootcycle" and name == names[1]:
                # functions of F that CALL functions of the entry file along the back edge
                main_fns = [i[2] for i in files["main.gdn"] if i[0] == "fn"]
                back = [i for i in items if i[0] == "imp" and i[1] == "main.gdn"][0]
                for k in range(2):
                    x = rng.choice(main_fns) if (k == 0 or rng.random() < 0.7) else rng.choice(FN[:3])
                    body = ("qual", back[2], x, True) if back[2] else ("bare", x, True)
                    items.insert(rng.randint(1, len(items)), ("fn", True, via_name(name, k), self.next_tag(), body))
            elif name != "main.gdn" and rng.random() < (0.9 if shape == "cycle" else 0.6):
                # functions whose body looks a name up in THIS file's namespace
                aliases = [i[2] for i in items if i[0] == "imp" and i[2]]
                for k in range(rng.randint(1, 2)):
                    if aliases and rng.random() < 0.4:
                        body = ("qual", rng.choice(aliases), rng.choice(FN[:3]), True)
                    else:
                        body = ("bare", rng.choice(FN[:3]), True)
                    items.insert(rng.randint(0, len(items)), ("fn", True, via_name(name, k), self.next_tag(), body))
            files[name] = items
        return {"main": "main.gdn", "files": files, "shape": shape}


# ------------------------------------------------------------------ rendering
def probe_expr(p):
    k = p[0]
    if k == "qual":
        return "%s::%s%s" % (p[1], p[2], "()" if p[3] else "")
    if k == "bare":
        return "%s%s" % (p[1], "()" if p[2] else "")
    if k == "slit":
        return "%s{ a: 1 }.a" % p[1]
    if k == "mint":
        return "1.%s()" % p[1]
    if k == "mstruct":
        return "%s{ a: 1 }.%s()" % (p[1], p[2])
    raise ValueError(p)


def probe_sexp(p):
    k = p[0]
    if k == "qual":
        return "(qual %s %s %d)" % (p[1], p[2], 1 if p[3] else 0)
    if k == "bare":
        return "(bare %s %d)" % (p[1], 1 if p[2] else 0)
    if k == "slit":
        return "(slit %s)" % p[1]
    if k == "mint":
        return "(mint %s)" % p[1]
    return "(mstruct %s %s)" % (p[1], p[2])


def import_spelling(src, dst, style):
    rel = os.path.relpath(dst, os.path.dirname(src) or ".")
    if style == 0 or rel.startswith(".."):
        return rel if rel.startswith("..") else "./" + rel
    return rel


def render_file(path, items, style_seed):
    out = []
    pubs = lambda b: "public " if b else ""
    for idx, it in enumerate(items):
        k = it[0]
        if k == "imp":
            sp = import_spelling(path, it[1], (style_seed + idx) % 2)
            out.append('import "%s"%s' % (sp, " as " + it[2] if it[2] else ""))
        elif k == "fn":
            body = str(it[3]) if it[4] is None else probe_expr(it[4])
            out.append("%sfun %s(): Int { %s }" % (pubs(it[1]), it[2], body))
        elif k == "struct":
            out.append("%sstruct %s { a: Int }" % (pubs(it[1]), it[2]))
        elif k == "enum":
            out.append("%senum %s { %s }" % (pubs(it[1]), it[2], ", ".join(it[3])))
        elif k == "meth":
            out.append("%smethod %s(this: %s): Int { %d }" % (pubs(it[1]), it[3], it[2], it[4]))
    return "\n".join(out) + "\n"


def item_sexp(it):
    k = it[0]
    b = lambda x: "1" if x else "0"
    if k == "imp":
        return "(imp %s %s)" % (it[1], it[2] or "-")
    if k == "fn":
        return "(fn %s %s %d %s)" % (b(it[1]), it[2], it[3], probe_sexp(it[4]) if it[4] else "-")
    if k == "struct":
        return "(struct %s %s)" % (b(it[1]), it[2])
    if k == "enum":
        return "(enum %s %s %s)" % (b(it[1]), it[2], " ".join(it[3]))
    return "(meth %s %s %s %d)" % (b(it[1]), it[2], it[3], it[4])


def model_line(proj, probes, cfg):
    files = " ".join("(file %s %s)" % (p, " ".join(item_sexp(i) for i in items))
                     for p, items in proj["files"].items())
    return "imports_eval (cfg %d %d) (main %s) (files %s) (probes %s)" % (
        cfg[0], cfg[1], proj["main"], files, " ".join(probe_sexp(p) for p in probes))


def probes_for(rng, proj, limit):
    main = proj["files"][proj["main"]]
    aliases = sorted({i[2] for i in main if i[0] == "imp" and i[2]})
    ps = []
    for a in aliases:
        for f in FN[:3]:
            ps.append(("qual", a, f, True))
        ps.append(("qual", a, "nosuch", True))
        ps.append(("qual", a, "println", False))
        for v in VARIANTS[:2]:
            ps.append(("qual", a, v, False))
        targets = [i[1] for i in main if i[0] == "imp" and i[2] == a]
        vias = sorted({i[2] for t in targets for i in proj["files"].get(t, []) if i[0] == "fn" and i[4] is not None})
        for v in vias[:2]:
            ps.append(("qual", a, v, True))
        ps.append(("qual", a, "viaz0", True))          # defined nowhere
    plain = [i[1] for i in main if i[0] == "imp" and i[2] is None]
    pvias = sorted({i[2] for t in plain for i in proj["files"].get(t, []) if i[0] == "fn" and i[4] is not None})
    for v in pvias[:2]:
        ps.append(("bare", v, True))
    for f in FN:
        ps.append(("bare", f, True))
    for v in VARIANTS:
        ps.append(("bare", v, False))
    ps.append(("qual", "zz", "f0", True))
    for s in STRUCTS + ["S9"]:
        ps.append(("slit", s))
    for g in METHS:
        ps.append(("mint", g))
    for s in STRUCTS:
        ps.append(("mstruct", s, rng.choice(METHS)))
    if len(ps) > limit:
        keep = [p for p in ps if (p[0] == "qual" and p[2].startswith("via") and p[2] != "viaz0")
                or (p[0] == "bare" and p[1].startswith("via"))]
        rest = [p for p in ps if p not in keep]
        rng.shuffle(rest)
        ps = keep[:max(4, limit // 3)] + rest
        ps = ps[:limit]
    return ps


# ------------------------------------------------------------------ running the implementation
CHECK_PATTERNS = [
    ("missingFile", re.compile(r"^No such file ")),
    ("unbound", re.compile(r"^Unbound symbol: ")),
    ("notExternal", re.compile(r"is not marked as `external` so it cannot be used outside")),
    ("noItem", re.compile(r"does not contain an item named")),
    ("noType", re.compile(r"^No such type ")),
    ("noMethod", re.compile(r"has no method `")),
]
RUN_PATTERNS = [
    ("missingFile", re.compile(r"^Exception: No such file ")),
    ("unbound", re.compile(r"^Exception: No such variable ")),
    ("notExternal", re.compile(r"^Exception: `[^`]*` is not marked as `external` in ")),
    ("noItem", re.compile(r"^Exception: Namespace `[^`]*` does not contain a function named")),
    ("noType", re.compile(r"^Exception: No type exists named ")),
    ("noMethod", re.compile(r"has no method named `")),
]


def classify_check(rc, so, se):
    if rc == -9999:
        return "timeout"
    if common.crashed(rc):
        m = re.search(r"panicked at ([^\n]*)", se)
        return "crash:" + (m.group(1).strip() if m else str(rc))
    missing, kinds = 0, []
    for line in so.split("\n"):
        line = line.strip()
        if not line.startswith("{"):
            continue
        try:
            d = json.loads(line)
        except ValueError:
            return "garbled:" + line[:80]
        if d.get("severity") != "error":
            continue
        msg = d.get("message", "")
        for kind, pat in CHECK_PATTERNS:
            if pat.search(msg):
                if kind == "missingFile":
                    missing += 1
                else:
                    kinds.append(kind)
                break
        else:
            kinds.append("other:" + msg[:80])
    return "diags=%d %s" % (missing, ",".join(sorted(kinds)) or "none")


def classify_run(rc, so, se):
    if rc == -9999:
        return "timeout"
    if common.crashed(rc):
        m = re.search(r"panicked at ([^\n]*)", se)
        return "crash:" + (m.group(1).strip() if m else str(rc))
    first = se.strip().split("\n")[0] if se.strip() else ""
    if first:
        for kind, pat in RUN_PATTERNS:
            if pat.search(first):
                return "err:" + kind
        return "err:other:" + first[:80]
    out = so.strip()
    if re.fullmatch(r"-?\d+", out) and int(out) >= 1000:
        return "ok:" + out
    if out == "":
        return "err:other:no-output rc=%d" % rc
    return "ok:-"


def garden(ctx, args, cwd):
    """`timeout 10` + address-space limit; one retry with a longer limit so that a loaded machine is
    not mistaken for a loop (a real loop still times out)."""
    env = {"RUST_BACKTRACE": "0"}
    res = ctx.garden(args, cwd=cwd, timeout=TIMEOUT, env=env)
    if res[0] == -9999:
        res = ctx.garden(args, cwd=cwd, timeout=4 * TIMEOUT, env=env)
    return res


def classify_test(rc, so, se, n):
    """`garden test main.gdn` with one `test p<i>` per probe: each test is evaluated on its own, a
    failing one is reported as `Failed: p<i> …` + message and does not stop the others."""
    if rc == -9999:
        return None, "timeout"
    if common.crashed(rc):
        m = re.search(r"panicked at ([^\n]*)", se)
        return None, "crash:" + (m.group(1).strip() if m else str(rc))
    out = [None] * n
    lines = so.split("\n")
    for j, line in enumerate(lines):
        m = re.match(r"P(\d+) (.*)$", line)
        if m and int(m.group(1)) < n:
            v = m.group(2).strip()
            out[int(m.group(1))] = "ok:" + v if re.fullmatch(r"\d+", v) and int(v) >= 1000 else "ok:-"
            continue
        m = re.match(r"Failed: p(\d+) ", line)
        if m and int(m.group(1)) < n:
            msg = "Exception: " + (lines[j + 1].strip() if j + 1 < len(lines) else "")
            for kind, pat in RUN_PATTERNS:
                if pat.search(msg):
                    out[int(m.group(1))] = "err:" + kind
                    break
            else:
                out[int(m.group(1))] = "err:other:" + msg[:80]
    return out, None


def classify_check_lines(rc, so, se, first_line, n):
    """One `garden check --json` over all probes; diagnostics are attributed by line number."""
    if rc == -9999:
        return None, "timeout"
    if common.crashed(rc):
        m = re.search(r"panicked at ([^\n]*)", se)
        return None, "crash:" + (m.group(1).strip() if m else str(rc))
    kinds = [[] for _ in range(n)]
    stray = []
    for line in so.split("\n"):
        line = line.strip()
        if not line.startswith("{"):
            continue
        try:
            d = json.loads(line)
        except ValueError:
            return None, "garbled:" + line[:80]
        if d.get("severity") != "error":
            continue
        msg = d.get("message", "")
        k = d.get("line_number", -1) - first_line
        for kind, pat in CHECK_PATTERNS:
            if pat.search(msg):
                break
        else:
            kind = "other:" + msg[:80]
        if 0 <= k < n and kind != "missingFile":
            kinds[k].append(kind)
        else:
            stray.append(kind)
    if stray:
        return None, "stray:" + ",".join(stray)
    return ["diags=0 %s" % (",".join(sorted(ks)) or "none") for ks in kinds], None


def single_probe(ctx, d, main, src, p):
    with open(os.path.join(d, main), "w") as f:
        f.write(src + "println(string_repr(%s))\n" % probe_expr(p))
    c = classify_check(*garden(ctx, ["check", "--json", main], d))
    r = classify_run(*garden(ctx, ["run", main], d))
    return c, r


def run_project(ctx, base, idx, proj, probes):
    """Materialise the project and evaluate every probe at check time and at run time.
    Batched: one `garden check --json` and one `garden test` over a main file holding one
    `test p<i> { … }` per probe (a failing test does not hide the others, diagnostics carry their
    line), plus two probes re-run alone through `garden check` / `garden run` and compared with the
    batched answer. Projects that import an unreadable file (loading itself reports an error) or on
    which a batched process crashes or times out are evaluated one probe per process.
    Returns (list of (check, run), sources, inconsistencies)."""
    d = os.path.join(base, "p%05d" % idx)
    shutil.rmtree(d, ignore_errors=True)
    os.makedirs(d)
    main = proj["main"]
    srcs = {}
    for path, items in proj["files"].items():
        full = os.path.join(d, path)
        os.makedirs(os.path.dirname(full), exist_ok=True)
        srcs[path] = render_file(path, items, idx)
        with open(full, "w") as f:
            f.write(srcs[path])
    n = len(probes)
    incons = []
    res = None
    _, _, n_missing = panic_classes(proj)
    if not n_missing:
        body = "".join('test p%d { println("P%d " ^ string_repr(%s)) }\n' % (i, i, probe_expr(p))
                       for i, p in enumerate(probes))
        with open(os.path.join(d, main), "w") as f:
            f.write(srcs[main] + body)
        first = srcs[main].count("\n") + 1
        cs, cerr = classify_check_lines(*garden(ctx, ["check", "--json", main], d), first, n)
        ts, terr = classify_test(*garden(ctx, ["test", main], d), n)
        if cerr is None and terr is None and all(t is not None for t in ts):
            res = list(zip(cs, ts))
            for i in sorted({(idx * 7 + 1) % n, (idx * 13 + 5) % n}):
                one = single_probe(ctx, d, main, srcs[main], probes[i])
                if one != res[i]:
                    incons.append({"probe": probe_expr(probes[i]), "batched": list(res[i]), "single": list(one)})
                    res[i] = one
    if res is None:
        res = [single_probe(ctx, d, main, srcs[main], p) for p in probes]
    shutil.rmtree(d, ignore_errors=True)
    return res, srcs, incons


n_fixed = [0]


def fixed_probe(ctx, base, name, files, main="main.gdn"):
    n_fixed[0] += 1
    d = os.path.join(base, name)
    shutil.rmtree(d, ignore_errors=True)
    os.makedirs(d)
    for p, s in files.items():
        with open(os.path.join(d, p), "w") as f:
            f.write(s)
    c = classify_check(*garden(ctx, ["check", "--json", main], d))
    r = classify_run(*garden(ctx, ["run", main], d))
    shutil.rmtree(d, ignore_errors=True)
    return c, r


# ------------------------------------------------------------------ specification helpers (model-free)
def fn_flags(items, x):
    return [i[1] for i in items if i[0] == "fn" and i[2] == x]


def tag_info(proj):
    """tag -> (file, kind, pub)"""
    t = {}
    for path, items in proj["files"].items():
        for i in items:
            if i[0] == "fn":
                t[i[3]] = (path, "fn", i[1])
            elif i[0] == "meth":
                t[i[4]] = (path, "meth", i[1])
    return t


def reachable_files(proj):
    seen, todo = set(), [proj["main"]]
    while todo:
        f = todo.pop()
        if f in seen or f not in proj["files"]:
            continue
        seen.add(f)
        todo += [i[1] for i in proj["files"][f] if i[0] == "imp"]
    return seen


def on_cycle(proj, f):
    """f can reach itself through imports."""
    seen, todo = set(), [i[1] for i in proj["files"].get(f, []) if i[0] == "imp"]
    while todo:
        g = todo.pop()
        if g == f:
            return True
        if g in seen or g not in proj["files"]:
            continue
        seen.add(g)
        todo += [i[1] for i in proj["files"][g] if i[0] == "imp"]
    return False


def panic_classes(proj):
    """Structural (model-free) description of the two crash classes."""
    reach = reachable_files(proj)
    n_missing = sum(1 for f in reach for i in proj["files"][f] if i[0] == "imp" and i[1] not in proj["files"])
    self_imp = any(i[0] == "imp" and i[1] == f and i[2] is None and any(j[0] == "fn" and j[1] for j in proj["files"][f])
                   for f in reach for i in proj["files"][f])
    return n_missing >= 2, self_imp, n_missing


def is_err(out):
    return out.startswith("err:") or (out.startswith("diags=") and not out.endswith(" none"))


def oracle(ctx, proj, probes, results, srcs):
    """Judge the implementation from the project text alone."""
    files = proj["files"]
    main = files[proj["main"]]
    tags = tag_info(proj)
    reimport, selfimp, n_missing = panic_classes(proj)
    replay = lambda p, c, r: dict(files=srcs, probe=probe_expr(p), check=c, run=r,
                                  how="write the files, append `println(string_repr(<probe>))` to main.gdn, "
                                      "`garden check --json main.gdn`, `garden run main.gdn`")
    direct_plain = [i[1] for i in main if i[0] == "imp" and i[2] is None]
    direct_any = {i[1] for i in main if i[0] == "imp"}
    for p, (c, r) in zip(probes, results):
        # O4: termination and crashes
        if c == "timeout" or r == "timeout":
            ctx.fail("C34/import-loop-timeout", "check or run did not finish within %d s" % TIMEOUT, **replay(p, c, r))
            continue
        if c.startswith("crash") or r.startswith("crash"):
            site = c if c.startswith("crash") else r
            if n_missing and "eval.rs:476" in site:     # an unreadable path met twice (textually, or because
                #                                             the importing file is itself loaded twice)
                ctx.fail(K_REIMPORT, "importing an unreadable file twice panics", **replay(p, c, r))
            elif selfimp and "eval.rs:646" in site:
                ctx.fail(K_SELF, "a file importing itself (no `as`) with a public function panics", **replay(p, c, r))
            else:
                ctx.fail("C34/loader-crash", "garden crashed: " + site, **replay(p, c, r))
            continue
        if n_missing:
            continue     # loading reports the unreadable file; nothing is evaluated
        cerr, rerr = is_err(c), is_err(r)
        kind = p[0]
        inner = (kind == "qual" and p[2].startswith("via")) or (kind == "bare" and p[1].startswith("via"))
        # O5: check time and run time agree on main-level probes
        if not inner and cerr != rerr:
            ctx.fail("C34/check-run-disagree", "check time says %s, run time says %s" % (c, r), **replay(p, c, r))
        # tag soundness: what is reached is local to main or public where it is defined
        if r.startswith("ok:") and r[3:].isdigit() and not inner:
            t = tags.get(int(r[3:]))
            if t is None:
                ctx.fail("C34/unknown-tag", "probe printed %s" % r, **replay(p, c, r))
            elif t[0] != proj["main"] and not t[2]:
                if t[1] == "fn":
                    ctx.fail("C34/private-fun-reached", "reached the private function %d of %s" % (int(r[3:]), t[0]),
                             **replay(p, c, r))
                else:
                    ctx.fail(K_PRIV_METH, "a private method of an imported file is callable by the importer",
                             **replay(p, c, r))
        if kind == "qual" and not inner and p[2] in FN and p[3]:
            targets = [i[1] for i in main if i[0] == "imp" and i[2] == p[1]]
            if len(set(targets)) != 1:
                continue
            flags = fn_flags(files.get(targets[0], []), p[2])
            if len(set(flags)) > 1:
                continue
            expect = bool(flags) and flags[0]
            if expect and (cerr or rerr):
                ctx.fail("C34/public-fun-unreachable-qualified", "`%s` is public in %s but %s / %s" % (
                    p[2], targets[0], c, r), **replay(p, c, r))
            if not expect and not rerr:
                ctx.fail("C34/private-fun-reachable-qualified-run", "`%s::%s` is not a public function of %s but "
                         "run gives %s" % (p[1], p[2], targets[0], r), **replay(p, c, r))
            if not expect and not cerr:
                ctx.fail("C34/private-fun-reachable-qualified-check", "`%s::%s` is not a public function of %s but "
                         "check gives %s" % (p[1], p[2], targets[0], c), **replay(p, c, r))
        elif kind == "bare" and p[1] in FN and p[2]:
            local = bool(fn_flags(main, p[1]))
            fl = [fn_flags(files.get(t, []), p[1]) for t in direct_plain]
            if any(len(set(f)) > 1 for f in fl):
                continue
            expect = local or any(f and f[0] for f in fl)
            if expect and (cerr or rerr):
                ctx.fail("C34/public-fun-unreachable-unqualified", "`%s` should be in scope but %s / %s" % (p[1], c, r),
                         **replay(p, c, r))
            if not expect and not rerr:
                ctx.fail("C34/private-fun-reachable-unqualified-run", "bare `%s` is neither local nor public in an "
                         "unqualified import but run gives %s" % (p[1], r), **replay(p, c, r))
            if not expect and not cerr:
                ctx.fail("C34/private-fun-reachable-unqualified-check", "bare `%s` is neither local nor public in an "
                         "unqualified import but check gives %s" % (p[1], c), **replay(p, c, r))
        elif kind == "slit" and not rerr:
            defs = [(f, i[1]) for f, items in files.items() for i in items if i[0] == "struct" and i[2] == p[1]]
            if any(f == proj["main"] for f, _ in defs):
                continue
            if defs and not any(pub for _, pub in defs):
                ctx.fail(K_PRIV_TYPE, "a private struct of an imported file is usable by the importer", **replay(p, c, r))
            elif not any(f in direct_any for f, pub in defs if pub):
                ctx.fail(K_TRANSITIVE, "a type/method of a file that main does not import is usable in main",
                         **replay(p, c, r))
        elif kind == "mint" and r.startswith("ok:") and r[3:].isdigit():
            t = tags.get(int(r[3:]))
            if t and t[2] and t[0] != proj["main"] and t[0] not in direct_any:
                ctx.fail(K_TRANSITIVE, "a type/method of a file that main does not import is usable in main",
                         **replay(p, c, r))
        elif kind == "bare" and p[1] in VARIANTS:
            local = any(i[0] == "enum" and p[1] in i[3] for i in main)
            pubv = any(i[0] == "enum" and i[1] and p[1] in i[3] for t in direct_plain for i in files.get(t, []))
            privv_only = not pubv and not local
            if pubv and not local and (cerr or rerr):
                ctx.fail(K_VARIANTS, "the variants of a `public enum` are not brought into scope by an unqualified "
                         "import (nor reachable through `ns::Variant`)", **replay(p, c, r))
            if privv_only and not rerr:
                ctx.fail("C34/private-variant-reachable", "bare `%s` reached: %s" % (p[1], r), **replay(p, c, r))
        elif kind == "qual" and p[2] in VARIANTS:
            targets = [i[1] for i in main if i[0] == "imp" and i[2] == p[1]]
            if len(set(targets)) != 1:
                continue
            items = files.get(targets[0], [])
            pubv = [i[1] for i in items if i[0] == "enum" and p[2] in i[3]]
            if pubv and all(pubv) and (cerr or rerr):
                ctx.fail(K_VARIANTS, "the variants of a `public enum` are not brought into scope by an unqualified "
                         "import (nor reachable through `ns::Variant`)", **replay(p, c, r))
            if pubv and not any(pubv) and not rerr:
                ctx.fail("C34/private-variant-reachable", "`%s::%s` reached: %s" % (p[1], p[2], r), **replay(p, c, r))
        elif inner and not cerr:
            # the body of via<k> (project-unique name) in file F looks a function up in F's own scope
            vname = p[2] if kind == "qual" else p[1]
            owners = [f for f, items in files.items() if any(i[0] == "fn" and i[2] == vname for i in items)]
            if len(owners) != 1 or owners[0] == proj["main"]:
                continue
            F = owners[0]
            if kind == "qual":
                targets = [i[1] for i in main if i[0] == "imp" and i[2] == p[1]]
                if set(targets) != {F}:
                    continue
            elif F not in direct_plain:
                continue
            vias = [i for i in files[F] if i[0] == "fn" and i[2] == vname]
            if len(vias) != 1:
                continue
            body = vias[0][4]
            x = body[2] if body[0] == "qual" else body[1]
            if body[0] == "qual":
                # F's `alias::x`: the namespace is shared by reference, so load order cannot matter
                tg = [i[1] for i in files[F] if i[0] == "imp" and i[2] == body[1]]
                if len(set(tg)) != 1 or tg[0] not in files:
                    continue
                G = tg[0]
                flags = fn_flags(files[G], x)
                if len(set(flags)) > 1:
                    continue
                expect = bool(flags) and flags[0]
                if expect and rerr:
                    ctx.fail("C34/public-fun-unreachable-qualified", "`%s::%s` in %s: `%s` is public in %s but %s" % (
                        body[1], x, F, x, G, r), **replay(p, c, r))
                if not expect and not rerr:
                    ctx.fail("C34/private-fun-reachable-qualified-run", "`%s::%s` in %s is not a public function of %s "
                             "but run gives %s" % (body[1], x, F, G, r), **replay(p, c, r))
                continue
            local = bool(fn_flags(files[F], x))
            plain = [i[1] for i in files[F] if i[0] == "imp" and i[2] is None]
            fl = [fn_flags(files.get(t, []), x) for t in plain]
            if any(len(set(f)) > 1 for f in fl):
                continue
            expect = local or any(f and f[0] for f in fl)
            if expect and rerr:
                # Every public function of a file is callable from every file that imports it without
                # `as`. When F is the ONLY file that imports the entry file back, the entry file is not
                # in `paths_seen` when F's import runs, so it is loaded in full there: no excuse.
                via_entry = (not local and proj["main"] in plain
                             and not any(f2 and f2[0] for t, f2 in zip(plain, fl) if t != proj["main"]))
                importers = [f for f, items in files.items() if any(i[0] == "imp" and i[1] == proj["main"] for i in items)]
                if via_entry and importers == [F] and F in direct_any:
                    ctx.fail("C34/entry-cycle-public-fun-unreachable", "`%s` is a public function of the entry file %s, "
                             "%s imports it without `as` (cycle through the entry file), but calling it from %s gives %s"
                             % (x, proj["main"], F, F, r), **replay(p, c, r))
                elif on_cycle(proj, F):
                    ctx.fail(K_CYCLIC_PARTIAL, "in an import cycle an unqualified import of a file that is still being "
                             "loaded copies only the public functions defined so far", **replay(p, c, r))
                else:
                    ctx.fail("C34/public-fun-unreachable-unqualified", "`%s` should be in scope of %s but %s" % (x, F, r),
                             **replay(p, c, r))
            if not expect and not rerr and r[3:].isdigit():
                t = tags.get(int(r[3:]))
                if t and t[0] != F and not t[2]:
                    ctx.fail("C34/private-fun-reached", "reached the private function %s of %s from %s" % (r[3:], t[0], F),
                             **replay(p, c, r))


# ------------------------------------------------------------------ main entry
def run(ctx):
    rng = ctx.rng
    base = os.path.join(common.BUILD, "scratch", "imports", "c34-%d" % os.getpid())
    shutil.rmtree(base, ignore_errors=True)
    os.makedirs(base)
    try:
        _run(ctx, rng, base)
    finally:
        shutil.rmtree(base, ignore_errors=True)


def _run(ctx, rng, base):
    t_fixed = time.time()
    n_fixed[0] = 0
    # ---- fixed, model-free replays (all run in parallel): the two crash sites, the DESIGN §8 findings,
    # the function rule on two files, the cyclic partial import
    lib = ("public fun pubf(): Int { 1001 }\nfun privf(): Int { 1002 }\nstruct PrivS { a: Int }\n"
           "method privm(this: PrivS): Int { 1003 }\npublic enum PubE { PRed, PGreen }\n")
    cyc = {"a.gdn": 'public fun x(): Int { 1001 }\nimport "./b.gdn"\npublic fun y(): Int { 1002 }\n',
           "b.gdn": 'import "./a.gdn"\npublic fun viax(): Int { x() }\npublic fun viay(): Int { y() }\n'}
    jobs = {
        "reimport": {"main.gdn": 'import "./nosuch.gdn" as a\nimport "./nosuch.gdn" as b\nprintln("hi")\n'},
        "self": {"main.gdn": 'import "./main.gdn"\npublic fun x(): Int { 1 }\nprintln(string_repr(x()))\n'},
    }
    finding_cases = [
        ("private type", "println(string_repr(PrivS{ a: 1 }.a))", K_PRIV_TYPE,
         "a private struct of an imported file is usable by the importer", lambda c, r: not is_err(r)),
        ("private method", "println(string_repr(PrivS{ a: 1 }.privm()))", K_PRIV_METH,
         "a private method of an imported file is callable by the importer", lambda c, r: r == "ok:1003"),
        ("public variant", "println(string_repr(PRed))", K_VARIANTS,
         "the variants of a `public enum` are not brought into scope by an unqualified import (nor reachable "
         "through `ns::Variant`)", lambda c, r: is_err(r) or is_err(c)),
    ]
    for name, body, _, _, _ in finding_cases:
        jobs[name] = {"lib.gdn": lib, "main.gdn": 'import "./lib.gdn"\n' + body + "\n"}
    fun_cases = [("println(string_repr(m::pubf()))", False), ("println(string_repr(m::privf()))", True),
                 ("println(string_repr(m::nosuch()))", True)]
    for body, _ in fun_cases:
        jobs[body] = {"lib.gdn": lib, "main.gdn": 'import "./lib.gdn" as m\n' + body + "\n"}
    cyc_cases = [("viax", "ok:1001"), ("viay", "ok:1002")]
    for fn_, _ in cyc_cases:
        jobs["cyc-" + fn_] = dict(cyc, **{"main.gdn": 'import "./a.gdn" as a\nimport "./b.gdn" as b\n'
                                                    'println(string_repr(b::%s()))\n' % fn_})
    entry_cases = {
        "entry-cycle-plain": {
            "main.gdn": 'import "./b.gdn"\npublic fun a1(): Int { 1001 }\nprintln(string_repr(b1()))\n',
            "b.gdn": 'import "./main.gdn"\npublic fun b1(): Int { a1() }\n'},
        "entry-cycle-as": {
            "main.gdn": 'import "./b.gdn" as b\npublic fun a1(): Int { 1001 }\nprintln(string_repr(b::b1()))\n',
            "b.gdn": 'import "./main.gdn" as a\npublic fun b1(): Int { a::a1() }\n'},
        "entry-cycle-ring": {
            "main.gdn": 'import "./b.gdn" as b\npublic fun a1(): Int { 1001 }\nprintln(string_repr(b::b1()))\n',
            "b.gdn": 'import "./c.gdn"\npublic fun b1(): Int { c1() }\n',
            "c.gdn": 'import "./main.gdn"\npublic fun c1(): Int { a1() }\n'},
    }
    jobs.update(entry_cases)
    names = list(jobs)
    fx = dict(zip(names, common.pmap(lambda i: fixed_probe(ctx, base, "fx%d" % i, jobs[names[i]]), range(len(names)))))
    par_fixed = min(common.NPROC, len(names))

    c1, r1 = fx["reimport"]
    c2, r2 = fx["self"]
    cfg = (1 if "eval.rs:476" in c1 + r1 else 0, 1 if "eval.rs:646" in c2 + r2 else 0)
    ctx.cov["implementation_variant"] = {"reimport_unreadable_panics": bool(cfg[0]), "self_import_panics": bool(cfg[1])}
    if cfg[0]:
        ctx.fail(K_REIMPORT, "importing an unreadable file twice panics", files=jobs["reimport"], check=c1, run=r1)
    elif c1.startswith("crash") or r1.startswith("crash") or c1 == "timeout" or r1 == "timeout":
        ctx.fail("C34/loader-crash", "crash on the reimport replay: %s %s" % (c1, r1), files=jobs["reimport"])
    if cfg[1]:
        ctx.fail(K_SELF, "a file importing itself (no `as`) with a public function panics", files=jobs["self"],
                 check=c2, run=r2)
    elif c2.startswith("crash") or r2.startswith("crash") or not r2.startswith("ok"):
        ctx.fail("C34/loader-crash", "self-import replay: %s %s" % (c2, r2), files=jobs["self"])
    for name, body, key, what, bad in finding_cases:
        c, r = fx[name]
        ctx.case(("fixed", name), True)
        if bad(c, r):
            ctx.fail(key, what, files=jobs[name], check=c, run=r)
    for body, expect_err in fun_cases:
        c, r = fx[body]
        ctx.case(("fixed", body), True)
        if is_err(c) != expect_err or is_err(r) != expect_err or c.startswith("crash") or r.startswith("crash") \
                or "timeout" in (c, r):
            ctx.fail("C34/fixed-two-file", "expected error=%s, got check %s run %s" % (expect_err, c, r), files=jobs[body])
    for name in entry_cases:
        c, r = fx[name]
        ctx.case(("fixed", name), True)
        if c == "timeout" or r == "timeout":
            ctx.fail("C34/import-loop-timeout", "cyclic project did not finish", files=jobs[name])
        elif c.startswith("crash") or r.startswith("crash"):
            ctx.fail("C34/loader-crash", "cyclic project crashed: %s %s" % (c, r), files=jobs[name])
        elif r != "ok:1001" or is_err(c):
            ctx.fail("C34/entry-cycle-public-fun-unreachable", "a1 is a public function of the entry file and the other "
                     "file imports the entry file, but the call along the back edge gives check %s run %s" % (c, r),
                     files=jobs[name], check=c, run=r, how="`garden run main.gdn` must print 1001")
    for fn_, want in cyc_cases:
        c, r = fx["cyc-" + fn_]
        files = jobs["cyc-" + fn_]
        ctx.case(("fixed-cycle", fn_), True)
        if c == "timeout" or r == "timeout":
            ctx.fail("C34/import-loop-timeout", "cyclic project did not finish", files=files)
        elif c.startswith("crash") or r.startswith("crash"):
            ctx.fail("C34/loader-crash", "cyclic project crashed: %s %s" % (c, r), files=files)
        elif r != want:
            ctx.fail(K_CYCLIC_PARTIAL, "in an import cycle an unqualified import of a file that is still being "
                     "loaded copies only the public functions defined so far", files=files, check=c, run=r)

    # ---- generated projects
    gen = Gen(rng)
    max_files = ctx.scale(4, 6)
    per_proj = ctx.scale(14, 30)
    # quick tier: as many projects as fit in about two minutes at the measured process cost
    # (30 ms on an idle machine, 0.5 s when the sandbox is shared), between 24 and 300
    # measured cost of one garden process while `par_fixed` of them run side by side
    per_process = max(0.02, (time.time() - t_fixed) / 2.0)
    par = max(1, common.NPROC // 2)
    budget = int(75.0 * par / (per_process * 7))                      # ≈7 processes per project
    n_proj = int(os.environ.get("C34_PROJECTS", ctx.scale(max(24, min(300, budget)), 4000)))
    ctx.cov["seconds_per_garden_process"] = round(per_process, 3)
    shapes = SHAPES
    projs = []
    for k in range(n_proj):
        shape = shapes[k % len(shapes)]
        nfiles = rng.randint(4 if shape == "diamond" else 2, max_files)
        proj = gen.project(nfiles, shape)
        ps = probes_for(rng, proj, per_proj)
        reimport, selfimp, n_miss = panic_classes(proj)
        if reimport or selfimp or n_miss:
            ps = ps[:3]      # every probe of such a project crashes / reports the unreadable file
        projs.append((k, proj, ps))
    ctx.rule = ("project directories of 2-%d files (main.gdn + a/b/c/sub/d/e.gdn); import graphs: chain, diamond, cycle "
                "(incl. back to main), self-import, the same file imported twice under aliases and unqualified, random "
                "digraphs, and cycles THROUGH THE ENTRY FILE (main imports F first, F imports main back with or without `as`, "
                "F's functions call main's functions along the back edge); 3-7%% import an unreadable file once/twice; every file has 2-5 definitions (fun over 4 names, "
                "struct, enum with variants, method on Int or a struct) with random `public`, imports placed before, "
                "between or after them; non-main files get `via<k>` functions whose body looks a function up in that "
                "file's own scope (project-unique names). Probes (batched per project, see module doc): ns::f(), ns::Variant, ns::println, ns::via<k>(), bare f(), bare "
                "Variant, struct literals, method calls; outcome = error kind or the tag of the definition reached. "
                "Non-trivial = the probe's name is defined somewhere in the project with both outcomes possible "
                "(not the `nosuch`/`zz`/`S9` negative controls)." % max_files)
    mlines = [model_line(p, ps, cfg) for _, p, ps in projs]
    model = ctx.model_batch(mlines, shards=min(8, common.NPROC))
    for attempt in range(2):      # the driver binary may be relinked by a concurrent build
        bad = [i for i, m in enumerate(model) if m is None or m.startswith("DIED")]
        if not bad:
            break
        time.sleep(5)
        for i, m in zip(bad, ctx.model_batch([mlines[i] for i in bad], shards=1)):
            model[i] = m
    impl = common.pmap(lambda t: run_project(ctx, base, t[0], t[1], t[2]), projs)
    stats = {"ok": 0, "err": 0, "crash_projects": 0, "cyclic_projects": 0, "probes": 0, "missing_projects": 0}
    kinds = {}
    for (k, proj, probes), m, (res, srcs, incons) in zip(projs, model, impl):
        for inc in incons:
            ctx.broken.append(dict(kind="correspondence", what="batched and single-probe evaluation differ", files=srcs, **inc))
        stats["single_rechecks"] = stats.get("single_rechecks", 0) + 2
        cyc = any(on_cycle(proj, f) for f in proj["files"])
        stats["cyclic_projects"] += cyc
        sexp = model_line(proj, probes, cfg)
        bad_corr = False
        if m is None or not (m.startswith("OK ") or m.startswith("PANIC ")):
            ctx.broken.append({"kind": "correspondence", "what": "model driver did not answer", "input": sexp, "model": m})
            m_parts = None
        elif m.startswith("PANIC "):
            stats["crash_projects"] += 1
            m_parts = None
            site = m.split(" ")[1]
            for p, (c, r) in zip(probes, res):
                ctx.case((k, probe_sexp(p), "panic"), True)
                if not (c.startswith("crash") and site in c and r.startswith("crash") and site in r):
                    ctx.disagree("imports_eval", {"request": sexp, "files": srcs, "probe": probe_expr(p)}, m, [c, r])
                    bad_corr = True
        else:
            m_parts = m.split(";")
            hdr = dict(kv.split("=") for kv in m_parts[0].split(" ")[1:])
            stats["missing_projects"] += hdr["diags"] != "0"
            for p, g, (c, r) in zip(probes, m_parts[1:], res):
                mrun, mcheck = [x.split("=", 1)[1] for x in g.split(" ")]
                want_c = "diags=%s %s" % (hdr["diags"], mcheck)
                nontrivial = p[-1] is not False and not (p[0] == "qual" and p[1] == "zz") and "nosuch" not in p and "S9" not in p
                ctx.case((k, probe_sexp(p), sexp), nontrivial)
                stats["probes"] += 1
                stats["ok" if r.startswith("ok") else "err"] += 1
                kinds[r.split(":")[1] if r.startswith("err:") else "ok"] = kinds.get(r.split(":")[1] if r.startswith("err:") else "ok", 0) + 1
                if r != mrun or c != want_c:
                    ctx.disagree("imports_eval", {"request": sexp, "files": srcs, "probe": probe_expr(p)},
                                 {"run": mrun, "check": want_c}, {"run": r, "check": c})
                    bad_corr = True
        if k < 3 and m_parts:
            ctx.sample({"files": srcs, "probe": probe_expr(probes[0]), "impl": list(res[0]), "model": m_parts[1]})
        oracle(ctx, proj, probes, res, srcs)
    ctx.cov["projects"] = len(projs)
    ctx.cov["probe_stats"] = stats
    ctx.cov["run_outcome_kinds"] = kinds
    ctx.assumptions += [
        "model of load_toplevel_items_/insert_imported_namespace/eval_namespace_access/infer_namespace_access is "
        "hand-written; only the correspondence run ties it",
        "paths are compared after lexical normalisation (no symlinks); built-in `__*.gdn` files, parse errors in "
        "imported files and non-UTF-8 files are not generated",
        "only five prelude names are represented in the model's namespaces (generated names never collide with the prelude)",
    ]
