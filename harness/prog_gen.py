"""Generator of parseable Garden programs and of whitespace/comment perturbations.

Public API (reused by other checks):

    gen_program(rng, size) -> str            canonical layout (2-space indent, one statement per line)
    perturb_whitespace(rng, src) -> str      same tokens, different whitespace / comments / blank lines
    gen_tokens(rng, size) -> list[Tok]       the token/gap form behind both (see below)
    render(toks, rng=None, level=0) -> str   level 0 = canonical, >0 = perturbed
    seed_files() -> list[(path, text)]       every .gdn under the repo's src/ and sample_programs/

A program is generated as a list of `Tok(gap, text)`: `text` is one lexer token or one `//` comment,
`gap` says what whitespace may precede it:

    T  must touch the previous token         (`foo(`, `.name`, `::name`, `Name{`)
    S  at least one blank, same line          (between words, after `return` with a value, after binary `-` before a digit)
    O  optional blanks, same line             (around operators, commas, colons; `o` = canonical is empty)
    N  a new line is required                 (between statements and items)
    L  optional blanks or a line break        (after `(` `[` `,` and before `)` `]` in argument lists; `l` = canonical empty)

`perturb_whitespace` works on source text without knowing the grammar: it only rewrites leading
whitespace of lines that do not start inside a string literal, trailing whitespace, blank lines,
blanks that are already there between tokens, and adds comment lines. It therefore preserves the
token sequence of any input (also of the repo's own files).
"""
import os
import re

KEYWORDS = {"let", "fun", "enum", "struct", "import", "if", "else", "while", "return", "test", "match",
            "break", "continue", "for", "in", "assert", "as", "method", "public", "shared", "try", "catch"}


class Tok:
    __slots__ = ("gap", "text", "depth")

    def __init__(self, gap, text, depth=0):
        self.gap = gap
        self.text = text
        self.depth = depth

    def __repr__(self):
        return "%s%r" % (self.gap, self.text)


VARS = ["x", "y", "z", "acc", "item", "count", "name_1", "_tmp", "value", "i", "n"]
FUNS = ["foo", "bar", "compute_total", "helper", "go", "process_items"]
METHS = ["len", "append", "get", "join", "trim", "or_throw", "contains"]
TYPES = ["Int", "String", "Bool", "List<Int>", "Option<String>", "Result<Int, String>", "(Int, String)",
         "List<(Int, String)>", "Unit", "T", "Fun<(), Unit>", "Fun<(Int), String>", "()"]
STRUCTS = ["Point", "Person", "Config"]
VARIANTS = ["Some", "None", "Ok", "Err", "Red", "Green"]
NONASCII = ["é", "日本", "ß", "→", "ñ", "😀"]


class Gen:
    def __init__(self, rng, size, multiline_strings=True, odd_comments=False):
        self.rng = rng
        self.size = size
        self.out = []
        self.depth = 0
        self.ml = multiline_strings
        # a program either has no multi-line literals (most) or has them at a visible rate
        self.ml_rate = 0.0 if rng.random() < 0.7 else 0.5
        self.odd = odd_comments
        self.budget = size * 12

    # -- emit helpers
    def t(self, gap, text):
        self.out.append(Tok(gap, text, self.depth))

    def nl(self):
        return "N"

    def chance(self, p):
        return self.rng.random() < p

    def pick(self, xs):
        return self.rng.choice(xs)

    # -- types: emitted as individual tokens
    def type_(self, gap, ty=None):
        ty = ty or self.pick(TYPES)
        first = True
        for m in re.finditer(r"[A-Za-z_]+|[<>(),]", ty):
            s = m.group(0)
            if first:
                self.t(gap, s)
                first = False
            elif s == ",":
                self.t("o", s)
            elif s in "<>)":
                self.t("o", s)
            else:
                prev = self.out[-1].text
                self.t("O" if prev == "," else "o", s)

    # -- comments
    def comment_line(self, doc=False):
        words = ["note", "TODO: fix", "x = 1", "see \"docs\"", "a, b => c", "{ not code }", self.pick(NONASCII),
                 "fun foo() {", "", "  indented text", "if (x) { y }", "args: not a footer"]
        pre = "///" if doc else "//"
        sp = self.pick([" ", " ", "", "  "])
        self.t("N", pre + sp + self.pick(words))

    def maybe_comments(self, p=0.15):
        if self.chance(p):
            for _ in range(self.rng.randint(1, 3)):
                self.comment_line()

    def eol_comment(self, p=0.06):
        if self.chance(p):
            self.t("S", "// " + self.pick(["trailing", "why", "é!", "x + 1"]))

    # -- expressions
    def string_lit(self):
        r = self.rng.random()
        if r < 0.55:
            body = self.pick(["", "abc", "hello world", "a  b", "x, y", "k => v", "{}", "f(x)", "it's", "// not a comment",
                              "a:B", "1+2", "tab\\tsep", "q\\\"q", "back\\\\slash", "nl\\n"])
        elif r < 0.75:
            body = self.pick(NONASCII) + self.pick(["", " ", "x"]) + self.pick(NONASCII + [""])
        elif self.ml and self.rng.random() < self.ml_rate:
            # multi-line literal: real newlines inside the token, with leading blanks on the continuation lines
            parts = [self.pick(["x", "first", "", "a b", "é"])]
            for _ in range(self.rng.randint(1, 3)):
                parts.append(self.pick(["", " ", "   ", "\t", "      "]) + self.pick(["y", "next", "", "}", "// c", "let q = 1", "z  "]))
            body = "\n".join(parts)
        else:
            body = "plain"
        return '"' + body + '"'

    def atom(self, gap):
        r = self.rng.random()
        if r < 0.3:
            self.t(gap, self.pick(VARS))
        elif r < 0.5:
            self.t(gap, str(self.rng.choice([0, 1, 2, 10, 42, 1000, 1_000])))
        elif r < 0.55:
            self.t(gap, "-" + str(self.rng.randint(1, 99)))
        elif r < 0.6:
            self.t(gap, self.pick(["1.5", "0.25", "-2.0", "10.0"]))
        elif r < 0.85:
            self.t(gap, self.string_lit())
        else:
            self.t(gap, self.pick(["True", "False", "None", "Unit"]))

    def args(self, d, close=")"):
        """`(` has been emitted. Emit comma separated expressions and the closer."""
        n = self.rng.choice([0, 1, 1, 2, 2, 3, 4])
        multi = n >= 2 and self.chance(0.25)
        self.depth += 1
        for i in range(n):
            g = ("N" if multi else "l") if i == 0 else ("N" if multi else "L")
            if self.chance(0.07) and d > 0 and self.budget > 0:
                self.budget -= 3
                self.lambda_(g, d - 1)
            else:
                self.expr(g, d - 1)
            if i < n - 1 or self.chance(0.15 if not multi else 0.6):
                self.t("o", ",")
                if multi:
                    self.eol_comment(0.1)
        self.depth -= 1
        self.t("N" if multi else "l", close)

    def lambda_(self, gap, d):
        self.t(gap, "fun")
        self.t("o", "(")
        n = self.rng.randint(0, 2)
        names = self.rng.sample(VARS, n)
        for i in range(n):
            self.t("l" if i == 0 else "L", names[i])
            if self.chance(0.5):
                self.t("o", ":")
                self.type_("O")
            if i < n - 1:
                self.t("o", ",")
        self.t("l", ")")
        if self.chance(0.3):
            self.t("o", ":")
            self.type_("O")
        self.block("O", min(d, 1), short=self.chance(0.5))

    def postfix(self, gap, d):
        r = self.rng.random()
        self.budget -= 0.2
        if r < 0.45 or d <= 0 or self.budget < 0:
            self.atom(gap)
        elif r < 0.65:
            self.t(gap, self.pick(FUNS + ["println", "string_repr"]))
            self.t("T", "(")
            self.args(d)
        elif r < 0.8:
            self.postfix(gap, d - 1)
            self.t("l" if self.chance(0.9) else "N", ".")
            self.t("T", self.pick(METHS))
            self.t("T", "(")
            self.args(d)
        elif r < 0.85:
            self.t(gap, self.pick(VARS))
            self.t("o", ".")
            self.t("T", self.pick(["x", "name", "items"]))
        elif r < 0.88:
            self.t(gap, self.pick(["fs", "utils"]))
            self.t("o", "::")
            self.t("T", self.pick(FUNS))
            self.t("T", "(")
            self.args(d)
        elif r < 0.92:
            self.t(gap, "[")
            self.args(d, "]")
        elif r < 0.95:
            self.t(gap, "(")
            k = self.rng.randint(1, 3)
            for i in range(k):
                self.expr("l" if i == 0 else "L", d - 1)
                if i < k - 1:
                    self.t("o", ",")
            self.t("l", ")")
        elif r < 0.975:
            self.t(gap, self.pick(STRUCTS))
            self.t("T", "{")
            k = self.rng.randint(1, 3)
            for i in range(k):
                self.t("L", self.pick(["x", "y", "name"]))
                self.t("o", ":")
                self.expr("O", d - 1)
                if i < k - 1 or self.chance(0.3):
                    self.t("o", ",")
            self.t("L", "}")
        else:
            self.t(gap, "Dict")
            self.t("o", "[")
            k = self.rng.randint(0, 2)
            for i in range(k):
                self.t("l" if i == 0 else "L", self.string_lit() if not self.ml else '"k%d"' % i)
                self.t("O", "=>")
                self.expr("O", d - 1)
                if i < k - 1:
                    self.t("o", ",")
            self.t("l", "]")

    def expr(self, gap, d):
        if d > 0 and self.chance(0.3):
            self.postfix(gap, d)
            for _ in range(self.rng.choice([1, 1, 2, 3])):
                op = self.pick(["+", "-", "*", "/", "==", "!=", "<", ">", "<=", ">=", "&&", "||", "^", "%", "**"])
                brk = self.chance(0.05)
                self.t("O", op)
                mark = len(self.out)
                self.depth += 1
                self.postfix("N" if brk else "O", d - 1)
                self.depth -= 1
                nxt = self.out[mark]
                if op in "-+" and nxt.text[:1].isdigit() and nxt.gap != "N":
                    nxt.gap = "S"
                if op in "-+" and nxt.text[:1] == "-":
                    nxt.gap = "S" if nxt.gap != "N" else "N"
                if op == "/" and nxt.text[:1] == "/":
                    nxt.gap = "S"
        else:
            self.postfix(gap, d)

    # -- statements
    def block(self, gap, d, short=False, body=None):
        """`{ stmts }`; short = on one line."""
        self.t(gap, "{")
        if short:
            self.expr("O", min(d, 1))
            self.t("O", "}")
            return
        self.depth += 1
        n = self.rng.randint(0, 2) if d <= 0 else self.rng.randint(1, 4)
        for _ in range(n):
            self.stmt(d - 1)
        if self.chance(0.08):
            self.comment_line()
        self.depth -= 1
        self.t("N", "}")

    def stmt(self, d):
        self.budget -= 1
        self.maybe_comments(0.12)
        r = self.rng.random()
        if self.budget < 0:
            r = 0.0
        if self.ml and self.ml_rate > 0 and self.chance(0.12):
            # a multi-line string literal whose continuation lines carry their own leading blanks, ending
            # a statement, followed on the same line by a comment / on the next line by a comment line
            # (the closing-quote line starts inside the token: nothing on it may be re-indented)
            self.t("N", self.pick(["let", "return", None]))
            if self.out[-1].text is None:
                self.out.pop()
                g = "N"
            elif self.out[-1].text == "let":
                self.t("S", self.pick(VARS))
                self.t("O", "=")
                g = "O"
            else:
                g = "S"
            lines = [self.pick(["Usage:", "x", "", "first line"])]
            for _ in range(self.rng.randint(1, 3)):
                lines.append(self.pick(["", " ", "      ", "\t", "  ", "            "]) + self.pick(["garden run FILE", "y", "", "}", "z  "]))
            self.t(g, '"' + "\n".join(lines) + '"')
            if self.chance(0.7):
                self.t("S", "// " + self.pick(["usage text", "after the closing quote", "é", "x = 1"]))
            if self.chance(0.4):
                self.comment_line()
            return
        if r < 0.22:
            self.t("N", "let")
            if self.chance(0.15):
                a, b = self.rng.sample(VARS, 2)
                self.t("S", "(")
                self.t("l", a)
                self.t("o", ",")
                self.t("O", b)
                self.t("l", ")")
            else:
                self.t("S", self.pick(VARS))
                if self.chance(0.35):
                    self.t("o", ":")
                    self.type_("O")
            self.t("O", "=")
            if d > 0 and self.chance(0.08):
                self.if_("O", d - 1, as_expr=True)
            elif d > 0 and self.chance(0.06):
                self.match_("O", d - 1)
            else:
                self.expr("O", 2)
        elif r < 0.3:
            self.t("N", self.pick(VARS))
            self.t("O", self.pick(["=", "+=", "-="]))
            self.expr("O", 2)
        elif r < 0.42 and d > 0:
            self.if_("N", d)
        elif r < 0.48 and d > 0:
            self.t("N", "while")
            self.cond()
            self.block("S", d)
        elif r < 0.54 and d > 0:
            self.t("N", "for")
            if self.chance(0.2):
                self.t("S", "(")
                self.t("l", "a")
                self.t("o", ",")
                self.t("O", "b")
                self.t("l", ")")
            else:
                self.t("S", self.pick(VARS))
            self.t("S", "in")
            self.expr("S", 1)
            self.block("S", d)
        elif r < 0.6 and d > 0:
            self.match_("N", d)
        elif r < 0.66:
            self.t("N", "return")
            if self.chance(0.75):
                self.expr("S", 2)
        elif r < 0.69:
            self.t("N", self.pick(["break", "continue"]))
        elif r < 0.73:
            self.t("N", "assert")
            self.t("o", "(")
            self.expr("l", 2)
            self.t("l", ")")
        elif r < 0.76 and d > 0:
            self.t("N", "try")
            self.block("O", d)
            self.t("O", "catch")
            self.t("O", "(")
            self.t("o", "e")
            self.t("o", ")")
            self.block("O", d)
        else:
            self.expr("N", 3)
        last = self.out[-1].text if self.out else ""
        self.eol_comment(0.5 if "\n" in last else 0.06)

    def cond(self):
        if self.chance(0.35):
            self.t("O", "(")
            self.expr("l", 1)
            self.t("l", ")")
        else:
            self.expr("S", 1)

    def if_(self, gap, d, as_expr=False):
        self.t(gap, "if")
        self.cond()
        self.block("S", d, short=as_expr and self.chance(0.7))
        k = 0
        while self.chance(0.3) and k < 2 and not as_expr:
            self.t("O", "else")
            self.t("S", "if")
            self.cond()
            self.block("S", d)
            k += 1
        if as_expr or self.chance(0.4):
            self.t("O", "else")
            self.block("S", d, short=as_expr and self.chance(0.7))

    def match_(self, gap, d):
        self.t(gap, "match")
        self.cond()
        self.t("S", "{")
        self.depth += 1
        for _ in range(self.rng.randint(1, 3)):
            if self.chance(0.08):
                self.comment_line()
            v = self.pick(VARIANTS + ["_"])
            self.t("N", v)
            if v in ("Some", "Ok", "Err") and self.chance(0.8):
                self.t("o", "(")
                self.t("o", self.pick(VARS + ["_"]))
                self.t("o", ")")
            self.t("O", "=>")
            if self.chance(0.4) and d > 0:
                self.block("O", d - 1, short=self.chance(0.3))
            else:
                self.expr("O", 2)
            if self.chance(0.3):
                self.t("o", ",")
        self.depth -= 1
        self.t("N", "}")

    # -- items
    def params(self, long=False, method=False):
        self.t("T" if self.chance(0.95) else "S", "(")
        n = self.rng.randint(4, 7) if long else self.rng.randint(0, 3)
        names = []
        if method:
            names.append(("this", self.pick(["String", "List<T>", "Point", "Option<Int>"])))
        for i in range(n):
            nm = (self.pick(VARS) + "_%d" % i) if not long else self.pick(["first_parameter", "another_argument",
                                                                           "some_long_name", "callback_value"]) + "_%d" % i
            names.append((nm, self.pick(TYPES) if (long or self.chance(0.8)) else None))
        multi = not long and len(names) >= 2 and self.chance(0.15)
        self.depth += 1
        for i, (nm, ty) in enumerate(names):
            self.t("N" if multi else ("l" if i == 0 else "L"), nm)
            if ty:
                self.t("o", ":")
                self.type_("O", ty)
            if i < len(names) - 1 or (names and self.chance(0.5 if multi else 0.1)):
                self.t("o", ",")
        self.depth -= 1
        self.t("N" if multi else "l", ")")

    def item(self):
        r = self.rng.random()
        doc = self.chance(0.25)
        if self.chance(0.15):
            self.comment_line()
            if self.chance(0.5):
                self.t("N", "")  # blank-line marker (empty token text = forced blank line)
        if doc:
            for _ in range(self.rng.randint(1, 3)):
                self.comment_line(doc=self.chance(0.7))
        if r < 0.42:
            long = self.chance(0.12)
            g = "N"
            if self.chance(0.3):
                self.t(g, "public")
                g = "S"
            if self.chance(0.25):
                self.t(g, "method")
                self.t("S", self.pick(FUNS))
                self.params(long, method=True)
            else:
                self.t(g, "fun")
                self.t("S", self.pick(FUNS))
                if self.chance(0.15):
                    self.t("o", "<")
                    self.t("o", "T")
                    self.t("o", ">")
                self.params(long)
            if self.chance(0.5):
                self.t("o", ":")
                self.type_("O")
            self.block("O", 3)
        elif r < 0.5:
            self.t("N", "struct")
            self.t("S", self.pick(STRUCTS))
            self.t("O", "{")
            self.depth += 1
            k = self.rng.randint(0, 3)
            for i in range(k):
                if self.chance(0.15):
                    self.comment_line(doc=True)
                self.t("N", self.pick(["x", "y", "name", "items"]) + str(i))
                self.t("o", ":")
                self.type_("O")
                if i < k - 1 or self.chance(0.7):
                    self.t("o", ",")
            self.depth -= 1
            self.t("N" if k else "o", "}")
        elif r < 0.57:
            self.t("N", "enum")
            self.t("S", self.pick(["Color", "Shape", "Tree"]))
            if self.chance(0.2):
                self.t("o", "<")
                self.t("o", "T")
                self.t("o", ">")
            self.t("O", "{")
            self.depth += 1
            k = self.rng.randint(0, 3)
            for i in range(k):
                self.t("N", self.pick(["Red", "Green", "Leaf", "Node"]) + str(i))
                if self.chance(0.4):
                    self.t("o", "(")
                    self.type_("o")
                    self.t("o", ")")
                if i < k - 1 or self.chance(0.7):
                    self.t("o", ",")
            self.depth -= 1
            self.t("N" if k else "o", "}")
        elif r < 0.66:
            self.t("N", "test")
            self.t("S", self.pick(FUNS) + "_works")
            self.block("O", 2)
        elif r < 0.72:
            self.t("N", "import")
            self.t("S", '"' + self.pick(["./lib.gdn", "__fs.gdn", "utils.gdn"]) + '"')
            if self.chance(0.5):
                self.t("S", "as")
                self.t("S", self.pick(["fs", "utils"]))
        elif r < 0.78:
            self.block("N", 2)
        else:
            save = self.depth
            self.stmt(2)
            self.depth = save

    def program(self):
        if self.chance(0.03):
            self.t("N", "#!/usr/bin/env garden")
        n = max(1, self.size)
        for _ in range(n):
            self.item()
            if self.budget < -50:
                break
        if self.chance(0.2):
            self.comment_line()
        return self.out


def gen_tokens(rng, size, **kw):
    return Gen(rng, size, **kw).program()


def _canon_gap(tok, first):
    g = tok.gap
    if first:
        return ""
    if g in ("T", "o", "l"):
        return ""
    if g in ("S", "O", "L"):
        return " "
    return "\n" + "  " * tok.depth


def _rand_blank(rng, allow_empty, wild):
    if wild:
        choices = ["", " ", "  ", "   ", "\t", " \t "] if allow_empty else [" ", "  ", "   ", "\t", " \t "]
    else:
        choices = ["", " ", " ", "  "] if allow_empty else [" ", " ", "  "]
    return rng.choice(choices)


_OPCH = set("+-*/%^=<>&|!")


def render(toks, rng=None, level=0):
    """level 0: canonical. level 1: random blanks/indentation/blank lines. level 2: also tabs, trailing
    blanks, line breaks inside argument lists."""
    parts = []
    first = True
    for tok in toks:
        if tok.text == "":   # forced blank line marker
            parts.append("\n")
            continue
        if level == 0 or rng is None:
            gap = _canon_gap(tok, first)
        else:
            g = tok.gap
            wild = level >= 2
            if first:
                gap = rng.choice(["", "", "  ", "\n"]) if wild else ""
            elif g == "T":
                gap = ""
            elif g == "S":
                gap = _rand_blank(rng, False, wild)
            elif g in ("O", "o"):
                gap = _rand_blank(rng, True, wild) if rng.random() < 0.6 else _canon_gap(tok, False)
            elif g in ("L", "l"):
                if wild and rng.random() < 0.08:
                    gap = "\n" + " " * rng.randint(0, 8)
                else:
                    gap = _rand_blank(rng, True, wild) if rng.random() < 0.5 else _canon_gap(tok, False)
            else:  # N
                trail = rng.choice(["", "", "", " ", "  ", "\t"]) if wild else ""
                nls = rng.choice([1, 1, 1, 1, 2, 3, 4])
                r = rng.random()
                if r < 0.35:
                    ind = "  " * tok.depth
                elif r < 0.6:
                    ind = ""
                elif r < 0.9 or not wild:
                    ind = " " * rng.randint(0, 9)
                else:
                    ind = rng.choice(["\t", "\t\t", " \t", "\t  "])
                blankfill = rng.choice(["", "", "  ", "\t"]) if wild else ""
                gap = trail + "\n" + (blankfill + "\n") * (nls - 1) + ind
            # a comment can only follow a line break or a blank
            if tok.text.startswith("//") and gap == "":
                gap = " "
            if first and tok.text.startswith("#"):
                gap = ""
        # two operator tokens must not fuse (`>` `=` after a type hint, `/` `/`)
        if gap == "" and parts and parts[-1][-1:] in _OPCH and tok.text[:1] in _OPCH:
            gap = " "
        parts.append(gap)
        parts.append(tok.text)
        first = False
    src = "".join(parts)
    if level == 0 or rng is None:
        return src + "\n"
    return src + rng.choice(["\n", "\n", "\n", "", "\n\n", "\n\n\n", "  \n", "\n  "])


def gen_program(rng, size, **kw):
    """A parseable Garden program in a canonical layout."""
    return render(gen_tokens(rng, size, **kw))


def gen_program_variants(rng, size, n_variants=3, **kw):
    """(canonical text, [perturbed renderings of the same token list])."""
    toks = gen_tokens(rng, size, **kw)
    return render(toks), [render(toks, rng, 1 + (i % 2)) for i in range(n_variants)]


# ---------------------------------------------------------------- text-level perturbation
_STRING_OR_COMMENT = re.compile(r'"(?:\\"|[^"])*(?:"|\Z)|//[^\n]*')


def protected_spans(src):
    """Byte-free (character) spans of string literals and comments, scanning like the lexer does."""
    spans = []
    i = 0
    n = len(src)
    if src.startswith("#"):
        j = src.find("\n")
        j = n if j < 0 else j
        spans.append((0, j))
        i = j
    while i < n:
        c = src[i]
        if c == '"' or src.startswith("//", i):
            m = _STRING_OR_COMMENT.match(src, i)
            spans.append((i, m.end()))
            i = m.end()
        else:
            i += 1
    return spans


def perturb_whitespace(rng, src, comments=True):
    """Rewrite whitespace of `src` without changing its token sequence:
    * leading whitespace of lines that do not start inside a string literal -> random indentation
    * trailing whitespace added/removed at line ends that are outside strings and not after a comment
    * runs of blanks between tokens that are already non-empty -> 1..3 blanks
    * blank lines duplicated / added between lines (outside strings)
    * comment lines added before some lines
    * final newline removed / doubled
    """
    spans = protected_spans(src)
    prot = bytearray(len(src) + 1)
    for a, b in spans:
        for k in range(a, b):
            prot[k] = 1
    in_string_at = set()
    for a, b in spans:
        if src[a] == '"':
            for k in range(a + 1, b):
                in_string_at.add(k)
    out = []
    i = 0
    n = len(src)
    line_start = True
    while i < n:
        c = src[i]
        if line_start and i not in in_string_at:
            j = i
            while j < n and src[j] in " \t" and not prot[j]:
                j += 1
            if j < n and src[j] == "\n" and not prot[j]:
                # blank line: keep, drop, or double
                r = rng.random()
                out.append("" if r < 0.5 else rng.choice(["  ", "\t", " "]))
                if r > 0.85:
                    out.append("\n")
                i = j
                line_start = False
                continue
            r = rng.random()
            if comments and rng.random() < 0.04 and j < n:
                out.append(" " * rng.randint(0, 6) + "// added " + rng.choice(["note", "é", "x = 1"]) + "\n")
            if r < 0.5:
                out.append(src[i:j])
            elif r < 0.75:
                out.append(" " * rng.randint(0, 10))
            elif r < 0.9:
                out.append("")
            else:
                out.append(rng.choice(["\t", "  \t", "\t\t"]))
            i = j
            line_start = False
            continue
        line_start = False
        if prot[i]:
            out.append(c)
            if c == "\n":
                line_start = True
            i += 1
            continue
        if c == "\n":
            # trailing blanks before the newline (not after a comment: it would become part of it)
            if rng.random() < 0.1 and (i == 0 or not prot[i - 1] or src[i - 1] == '"'):
                out.append(rng.choice([" ", "  ", "\t"]))
            out.append("\n")
            if rng.random() < 0.05:
                out.append("\n")
            line_start = True
            i += 1
            continue
        if c in " \t":
            j = i
            while j < n and src[j] in " \t" and not prot[j]:
                j += 1
            if j < n and src[j] == "\n":
                out.append("" if rng.random() < 0.7 else src[i:j])
            else:
                out.append(" " * rng.choice([1, 1, 1, 2, 3]) if rng.random() < 0.3 else src[i:j])
            i = j
            continue
        out.append(c)
        i += 1
    res = "".join(out)
    r = rng.random()
    if r < 0.1:
        res = res.rstrip("\n") if not res.rstrip("\n").endswith(tuple("/")) or True else res
    elif r < 0.2:
        res += "\n\n"
    return res


def to_crlf(src):
    return src.replace("\r\n", "\n").replace("\n", "\r\n")


def seed_files(repo):
    """Every .gdn file of the repository (test inputs, prelude, samples)."""
    out = []
    for base in ("src", "sample_programs"):
        for dirpath, _, files in os.walk(os.path.join(repo, base)):
            for f in sorted(files):
                if f.endswith(".gdn"):
                    p = os.path.join(dirpath, f)
                    try:
                        out.append((os.path.relpath(p, repo), open(p, encoding="utf-8").read()))
                    except (OSError, UnicodeDecodeError):
                        pass
    out.sort()
    return out
