import GardenVerif.Model.TestRunner
/-!
M4 + eval-up-to (`eval_up_to`, src/eval.rs; `set_observed_expr_value_used`, src/parser.rs).

* `setUsedExpr` / `setUsedBlock` transcribe `set_is_used_expr` / `set_is_used_block` (the pass
  that recomputes `value_is_used` of the expressions in block position below a node);
  `markUsed id` transcribes `ObservedExprValueUsedVisitor`: the node `id` gets `value_is_used =
  true` and its blocks are recomputed as for a used expression; nothing below it is visited again.
* The node id itself (innermost expression at the cursor, `find_item_at` + `find_expr_of_id`) is
  taken from the real tool (hook op `evalupto`), not modelled.
* `evalUpToTest`: `stop_at_expr_id := id`, `push_test_stackframe`, `eval`; `evalUpToExprs`: the
  toplevel frame's pending entries are REPLACED by the item's expressions
  (`eval_toplevel_exprs`), `eval`. Then `assign_var_pos` (an observed assignment / `for` loop
  reports the variable's value), `pop_to_toplevel`. Positions inside functions / methods
  (`prev_call_args`) are not modelled.
The stop test itself is `Machine.stopCheck` / the frame-return test of `stepWith`.
-/

namespace EvalUpTo
open Machine TestRunner

def withUsed (u : Bool) : Expr → Expr
  | .int i _ v => .int i u v
  | .str i _ s => .str i u s
  | .var i _ n => .var i u n
  | .binop i _ op l r => .binop i u op l r
  | .letE i _ d e => .letE i u d e
  | .assign i _ n e => .assign i u n e
  | .update i _ a n e => .update i u a n e
  | .ifE i _ c t e => .ifE i u c t e
  | .whileE i _ c b => .whileE i u c b
  | .forE i _ d e b => .forE i u d e b
  | .matchE i _ s cs => .matchE i u s cs
  | .ret i _ e => .ret i u e
  | .brk i _ => .brk i u
  | .cont i _ => .cont i u
  | .list i _ xs => .list i u xs
  | .tuple i _ xs => .tuple i u xs
  | .call i _ r xs => .call i u r xs
  | .lambda i _ ps b => .lambda i u ps b
  | .paren i _ e => .paren i u e
  | .invalid i _ => .invalid i u
  | .unsup i _ w => .unsup i u w

mutual
/-- `set_is_used_expr(expr, u)`: the node's own flag is NOT touched. -/
def setUsedExpr (u : Bool) : Expr → Expr
  | .ifE i us c t e =>
    .ifE i us (setUsedExpr true c) (setUsedBlock (u && e.isSome) t)
      (match e with | some b => some (setUsedBlock (u && true) b) | none => none)
  | .whileE i us c b => .whileE i us (setUsedExpr true c) (setUsedBlock false b)
  | .forE i us d e b => .forE i us d (setUsedExpr true e) (setUsedBlock false b)
  | .matchE i us s cs => .matchE i us (setUsedExpr true s) (setUsedCases u cs)
  | .letE i us d e => .letE i us d (setUsedExpr true e)
  | .assign i us n e => .assign i us n (setUsedExpr true e)
  | .update i us a n e => .update i us a n (setUsedExpr true e)
  | .ret i us (some e) => .ret i us (some (setUsedExpr true e))
  | .binop i us op l r => .binop i us op (setUsedExpr true l) (setUsedExpr true r)
  | .call i us r xs => .call i us (setUsedExpr true r) (setUsedList xs)
  | .tuple i us xs => .tuple i us (setUsedList xs)
  | .list i us xs => .list i us (setUsedList xs)
  | .paren i us e => .paren i us (setUsedExpr true e)
  | .lambda i us ps b => .lambda i us ps (setUsedBlock true b)
  | e => e
/-- `set_is_used_block(block, u)`: every expression gets its flag: the last one `u`, the others false. -/
def setUsedBlock (u : Bool) : List Expr → List Expr
  | [] => []
  | e :: rest =>
    let u' := u && rest.isEmpty
    withUsed u' (setUsedExpr u' e) :: setUsedBlock u rest
def setUsedList : List Expr → List Expr
  | [] => []
  | e :: rest => setUsedExpr true e :: setUsedList rest
def setUsedCases (u : Bool) : List Case → List Case
  | [] => []
  | .mk v d b :: rest => .mk v d (setUsedBlock u b) :: setUsedCases u rest
end

mutual
/-- `ObservedExprValueUsedVisitor`. -/
def markUsed (id : Nat) : Expr → Expr
  | .int i u v => if i == id then .int i true v else .int i u v
  | .str i u s => if i == id then .str i true s else .str i u s
  | .var i u n => if i == id then .var i true n else .var i u n
  | .brk i u => if i == id then .brk i true else .brk i u
  | .cont i u => if i == id then .cont i true else .cont i u
  | .invalid i u => if i == id then .invalid i true else .invalid i u
  | .unsup i u w => if i == id then .unsup i true w else .unsup i u w
  | .ret i u none => if i == id then .ret i true none else .ret i u none
  | .ret i u (some e) =>
    if i == id then withUsed true (setUsedExpr true (.ret i u (some e))) else .ret i u (some (markUsed id e))
  | .binop i u op l r =>
    if i == id then withUsed true (setUsedExpr true (.binop i u op l r)) else .binop i u op (markUsed id l) (markUsed id r)
  | .letE i u d e =>
    if i == id then withUsed true (setUsedExpr true (.letE i u d e)) else .letE i u d (markUsed id e)
  | .assign i u n e =>
    if i == id then withUsed true (setUsedExpr true (.assign i u n e)) else .assign i u n (markUsed id e)
  | .update i u a n e =>
    if i == id then withUsed true (setUsedExpr true (.update i u a n e)) else .update i u a n (markUsed id e)
  | .ifE i u c t e =>
    if i == id then withUsed true (setUsedExpr true (.ifE i u c t e))
    else .ifE i u (markUsed id c) (markUsedList id t) (match e with | some b => some (markUsedList id b) | none => none)
  | .whileE i u c b =>
    if i == id then withUsed true (setUsedExpr true (.whileE i u c b)) else .whileE i u (markUsed id c) (markUsedList id b)
  | .forE i u d e b =>
    if i == id then withUsed true (setUsedExpr true (.forE i u d e b)) else .forE i u d (markUsed id e) (markUsedList id b)
  | .matchE i u s cs =>
    if i == id then withUsed true (setUsedExpr true (.matchE i u s cs)) else .matchE i u (markUsed id s) (markUsedCases id cs)
  | .list i u xs =>
    if i == id then withUsed true (setUsedExpr true (.list i u xs)) else .list i u (markUsedList id xs)
  | .tuple i u xs =>
    if i == id then withUsed true (setUsedExpr true (.tuple i u xs)) else .tuple i u (markUsedList id xs)
  | .call i u r xs =>
    if i == id then withUsed true (setUsedExpr true (.call i u r xs)) else .call i u (markUsed id r) (markUsedList id xs)
  | .lambda i u ps b =>
    if i == id then withUsed true (setUsedExpr true (.lambda i u ps b)) else .lambda i u ps (markUsedList id b)
  | .paren i u e =>
    if i == id then withUsed true (setUsedExpr true (.paren i u e)) else .paren i u (markUsed id e)
def markUsedList (id : Nat) : List Expr → List Expr
  | [] => []
  | e :: rest => markUsed id e :: markUsedList id rest
def markUsedCases (id : Nat) : List Case → List Case
  | [] => []
  | .mk v d b :: rest => .mk v d (markUsedList id b) :: markUsedCases id rest
end

/-- What eval-up-to answers. -/
inductive Answer where
  | value (v : Value)
  | error (e : Err)
  | panic (site : String)
  | unsupported (what : String)
  | outOfFuel

mutual
/-- The node with this id inside an expression (first in traversal order). -/
def findExpr (id : Nat) : Expr → Option Expr
  | e@(.int i _ _) | e@(.str i _ _) | e@(.var i _ _) | e@(.brk i _) | e@(.cont i _) | e@(.invalid i _)
  | e@(.unsup i _ _) | e@(.ret i _ none) => if i == id then some e else none
  | e@(.ret i _ (some x)) | e@(.letE i _ _ x) | e@(.assign i _ _ x) | e@(.update i _ _ _ x) | e@(.paren i _ x) =>
    if i == id then some e else findExpr id x
  | e@(.binop i _ _ l r) => if i == id then some e else (findExpr id l).orElse fun _ => findExpr id r
  | e@(.ifE i _ c t els) =>
    if i == id then some e else
    ((findExpr id c).orElse fun _ => findList id t).orElse fun _ =>
      match els with | some b => findList id b | none => none
  | e@(.whileE i _ c b) => if i == id then some e else (findExpr id c).orElse fun _ => findList id b
  | e@(.forE i _ _ x b) => if i == id then some e else (findExpr id x).orElse fun _ => findList id b
  | e@(.matchE i _ s cs) => if i == id then some e else (findExpr id s).orElse fun _ => findCases id cs
  | e@(.list i _ xs) | e@(.tuple i _ xs) => if i == id then some e else findList id xs
  | e@(.call i _ r xs) => if i == id then some e else (findExpr id r).orElse fun _ => findList id xs
  | e@(.lambda i _ _ b) => if i == id then some e else findList id b
def findList (id : Nat) : List Expr → Option Expr
  | [] => none
  | e :: rest => (findExpr id e).orElse fun _ => findList id rest
def findCases (id : Nat) : List Case → Option Expr
  | [] => none
  | .mk _ _ b :: rest => (findList id b).orElse fun _ => findCases id rest
end

/-- `assign_var_pos`: an observed assignment, update or `for` loop over a plain variable reports
the variable's current value (in the frame evaluation stopped in) instead. -/
def assignVarPos (s : State) (observed : Option Expr) (v : Value) : Value :=
  let name : Option String := match observed with
    | some (.assign _ _ n _) => some n
    | some (.update _ _ _ n _) => some n
    | some (.forE _ _ (.sym n) _ _) => some n
    | _ => none
  match name, s.frames with
  | some n, f :: _ => (getVar s.prog f n).getD v
  | _, _ => v

def answerOf (observed : Option Expr) : RunResult → Answer × Option State
  | .done s v => (.value (assignVarPos s observed v), some s)
  | .error s e => (.error e, some s)
  | .panic site => (.panic site, none)
  | .unsupported w => (.unsupported w, none)
  | .outOfFuel s => (.outOfFuel, some s)

/-- Eval-up-to node `id` inside test `t`, in environment `s`. Returns the answer and the
environment afterwards (`pop_to_toplevel`, `stop_at_expr_id = None`). -/
def evalUpToTest (fuel : Nat) (s : State) (t : TestDef) (id : Nat) : Answer × Option State :=
  let body := markUsedList id t.body
  let s1 := pushTestFrame { s with stopAt := some id } { t with body := body }
  let (a, s') := answerOf (findList id body) (evalWith dispatchX fuel s1)
  (a, s'.map fun s' => popToToplevel { s' with stopAt := none })

/-- Eval-up-to node `id` inside a toplevel expression / block item with expressions `exprs`. -/
def evalUpToExprs (fuel : Nat) (s : State) (exprs : List Expr) (id : Nat) : Answer × Option State :=
  let body := markUsedList id exprs
  match s.frames with
  | [] => (.panic "Stack should always be non-empty.", none)
  | f :: rest =>
    if body.isEmpty then (.value vUnit, some s) else
    let s1 := { s with stopAt := some id, frames := { f with exprs := body.map fun e => (St.N, e) } :: rest }
    let (a, s') := answerOf (findList id body) (evalWith dispatchX fuel s1)
    (a, s'.map fun s' => popToToplevel { s' with stopAt := none })

end EvalUpTo
