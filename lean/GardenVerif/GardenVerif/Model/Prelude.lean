/-!
M12 (C32): shallow transcriptions of the prelude's string and list functions.

Text representation (ONE, used everywhere): a Garden `String` is the list of its Unicode scalar
values, `Str = List Char`. This is what the implementation exposes: `String::len` is
`s.chars().count()`, `substring` is `s.chars().skip(from).take(to - from)`, `index_of` converts the
byte offset found by `str::find` back to a char index, `chars` iterates `char_indices`. The
byte-level Rust calls (`find`, `starts_with`, `ends_with`, `lines`) are modelled at char level;
that is exact for valid UTF-8 because UTF-8 is self-synchronising (a valid needle can only match
at a char boundary). The correspondence run exercises this with the two-byte `é`.

Integers: Garden `Int` is i64. Arguments are modelled as `Int`. Every arithmetic operation the
prelude functions perform on them stays inside `[-1, 2·len + 1]` or between two argument values
(`range`: `i += 1` only while `i < j`), so no i64 overflow can occur; the harness probes the
i64 boundaries for `get`, `slice`, `substring`, `range`, `min`, `max`.

Two layers:
* built-ins transcribed from `src/eval.rs` (`eval_builtin_method_call`): `strLen`, `substring`,
  `find`/`indexOf`, `startsWith`, `endsWith`, `join`, `chars`, `lines`, `listGet`, `listAppend`,
  `listLen`, `listSlice`, `listContains`;
* Garden-source functions transcribed line by line from `src/__prelude.gdn`; a `while` loop is a
  recursive function with a fuel argument, a `for` loop is a `foldl`, `sort_nums`' recursion has
  a depth fuel. A Garden exception (only `substring` can raise one here) is `Res.exn`.

Closures passed to `map`/`filter` are modelled as total pure Lean functions.
-/

namespace Prelude

abbrev Str := List Char

/-- Outcome of running a Garden-level function. -/
inductive Res (α : Type) where
  | ok (v : α)
  | exn (kind : String)
  | outOfFuel
  deriving Repr, DecidableEq

namespace Res
def bind {α β : Type} (x : Res α) (f : α → Res β) : Res β :=
  match x with
  | .ok v => f v
  | .exn k => .exn k
  | .outOfFuel => .outOfFuel
instance : Monad Res where
  pure := .ok
  bind := Res.bind
end Res

/-! ## Built-ins (src/eval.rs) -/

/-- `String::len`: `s.chars().count() as i64`. -/
def strLen (s : Str) : Int := s.length

/-- `String::substring`: exception if `from < 0` or `from > to`; otherwise
`chars().skip(from).take(to - from)`. -/
def substring (s : Str) (fromI toI : Int) : Res Str :=
  if fromI < 0 then .exn "substring-negative"
  else if fromI > toI then .exn "substring-order"
  else .ok ((s.drop fromI.toNat).take (toI - fromI).toNat)

/-- Rust `str::find(&str)`: offset of the first match, scanning left to right. The empty needle
matches at 0, also in the empty string. -/
def find : Str → Str → Option Nat
  | [], n => if n.isEmpty then some 0 else none
  | c :: cs, n => if n.isPrefixOf (c :: cs) then some 0 else (find cs n).map (· + 1)

/-- `String::index_of`: `find`, then the offset is looked up among `char_indices()`; an offset
equal to the string length (only possible for `"".find("")`) is not among them, so the result
stays `None`. -/
def indexOf (s n : Str) : Option Int :=
  match find s n with
  | none => none
  | some k => if k < s.length then some (k : Int) else none

/-- `String::starts_with`: Rust `str::starts_with`. -/
def startsWith (s p : Str) : Bool := p.isPrefixOf s

/-- `String::ends_with`: Rust `str::ends_with`. -/
def endsWith (s p : Str) : Bool := p.isSuffixOf s

/-- `String::join`: `for (i, item) in items.enumerate() { if i != 0 { push sep }; push item }`. -/
def joinLoop (sep : Str) : List Str → Nat → Str → Str
  | [], _, acc => acc
  | item :: rest, i, acc => joinLoop sep rest (i + 1) ((if i != 0 then acc ++ sep else acc) ++ item)

def join (sep : Str) (items : List Str) : Str := joinLoop sep items 0 []

/-- `String::chars`. -/
def chars (s : Str) : List Str := s.map fun c => [c]

/-- Rust `str::split_inclusive('\n')`: pieces end after each newline; no empty last piece. -/
def splitInclusiveNl : Str → Str → List Str
  | [], cur => if cur.isEmpty then [] else [cur.reverse]
  | c :: cs, cur =>
    if c = '\n' then (c :: cur).reverse :: splitInclusiveNl cs [] else splitInclusiveNl cs (c :: cur)

/-- `str::strip_suffix(char)`. -/
def stripSuffixChar (c : Char) (s : Str) : Option Str :=
  match s.reverse with
  | d :: r => if d = c then some r.reverse else none
  | [] => none

/-- Rust's `LinesMap`: strip one `\n`, and if that was there one `\r`. -/
def linesMap (line : Str) : Str :=
  match stripSuffixChar '\n' line with
  | none => line
  | some l =>
    match stripSuffixChar '\r' l with
    | none => l
    | some l2 => l2

/-- `String::lines`: Rust `str::lines()` = `split_inclusive('\n').map(LinesMap)`. -/
def lines (s : Str) : List Str := (splitInclusiveNl s []).map linesMap

/-- `List::get`. -/
def listGet {α : Type} (l : List α) (i : Int) : Option α :=
  if i ≥ (l.length : Int) ∨ i < 0 then none else l[i.toNat]?

/-- `List::append`. -/
def listAppend {α : Type} (l : List α) (v : α) : List α := l ++ [v]

/-- `List::len`. -/
def listLen {α : Type} (l : List α) : Int := l.length

/-- `List::slice`: negative `j` counts from the end; both ends clamped to `[0, len]`; `end ≥ start`. -/
def listSlice {α : Type} (l : List α) (i j : Int) : List α :=
  let len : Int := l.length
  let jAdj := if j < 0 then len + j else j
  let start := (min (max i 0) len).toNat
  let «end» := (min (max jAdj 0) len).toNat
  let «end» := max «end» start
  (l.drop start).take («end» - start)

/-- `List::contains`: loop with `break` on the first equal item. -/
def listContains {α : Type} [BEq α] (l : List α) (x : α) : Bool :=
  match l with
  | [] => false
  | item :: rest => if item == x then true else listContains rest x

/-! ## Garden-source functions (src/__prelude.gdn) -/

/-- `replace`'s `while True` loop; state `(s, parts)`. -/
def replaceLoop (before after : Str) : Nat → Str → List Str → Res (List Str)
  | 0, _, _ => .outOfFuel
  | fuel + 1, s, parts =>
    match indexOf s before with
    | some i =>
      (substring s 0 i).bind fun p1 =>
      let parts := listAppend parts p1
      let parts := listAppend parts after
      (substring s (i + strLen before) (strLen s)).bind fun s' =>
      replaceLoop before after fuel s' parts
    | none => .ok (listAppend parts s)

/-- `String::replace` as on the pinned tree (no guard for an empty `before`). -/
def replaceUnguarded (fuel : Nat) (this before after : Str) : Res Str :=
  (replaceLoop before after fuel this []).bind fun parts => .ok (join [] parts)

/-- `String::replace` with the guard of patches/prelude-fix-empty-needle.diff:
`if before == "" { return this }`. -/
def replace (fuel : Nat) (this before after : Str) : Res Str :=
  if before == [] then .ok this else replaceUnguarded fuel this before after

/-- `String::split_once`. -/
def splitOnce (this needle : Str) : Res (Option (Str × Str)) :=
  match indexOf this needle with
  | none => .ok none
  | some i =>
    (substring this 0 i).bind fun a =>
    (substring this (i + strLen needle) (strLen this)).bind fun b =>
    .ok (some (a, b))

/-- `contains`' `while i <= this.len() - substring.len()` loop. -/
def containsLoop (this sub : Str) : Nat → Int → Res Bool
  | 0, _ => .outOfFuel
  | fuel + 1, i =>
    if i ≤ strLen this - strLen sub then
      (substring this i (i + strLen sub)).bind fun «section» =>
      if «section» == sub then .ok true else containsLoop this sub fuel (i + 1)
    else .ok false

/-- `String::contains`. -/
def contains (fuel : Nat) (this sub : Str) : Res Bool :=
  if strLen sub > strLen this then .ok false else containsLoop this sub fuel 0

/-- `trim_left`'s loop; returns the final `i`. -/
def trimLeftLoop (this : Str) : Nat → Int → Res Int
  | 0, _ => .outOfFuel
  | fuel + 1, i =>
    if i < strLen this then
      (substring this i (i + 1)).bind fun char =>
      if char != [' '] then .ok i else trimLeftLoop this fuel (i + 1)
    else .ok i

/-- `String::trim_left` (only U+0020 is removed, as in the source). -/
def trimLeft (fuel : Nat) (this : Str) : Res Str :=
  (trimLeftLoop this fuel 0).bind fun i => substring this i (strLen this)

/-- `trim_right`'s loop; returns the final `i` (−1 if everything was a space). -/
def trimRightLoop (this : Str) : Nat → Int → Res Int
  | 0, _ => .outOfFuel
  | fuel + 1, i =>
    if i ≥ 0 then
      (substring this i (i + 1)).bind fun char =>
      if char != [' '] then .ok i else trimRightLoop this fuel (i - 1)
    else .ok i

/-- `String::trim_right`. -/
def trimRight (fuel : Nat) (this : Str) : Res Str :=
  (trimRightLoop this fuel (strLen this - 1)).bind fun i => substring this 0 (i + 1)

/-- `String::trim`: `this.trim_left().trim_right()`. -/
def trim (fuel : Nat) (this : Str) : Res Str :=
  (trimLeft fuel this).bind fun l => trimRight fuel l

/-- `String::strip_suffix`. -/
def stripSuffix (this suffix : Str) : Res Str :=
  if endsWith this suffix then substring this 0 (strLen this - strLen suffix) else .ok this

/-- `String::strip_prefix`. -/
def stripPrefix (this «prefix» : Str) : Res Str :=
  if startsWith this «prefix» then substring this (strLen «prefix») (strLen this) else .ok this

/-- `split`'s `while True` loop; state `(s, parts)`. -/
def splitLoop (needle : Str) : Nat → Str → List Str → Res (List Str)
  | 0, _, _ => .outOfFuel
  | fuel + 1, s, parts =>
    match indexOf s needle with
    | some i =>
      (substring s 0 i).bind fun p =>
      let parts := listAppend parts p
      (substring s (i + strLen needle) (strLen s)).bind fun s' =>
      splitLoop needle fuel s' parts
    | none => .ok (listAppend parts s)

/-- `String::split` as on the pinned tree. -/
def splitUnguarded (fuel : Nat) (this needle : Str) : Res (List Str) :=
  if this == [] then .ok [] else splitLoop needle fuel this []

/-- `String::split` with the guard of patches/prelude-fix-empty-needle.diff:
`if needle == "" { return this.chars() }`. -/
def split (fuel : Nat) (this needle : Str) : Res (List Str) :=
  if needle == [] then .ok (chars this) else splitUnguarded fuel this needle

/-- `range`'s `while i < j` loop. -/
def rangeLoop (j : Int) : Nat → Int → List Int → Res (List Int)
  | 0, _, _ => .outOfFuel
  | fuel + 1, i, items => if i < j then rangeLoop j fuel (i + 1) (listAppend items i) else .ok items

/-- `range(i, j)`. -/
def range (fuel : Nat) (i j : Int) : Res (List Int) := rangeLoop j fuel i []

/-- `List::concat`: `for item in other { result = result.append(item) }`. -/
def concat {α : Type} (this other : List α) : List α :=
  other.foldl (fun result item => listAppend result item) this

/-- `List::first`. -/
def first {α : Type} (this : List α) : Option α := listGet this 0

/-- `List::last`. -/
def last {α : Type} (this : List α) : Option α := listGet this (listLen this - 1)

/-- `List::filter`. -/
def filter {α : Type} (this : List α) (f : α → Bool) : List α :=
  this.foldl (fun result item => if f item then listAppend result item else result) []

/-- `List::map`. -/
def map {α β : Type} (this : List α) (f : α → β) : List β :=
  this.foldl (fun items item => listAppend items (f item)) []

/-- `List::enumerate`: state `(items, i)`. -/
def enumerate {α : Type} (this : List α) : List (Int × α) :=
  (this.foldl (fun (st : List (Int × α) × Int) item => (listAppend st.1 (st.2, item), st.2 + 1)) ([], 0)).1

/-- `List::index_of`: `for (i, v) in this.enumerate() { if v == value { return Some(i) } }`. -/
def listIndexOfLoop {α : Type} [BEq α] (value : α) : List (Int × α) → Option Int
  | [] => none
  | (i, v) :: rest => if v == value then some i else listIndexOfLoop value rest

def listIndexOf {α : Type} [BEq α] (this : List α) (value : α) : Option Int :=
  listIndexOfLoop value (enumerate this)

/-- `sort_nums`: quicksort on the first element; `fuel` bounds the recursion depth. -/
def sortNums : Nat → List Int → Res (List Int)
  | 0, _ => .outOfFuel
  | fuel + 1, items =>
    match first items with
    | none => .ok []
    | some pivot =>
      let rest := listSlice items 1 (listLen items)
      let smaller := filter rest (fun x => x < pivot)
      let larger := filter rest (fun x => x ≥ pivot)
      (sortNums fuel smaller).bind fun a =>
      (sortNums fuel larger).bind fun b =>
      .ok (concat (concat a [pivot]) b)

/-- `max(x, y)`. -/
def max (x y : Int) : Int := if x ≥ y then x else y

/-- `min(x, y)`. -/
def min (x y : Int) : Int := if x ≤ y then x else y

end Prelude
