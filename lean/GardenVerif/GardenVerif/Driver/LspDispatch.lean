import GardenVerif.Driver.Sexp
import GardenVerif.Model.LspDispatch
/-!
Driver ops for the LSP dispatch model (C28).

* `lsp_run MSG*` — run `LspDispatch.run gardenMethods {}` on a session. Each `MSG` is
  `(m ENV RAWID METHOD PARAMS SYNC)` with
  `ENV` = `0|1`; `RAWID`, `METHOD` = `-` (absent) or `x<hex of utf-8>`;
  `PARAMS` = `a` (absent) | `b` (malformed) | `g-` (good, no file path) | `gx<hex path>`;
  `SYNC` = `-` or `(s x<hex path> x<hex uri> x<hex text>)`.
  Answer: `OK (st SHUTDOWN EXITED NDOCS) (n C1 … Cn) OUT*` with `SHUTDOWN` = `0|1`, `EXITED` = `-` or the
  status, `Ck` = number of outputs of `run` on the first `k` messages (so the harness can attribute every
  output to the message that caused it), `OUT` = `(r x<hex id> value|empty|null|<error code>)` |
  `(p x<hex uri> -|x<hex text>)`.
* `lsp_table` — the method table `gardenMethods` as `OK (name kind docBased)*` (names in hex).
-/

namespace DriverLspDispatch
open LspDispatch

def unx (s : String) : Option String :=
  match s.toList with
  | 'x' :: rest => Hex.decode (String.ofList rest)
  | _ => none

def optx (s : String) : Option (Option String) :=
  if s == "-" then some none else (unx s).map some

def x (s : String) : String := "x" ++ Hex.encode s

def toMsg : Sexp → Option Msg
  | .list [.atom "m", .atom env, .atom rid, .atom meth, .atom ps, sy] => do
    let envOk ← if env == "1" then some true else if env == "0" then some false else none
    let rawId ← optx rid
    let method ← optx meth
    let params ←
      if ps == "a" then some Params.absent
      else if ps == "b" then some Params.malformed
      else match ps.toList with
        | 'g' :: rest => (optx (String.ofList rest)).map Params.good
        | _ => none
    let sync ← match sy with
      | .atom "-" => some none
      | .list [.atom "s", .atom p, .atom u, .atom t] => do
        let p ← unx p
        let u ← unx u
        let t ← unx t
        some (some { path := p, uri := u, text := t : Sync })
      | _ => none
    some { envelopeOk := envOk, rawId := rawId, method := method, params := params, sync := sync }
  | _ => none

def resStr : Res → String
  | .value => "value"
  | .empty => "empty"
  | .null => "null"
  | .error c => toString c.code

def outStr : Out → String
  | .response i r => s!"(r {x i} {resStr r})"
  | .publish u t => s!"(p {x u} {match t with | some t => x t | none => "-"})"

def kindStr : Kind → String
  | .request => "request"
  | .noop => "noop"
  | .didOpen => "didOpen"
  | .didChange => "didChange"
  | .didClose => "didClose"
  | .shutdown => "shutdown"
  | .exit => "exit"

def handle (op : String) (rest : String) : Option String :=
  if op == "lsp_table" then
    some ("OK " ++ " ".intercalate (gardenMethods.map fun m =>
      s!"({x m.name} {kindStr m.kind} {if m.docBased then 1 else 0})"))
  else if op == "lsp_run" then
    match Sexp.parseAll rest with
    | none => some "ERR parse"
    | some sexps =>
      match sexps.mapM toMsg with
      | none => some "ERR msg"
      | some ms =>
        let (st, outs) := run gardenMethods {} ms
        let ex := match st.exited with | some n => toString n | none => "-"
        let counts := (List.range ms.length).map fun k => (run gardenMethods {} (ms.take (k + 1))).2.length
        some (s!"OK (st {if st.shutdown then 1 else 0} {ex} {st.docs.length}) (n{String.join (counts.map fun c => s!" {c}")})" ++
              String.join (outs.map fun o => " " ++ outStr o))
  else none

end DriverLspDispatch
