#!/bin/sh
# usage: tools/try_seed.sh <patch.diff> Cxx [Cyy ...]
# Applies the patch in a scratch worktree of /repo HEAD (never in /repo), runs the quick checks against
# it and prints their verdicts. The worktree is reset afterwards (kept for build caching).
set -u
PATCH=$(readlink -f "$1"); shift
WT=/tmp/seedtest
if [ ! -d $WT ]; then git -C /repo worktree add --detach $WT HEAD >/dev/null 2>&1; fi
git -C $WT checkout -q --detach $(git -C /repo rev-parse HEAD) 2>/dev/null
git -C $WT checkout -q -- . ; git -C $WT clean -fdq
if ! git -C $WT apply "$PATCH" 2>/dev/null && ! git -C $WT apply --3way "$PATCH"; then echo "PATCH DOES NOT APPLY"; exit 2; fi
cd /verif
for c in "$@"; do
  VERIF_REPO=$WT VERIF_TARGET=/tmp/seedtest-target ./check $c --tier quick > .build/logs/seed_$c.log 2>&1
  rc=$?
  echo "== $c rc=$rc"
  grep -E "^VIOLATION|oracle violation|broken:" .build/logs/seed_$c.log | cut -c1-300 | head -6
done
git -C $WT checkout -q -- . ; git -C $WT clean -fdq
