import GardenVerif.Driver.Machine
import GardenVerif.Model.Resume
/-! Driver ops for the session model of C07 / C11.

* `resume_run <k> <fuel> <astx sexpr>`: run the program, then `:resume` × k; answers
  `OK (resume <obs> <obs> …)` with `<obs>` = `(err <kind-hex> <st>#<id> <pending> <values>)`,
  `(value)`, `(panic <hex>)`, `(unsupported)`, `(out-of-fuel)`.
* `c11_session_run <fuel> <astx sexpr> <astx sexpr> …`: the inputs of one history (node ids already made
  distinct by the harness); answers `OK (session (inc <reply>) (batch <reply>))` with `<reply>` =
  `(value <display-hex>)`, `(novalue)`, `(err <kind-hex> <index>)`, `(panic <hex>)`, `(unsupported <hex>)`,
  `(out-of-fuel)`. -/

namespace DriverResume
open Machine Resume

def obsStr : Obs → String
  | .value => "(value)"
  | .error e top pend vals =>
    let t := match top with
      | some (st, id) => s!"{DriverMachine.stShort st}#{id}"
      | none => "-"
    s!"(err {Hex.encode e.toString} {t} {pend} {vals})"
  | .panic site => s!"(panic {Hex.encode site})"
  | .unsupported => "(unsupported)"
  | .outOfFuel => "(out-of-fuel)"

def inputOf (parsed : DriverMachine.Parsed) : Input :=
  { funs := parsed.prog.funs, enums := parsed.prog.enums, exprs := parsed.prog.toplevel }

def replyStr : Reply → String
  | .value s (some v) => s!"(value {Hex.encode (display s.prog v)})"
  | .value _ none => "(novalue)"
  | .error _ e => s!"(err {Hex.encode e.toString})"
  | .panic site => s!"(panic {Hex.encode site})"
  | .unsupported w => s!"(unsupported {Hex.encode w})"
  | .outOfFuel => "(out-of-fuel)"

def parseInputs (sexps : List Sexp) : Except String (List Input) :=
  sexps.mapM fun sx =>
    match sx with
    | .list (.atom "astx" :: .atom nerr :: items) =>
      if nerr != "0" then .error "parse-error" else
      match DriverMachine.programOf items with
      | none => .error "bad-astx"
      | some parsed =>
        match parsed.unsupported with
        | some w => .error ("unsupported " ++ w)
        | none => .ok (inputOf parsed)
    | _ => .error "bad-sexp"

def handle (op : String) (rest : String) : Option String :=
  if op == "resume_run" then
    match rest.splitOn " " with
    | ks :: fuel :: sexpParts =>
      match Sexp.parseAll (" ".intercalate sexpParts) with
      | some [.list (.atom "astx" :: .atom nerr :: items)] =>
        if nerr != "0" then some "OK (parse-error)" else
        match DriverMachine.programOf items with
        | none => some "ERR bad-astx"
        | some parsed =>
          match parsed.unsupported with
          | some w => some s!"OK (unsupported {Hex.encode w})"
          | none =>
            if parsed.prog.toplevel.isEmpty then some "OK (resume (value))" else
            let s0 := init parsed.prog [] none none
            let obs := observe (fuel.toNat?.getD 100000) (ks.toNat?.getD 3) s0
            some ("OK (resume " ++ " ".intercalate (obs.map obsStr) ++ ")")
      | _ => some "ERR bad-sexp"
    | _ => some "ERR args"
  else if op == "c11_session_run" then
    match rest.splitOn " " with
    | fuel :: sexpParts =>
      match Sexp.parseAll (" ".intercalate sexpParts) with
      | some sexps =>
        match parseInputs sexps with
        | .error w => some s!"OK (skip {Hex.encode w})"
        | .ok inputs =>
          let fuel := fuel.toNat?.getD 100000
          let inc := incremental fuel sessionInit inputs
          let bat := batch fuel sessionInit inputs
          some s!"OK (session (inc {replyStr inc}) (batch {replyStr bat}))"
      | none => some "ERR bad-sexp"
    | _ => some "ERR args"
  else none

end DriverResume
