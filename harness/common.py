"""Shared machinery for every property check.

One run of `./check Cxx --tier quick|thorough`:
  1. regenerate Generated/Tables.lean from /repo/src (tools/extract_tables.py)
  2. build the Lean proofs of the property + the model driver, audit axioms
  3. build the hooked garden from /repo's working tree
  4. property module: correspondence (model vs implementation) + direct oracle
  5. verdict lines, evidence file

Nothing here is property specific.
"""
import fcntl
import hashlib
import json
import os
import random
import re
import resource
import subprocess
import sys
import time

ROOT = os.path.dirname(os.path.dirname(os.path.abspath(__file__)))
REPO = os.environ.get("VERIF_REPO", "/repo")
LEAN_DIR = os.path.join(ROOT, "lean", "GardenVerif")
BUILD = os.path.join(ROOT, ".build")
TARGET_DIR = os.environ.get("VERIF_TARGET", os.path.join(BUILD, "garden-target"))
GARDEN = os.path.join(TARGET_DIR, "debug", "garden")
DRIVER = os.path.join(LEAN_DIR, ".lake", "build", "bin", "gvdriver")
REPLAY_DIR = os.path.join(BUILD, "replay")
EVIDENCE_DIR = os.path.join(ROOT, "evidence")
KNOWN_FINDINGS = os.path.join(ROOT, "known_findings.json")
GUARD = "wilfred_garden_verif"
ALLOWED_AXIOMS = {"propext", "Classical.choice", "Quot.sound"}
FORBIDDEN = re.compile(
    r"\b(sorry|admit|native_decide|bv_decide|implemented_by|unsafe)\b|^\s*axiom\s|maxHeartbeats\s+0\b",
    re.M)
NPROC = os.cpu_count() or 4


def hexs(s):
    return s.encode("utf-8").hex()


def unhex(h):
    return bytes.fromhex(h).decode("utf-8", errors="replace")


class Lock:
    def __init__(self, name):
        os.makedirs(BUILD, exist_ok=True)
        self.path = os.path.join(BUILD, name + ".lock")

    def __enter__(self):
        self.f = open(self.path, "w")
        fcntl.flock(self.f, fcntl.LOCK_EX)
        return self

    def __exit__(self, *a):
        fcntl.flock(self.f, fcntl.LOCK_UN)
        self.f.close()


def _limits(mem_gb):
    def f():
        lim = int(mem_gb * (1 << 30))
        resource.setrlimit(resource.RLIMIT_AS, (lim, lim))
        resource.setrlimit(resource.RLIMIT_CORE, (0, 0))
    return f


def run_cmd(cmd, input=None, timeout=60, cwd=None, env=None, mem_gb=3):
    """Run a command under an address-space limit and a wall-clock timeout.
    Returns (rc, stdout, stderr); rc = -9999 on timeout. Never raises."""
    e = dict(os.environ)
    e["CARGO_NET_OFFLINE"] = "true"
    if env:
        e.update(env)
    try:
        p = subprocess.run(cmd, input=input, capture_output=True, timeout=timeout, cwd=cwd,
                           env=e, preexec_fn=_limits(mem_gb) if mem_gb else None,
                           text=isinstance(input, str) or input is None)
        return p.returncode, p.stdout, p.stderr
    except subprocess.TimeoutExpired as ex:
        out = ex.stdout or ""
        err = ex.stderr or ""
        if isinstance(out, bytes):
            out = out.decode("utf-8", "replace")
        if isinstance(err, bytes):
            err = err.decode("utf-8", "replace")
        return -9999, out, err


def crashed(rc):
    """Exit statuses that mean the garden process panicked or aborted."""
    return rc == 101 or rc < 0 and rc != -9999 or rc in (134, 139)


class LineProc:
    """A persistent line-protocol subprocess (garden verif / gvdriver)."""

    def __init__(self, cmd, mem_gb=4):
        self.cmd = cmd
        self.mem_gb = mem_gb
        self.p = None
        self.restarts = 0

    def _start(self):
        self.p = subprocess.Popen(self.cmd, stdin=subprocess.PIPE, stdout=subprocess.PIPE,
                                  stderr=subprocess.DEVNULL, text=True, bufsize=1,
                                  preexec_fn=_limits(self.mem_gb))

    def ask(self, line):
        if self.p is None or self.p.poll() is not None:
            self._start()
        try:
            self.p.stdin.write(line + "\n")
            self.p.stdin.flush()
            out = self.p.stdout.readline()
        except (BrokenPipeError, OSError):
            out = ""
        if out == "":
            rc = self.p.wait()
            self.p = None
            self.restarts += 1
            return "DIED %d" % rc
        return out.rstrip("\n")

    def close(self):
        if self.p and self.p.poll() is None:
            try:
                self.p.stdin.close()
                self.p.wait(timeout=5)
            except Exception:
                self.p.kill()
        self.p = None


def batch(cmd, lines, shards=None, timeout=600, mem_gb=4):
    """Feed `lines` to fresh `cmd` processes (sharded) and return one response per
    line. If a process dies, the request it died on gets 'DIED <rc>' and the rest
    of the shard is re-run in a new process."""
    n = len(lines)
    if n == 0:
        return []
    shards = shards or min(NPROC, max(1, n // 200))
    out = [None] * n
    idxs = [list(range(i, n, shards)) for i in range(shards)]

    def run_shard(ix):
        pos = 0
        while pos < len(ix):
            data = "".join(lines[j] + "\n" for j in ix[pos:])
            rc, so, _ = run_cmd(cmd, input=data, timeout=timeout, mem_gb=mem_gb)
            resp = so.split("\n")
            if resp and resp[-1] == "":
                resp.pop()
            for k, r in enumerate(resp[:len(ix) - pos]):
                out[ix[pos + k]] = r
            got = min(len(resp), len(ix) - pos)
            pos += got
            if pos < len(ix):
                out[ix[pos]] = "DIED %d" % rc
                pos += 1

    import threading
    ts = [threading.Thread(target=run_shard, args=(ix,)) for ix in idxs if ix]
    for t in ts:
        t.start()
    for t in ts:
        t.join()
    return out


def pmap(fn, items, workers=None):
    """Thread-pool map (the work is in subprocesses, so threads are enough)."""
    from concurrent.futures import ThreadPoolExecutor
    with ThreadPoolExecutor(max_workers=workers or NPROC) as ex:
        return list(ex.map(fn, items))


class Ctx:
    def __init__(self, prop, tier, seed, level="proof"):
        self.prop = prop
        self.tier = tier
        self.seed = seed
        self.level = level
        self.rng = random.Random(seed)
        self.t0 = time.time()
        self.failures = []        # direct-oracle violations: dict(key, what, input, ...)
        self.broken = []          # broken proof obligations / ties / correspondences
        self.known_hit = []       # known findings reproduced
        self.obligations = []     # theorem names
        self.discharged = []      # theorem names that checked with allowed axioms
        self.axioms = {}          # theorem -> [axioms]
        self.cov = {}             # extra coverage keys
        self.samples = []
        self.evaluations = 0
        self.nontrivial = set()
        self.rule = ""
        self.assumptions = []
        self.checker_cmd = ""
        self.notes = []
        self.driver_path = DRIVER
        os.makedirs(REPLAY_DIR, exist_ok=True)
        os.makedirs(EVIDENCE_DIR, exist_ok=True)
        try:
            self.known = [k for k in json.load(open(KNOWN_FINDINGS))["findings"]
                          if k["property"] == prop]
        except FileNotFoundError:
            self.known = []

    # ---------------------------------------------------------------- logging
    def log(self, msg):
        print("[%s %6.1fs] %s" % (self.prop, time.time() - self.t0, msg), flush=True)

    def quick(self):
        return self.tier == "quick"

    def scale(self, q, t):
        return q if self.tier == "quick" else t

    # ------------------------------------------------------------ step 1: tables
    def step_tables(self):
        tool = os.path.join(ROOT, "tools", "extract_tables.py")
        if not os.path.exists(tool):
            return
        rc, so, se = run_cmd([sys.executable, tool, REPO, LEAN_DIR], timeout=120, mem_gb=None)
        if rc != 0:
            self.broken.append({"kind": "translator", "what": "extract_tables failed",
                                "detail": (so + se)[-2000:]})
            self.log("translator FAILED: " + (so + se)[-300:])
        else:
            self.log("tables regenerated: " + so.strip().split("\n")[-1][:200])

    # ------------------------------------------------------------ step 2: proofs
    def step_lean(self, prop_modules, with_driver=True):
        """Build the property's theorem modules (+ driver) and audit axioms."""
        targets = list(prop_modules) + (["gvdriver"] if with_driver else [])
        self.checker_cmd = "cd %s && lake build %s && lake env lean <generated #print axioms audit>" % (
            LEAN_DIR, " ".join(targets))
        theorems = []
        for m in prop_modules:
            path = os.path.join(LEAN_DIR, *m.split(".")) + ".lean"
            src = open(path).read()
            src = re.sub(r"/-.*?-/", lambda m: "\n" * m.group(0).count("\n"), src, flags=re.S)
            src = re.sub(r"--.*", "", src)
            ns = None
            for line in src.split("\n"):
                mm = re.match(r"namespace\s+(\S+)", line)
                if mm:
                    ns = mm.group(1)
                mm = re.match(r"end\s+(\S+)", line)
                if mm and ns == mm.group(1):
                    ns = None
                mm = re.match(r"(?:protected\s+|private\s+)?theorem\s+(\S+)", line)
                if mm:
                    name = mm.group(1)
                    theorems.append((m, (ns + "." if ns else "") + name))
        self.obligations = [t for _, t in theorems]
        # textual audit of every file of ours in the import closure of the property modules and the driver
        bad = []
        seen = set()
        todo = list(prop_modules) + (["Main"] if with_driver else [])
        while todo:
            m = todo.pop()
            if m in seen:
                continue
            seen.add(m)
            path = os.path.join(LEAN_DIR, *m.split(".")) + ".lean"
            if not os.path.exists(path):
                continue
            txt = open(path).read()
            for im in re.findall(r"^import\s+(GardenVerif\.[\w\.]+)", txt, flags=re.M):
                todo.append(im)
            txt = re.sub(r"/-.*?-/", "", txt, flags=re.S)
            txt = re.sub(r"--.*", "", txt)
            mm = FORBIDDEN.search(txt)
            if mm:
                bad.append("%s: %s" % (m, mm.group(0).strip()))
        self.cov["lean_files_audited"] = len(seen)
        if bad:
            self.broken.append({"kind": "proof", "what": "forbidden construct in Lean sources",
                                "detail": bad})
        with Lock("lake"):
            t = time.time()
            rc, so, se = run_cmd(["lake", "build"] + targets, cwd=LEAN_DIR, timeout=3600, mem_gb=None)
            self.log("lake build %s: rc=%d (%.1fs)" % (" ".join(targets), rc, time.time() - t))
            if rc != 0:
                errs = [l for l in (so + se).split("\n") if "error" in l][:20]
                self.broken.append({"kind": "proof", "what": "lake build failed",
                                    "theorem": self._guess_theorem(so + se, theorems),
                                    "detail": errs})
                self.log("LEAN BUILD FAILED:\n" + "\n".join(errs[:10]))
                # per-theorem status unknown: nothing discharged
                self.discharged = []
                return False
            # private copy of the driver: a concurrent relink must not disturb this run
            if with_driver and os.path.exists(DRIVER):
                import shutil
                d = os.path.join(BUILD, "drivers")
                os.makedirs(d, exist_ok=True)
                self.driver_path = os.path.join(d, "gvdriver-%s-%d" % (self.prop, os.getpid()))
                shutil.copy2(DRIVER, self.driver_path)
            # axiom audit
            audit = "\n".join(["import %s" % m for m in prop_modules] +
                              ["#print axioms %s" % t for _, t in theorems]) + "\n"
            apath = os.path.join(BUILD, "audit_%s.lean" % self.prop)
            open(apath, "w").write(audit)
            rc, so, se = run_cmd(["lake", "env", "lean", apath], cwd=LEAN_DIR, timeout=600, mem_gb=None)
        cur = None
        text = so + se
        for mm in re.finditer(r"'([^\n]+?)' (depends on axioms: \[([^\]]*)\]|does not depend on any axioms)", text):
            name = mm.group(1)
            axs = [a.strip() for a in (mm.group(3) or "").replace("\n", " ").split(",") if a.strip()]
            self.axioms[name] = axs
        for _, t in theorems:
            if t in self.axioms and set(self.axioms[t]) <= ALLOWED_AXIOMS:
                self.discharged.append(t)
            else:
                self.broken.append({"kind": "proof", "what": "axiom audit failed", "theorem": t,
                                    "detail": self.axioms.get(t, "not reported: " + text[-500:])})
        self.log("proof obligations: %d, discharged: %d" % (len(self.obligations), len(self.discharged)))
        return not any(b["kind"] == "proof" for b in self.broken)

    def _guess_theorem(self, log, theorems):
        mm = re.search(r"error: (\S+\.lean):(\d+):", log)
        if not mm:
            return None
        path, line = mm.group(1), int(mm.group(2))
        try:
            full = path if os.path.isabs(path) else os.path.join(LEAN_DIR, path)
            lines = open(full).read().split("\n")[:line]
        except OSError:
            return path
        for l in reversed(lines):
            m2 = re.match(r"\s*(?:protected\s+|private\s+)?theorem\s+(\S+)", l)
            if m2:
                return "%s:%s" % (os.path.basename(path), m2.group(1))
        return path

    def leanchecker(self, modules):
        """Thorough tier: independent re-check of the compiled modules."""
        for m in modules:
            with Lock("lake"):
                rc, so, se = run_cmd(["lake", "env", "leanchecker", m], cwd=LEAN_DIR, timeout=1800, mem_gb=None)
            self.log("leanchecker %s rc=%d" % (m, rc))
            self.cov.setdefault("leanchecker", {})[m] = rc
            if rc != 0:
                self.broken.append({"kind": "proof", "what": "leanchecker rejected " + m,
                                    "detail": (so + se)[-1000:]})

    # ------------------------------------------------------------ step 3: garden
    def step_garden(self):
        with Lock("cargo-" + hashlib.sha1(TARGET_DIR.encode()).hexdigest()[:8]):
            t = time.time()
            rc, so, se = run_cmd(
                ["cargo", "build", "--offline", "--bin", "garden"], cwd=REPO, timeout=3600, mem_gb=None,
                env={"CARGO_TARGET_DIR": TARGET_DIR, "RUSTFLAGS": "--cfg " + GUARD,
                     "CARGO_NET_OFFLINE": "true"})
            self.log("cargo build (hooked) rc=%d (%.1fs)" % (rc, time.time() - t))
        if rc != 0:
            errs = [l for l in se.split("\n") if l.startswith("error")][:10]
            self.broken.append({"kind": "build", "what": "hooked build of /repo failed", "detail": errs})
            self.log("\n".join(errs))
            return False
        return True

    def garden(self, args, input=None, timeout=20, cwd=None, env=None, mem_gb=3):
        return run_cmd([GARDEN] + args, input=input, timeout=timeout, cwd=cwd, env=env, mem_gb=mem_gb)

    def garden_verif(self):
        return LineProc([GARDEN, "verif"])

    def model(self):
        return LineProc([self.driver_path])

    def garden_batch(self, lines, **kw):
        return batch([GARDEN, "verif"], lines, **kw)

    def model_batch(self, lines, **kw):
        return batch([self.driver_path], lines, **kw)

    def scratch(self, name=""):
        d = os.path.join(BUILD, "scratch", "%s-%d-%s" % (self.prop, os.getpid(), name))
        os.makedirs(d, exist_ok=True)
        return d

    # ------------------------------------------------------------ recording
    def case(self, canon, nontrivial=True):
        """Count one evaluated case; `canon` identifies it for distinctness."""
        self.evaluations += 1
        if nontrivial:
            self.nontrivial.add(hashlib.sha1(repr(canon).encode()).digest()[:8])

    def sample(self, s, limit=8):
        if len(self.samples) < limit:
            self.samples.append(s)

    def fail(self, key, what, **replay):
        """A direct-oracle violation of the property on the implementation."""
        for k in self.known:
            if k["key"] == key:
                if key not in [h["key"] for h in self.known_hit]:
                    self.known_hit.append(k)
                return
        self.failures.append(dict(key=key, what=what, **replay))

    def disagree(self, op, input, model, impl, **extra):
        """Model and implementation differ on an input (broken correspondence)."""
        self.broken.append(dict(kind="correspondence", what="model/implementation disagree on " + op,
                                input=input, model=model, impl=impl, **extra))

    # ------------------------------------------------------------ verdict
    def _write_replay(self, obj, tag):
        h = hashlib.sha1(json.dumps(obj, sort_keys=True, default=str).encode()).hexdigest()[:10]
        path = os.path.join(REPLAY_DIR, "%s-%s-%s.json" % (self.prop, tag, h))
        json.dump(obj, open(path, "w"), indent=1, default=str)
        return path

    def finish(self):
        if self.driver_path != DRIVER:
            try:
                os.remove(self.driver_path)
            except OSError:
                pass
        wall = time.time() - self.t0
        lines = []
        rc = 0
        for k in self.known_hit:
            lines.append("KNOWN-FINDING: property=%s %s (%s)" % (self.prop, k["what"], k["key"]))
        if self.failures:
            seen = set()
            for f in self.failures:
                if f["key"] in seen:
                    continue
                seen.add(f["key"])
                if len(seen) > 5:
                    break
                path = self._write_replay(dict(property=self.prop, seed=self.seed, tier=self.tier,
                                               kind="oracle", **f), "oracle")
                lines.append("VIOLATION property=%s replay=%s" % (self.prop, path))
                self.log("oracle violation: %s: %s" % (f["key"], f["what"]))
            rc = 1
        elif self.broken:
            obj = dict(property=self.prop, seed=self.seed, tier=self.tier, kind="proof-or-correspondence",
                       broken=self.broken[:20],
                       note="A proof obligation, the translator or the model/implementation "
                            "correspondence no longer checks; the failing-input search over the "
                            "implementation found no input on which the property itself fails.")
            path = self._write_replay(obj, "broken")
            for b in self.broken[:5]:
                self.log("broken: %s %s" % (b.get("kind"), json.dumps(
                    {k: v for k, v in b.items() if k != "kind"}, default=str)[:400]))
            lines.append("VIOLATION property=%s replay=%s no-failing-input-found" % (self.prop, path))
            rc = 1
        cov = dict(self.cov)
        cov.update(dict(
            evaluations=self.evaluations,
            distinct_nontrivial=len(self.nontrivial),
            rule=self.rule,
            samples=self.samples or ["(no samples recorded)"],
            obligations=len(self.obligations),
            discharged=len(self.discharged),
            checker_cmd=self.checker_cmd or "n/a",
            trusted_base=["Lean 4.33.0 kernel",
                          "axioms used by the property theorems: " + ", ".join(
                              sorted({a for t in self.discharged for a in self.axioms.get(t, [])})) or "none",
                          "hand-written model tied to /repo by the correspondence run recorded here",
                          "harness/common.py + garden verif hook (report what the implementation did)"]
                         + self.assumptions,
            theorems=self.obligations,
            known_findings_reproduced=[k["key"] for k in self.known_hit],
            correspondence_disagreements=len([b for b in self.broken if b.get("kind") == "correspondence"]),
            oracle_failures=len(self.failures),
        ))
        if self.level == "translation_validation":
            cov.setdefault("programs", self.evaluations)
            cov.setdefault("disagreements_checked", self.evaluations)
        ev = dict(property_id=self.prop, tier=self.tier, seed=self.seed, level=self.level,
                  coverage=cov, assumptions=self.assumptions + self.notes, wall_s=round(wall, 2),
                  violations=len(self.failures) + (1 if (self.broken and not self.failures) else 0))
        json.dump(ev, open(os.path.join(EVIDENCE_DIR, self.prop + ".json"), "w"), indent=1, default=str)
        for l in lines:
            print(l, flush=True)
        self.log("done rc=%d evaluations=%d distinct_nontrivial=%d wall=%.1fs" % (
            rc, self.evaluations, len(self.nontrivial), wall))
        return rc
