import GardenVerif.Model.Machine
/-!
Helper lemmas for C25 (Props/C25.lean): what ONE `Machine.step` does to the tick counter, the
call-stack depth and the configured limits, and the bounded iteration `runN`.

Shape of a continuing step (`step_cont_shape`): either the step popped an entry — then it ticked
(`ticks' = ticks + 1`), the tick limit was not reached (`ticks' < L`), the stack check passed
(`frames.length ≤ D`) and the call stack grew by at most one frame — or it was a frame return:
no tick, one frame fewer. Limits, program, `interruptAt`, `stopAt` never change.
-/
set_option linter.unusedVariables false
set_option linter.unusedSimpArgs false
namespace MachineTicks
open Machine

/-- The run is over: `eval` returned (value or error), or the Rust would panic, or the program left
the modelled fragment. -/
def StepResult.isTerminal : StepResult → Bool
  | .cont _ => false
  | _ => true

/-- Iterate `step` at most `n` times; stop at the first result that is not `cont`. -/
def runN : Nat → State → StepResult
  | 0, s => .cont s
  | n + 1, s =>
    match step s with
    | .cont s' => runN n s'
    | r => r

/-- Fields of the state that no step changes. -/
def SameConfig (s s' : State) : Prop :=
  s'.prog = s.prog ∧ s'.tickLimit = s.tickLimit ∧ s'.stackLimit = s.stackLimit ∧
  s'.interruptAt = s.interruptAt ∧ s'.stopAt = s.stopAt

theorem setTop_config (s : State) (f : Frame) : SameConfig s (setTop s f) := by
  unfold setTop SameConfig; split <;> simp

theorem setTop_ticks (s : State) (f : Frame) : (setTop s f).ticks = s.ticks := by
  unfold setTop; split <;> rfl

theorem setTop_frames_length (s : State) (f : Frame) : (setTop s f).frames.length = s.frames.length := by
  unfold setTop; split <;> simp_all

theorem stopCheck_cont (a s' : State) (f : Frame) (st : St) (e : Expr)
    (h : stopCheck a f st e = .cont s') : s' = a := by
  unfold stopCheck at h
  repeat' split at h
  all_goals simp at h
  all_goals exact h.symm

/-- A ticking step: popped an entry, limits checked; a returning step: no tick, one frame fewer. -/
def ContShape (s s' : State) : Prop :=
  (s'.ticks = s.ticks + 1 ∧ limitReached s.tickLimit (s.ticks + 1) = false ∧
     limitExceeded s.stackLimit s.frames.length = false ∧
     s.frames.length ≤ s'.frames.length ∧ s'.frames.length ≤ s.frames.length + 1) ∨
  (s'.ticks = s.ticks ∧ s'.frames.length + 1 = s.frames.length)

theorem step_cont_shape (s s' : State) (h : step s = .cont s') : SameConfig s s' ∧ ContShape s s' := by
  unfold step at h
  match hf : s.frames with
  | [] => simp [hf] at h
  | f :: callers =>
    simp only [hf] at h
    match he : f.exprs with
    | [] =>
      simp only [he] at h
      match callers with
      | [] => cases hv : f.values <;> simp [hv] at h
      | caller :: rest =>
        cases hv : f.values <;> simp [hv] at h
        split at h
        · simp at h
        · simp at h
          subst h
          exact ⟨by simp [SameConfig], Or.inr (by simp [hf])⟩
    | (st, e) :: restE =>
      simp only [he] at h
      split at h
      · simp at h
      · rename_i hint
        split at h
        · simp at h
        · rename_i htl
          split at h
          · simp at h
          · rename_i hsl
            simp only [Bool.not_eq_true] at htl hsl
            rw [← hf] at hsl
            have key : ∀ (a : State), a.ticks = s.ticks + 1 → a.frames = s.frames → SameConfig s a →
                ∀ f', SameConfig s (setTop a f') ∧ ContShape s (setTop a f') := by
              intro a ht hfr hc f'
              have := setTop_config a f'
              refine ⟨⟨this.1.trans hc.1, this.2.1.trans hc.2.1, this.2.2.1.trans hc.2.2.1,
                this.2.2.2.1.trans hc.2.2.2.1, this.2.2.2.2.trans hc.2.2.2.2⟩, Or.inl ?_⟩
              rw [setTop_ticks, setTop_frames_length, hfr, ht]
              exact ⟨rfl, htl, hsl, Nat.le_refl _, Nat.le_succ _⟩
            split at h
            · have h := stopCheck_cont _ _ _ _ _ h
              subst h
              exact key _ rfl (by simp [hf]) (by simp [SameConfig]) _
            · have h := stopCheck_cont _ _ _ _ _ h
              subst h
              exact key _ rfl (by simp [hf]) (by simp [SameConfig]) _
            · simp at h
              subst h
              refine ⟨by simp [SameConfig], Or.inl ⟨rfl, htl, hsl, ?_, ?_⟩⟩ <;> simp [hf]
            all_goals simp at h

theorem runN_terminal_mono (n : Nat) : ∀ (s : State), StepResult.isTerminal (runN n s) = true →
    StepResult.isTerminal (runN (n + 1) s) = true := by
  induction n with
  | zero => intro s h; simp [runN, StepResult.isTerminal] at h
  | succ n ih =>
    intro s h
    unfold runN at h ⊢
    split
    · rename_i s' hs; simp only [hs] at h; exact ih s' h
    · rename_i r hr
      split at h
      · rename_i s' hs; exact absurd hs (hr s')
      · exact h

theorem runN_terminal_le (n m : Nat) (hnm : n ≤ m) (s : State)
    (h : StepResult.isTerminal (runN n s) = true) : StepResult.isTerminal (runN m s) = true := by
  induction hnm with
  | refl => exact h
  | step _ ih => exact runN_terminal_mono _ _ ih

/-- The potential that every continuing step strictly decreases: two units per remaining tick
(one for the ticking step itself, one to pay for the return of the frame it may push) plus one
unit per frame currently on the call stack. -/
def potential (L : Nat) (s : State) : Nat := 2 * (L - s.ticks) + s.frames.length

theorem potential_decreases (L : Nat) (s s' : State) (hL : s.tickLimit = some L)
    (h : step s = .cont s') : potential L s' < potential L s := by
  obtain ⟨_, hs⟩ := step_cont_shape s s' h
  unfold potential
  rcases hs with ⟨ht, hlim, _, _, hlen⟩ | ⟨ht, hlen⟩
  · simp [hL, limitReached] at hlim
    omega
  · omega

end MachineTicks
