import GardenVerif.Model.Sandbox
/-!
Driver ops for M12 (sandbox gating), evaluated with the worst sound body `Body.all`:

* `sbx_call <sandboxed 0|1> <isMethod 0|1> <Kind>` → `OK forbidden` | `OK ran <effect>,<effect>…` |
  `OK ran -` | `ERR nosuchkind`
* `sbx_run <sandboxed 0|1> <m|f>:<Kind> …` → `OK <completed|forbiddenAt:i|noSuchKind:i> <#effects>`
-/

namespace DriverSandbox
open Sandbox

def bit (s : String) : Option Bool :=
  if s == "1" then some true else if s == "0" then some false else none

def showEnd : End → String
  | .completed => "completed"
  | .forbiddenAt i => s!"forbiddenAt:{i}"
  | .noSuchKind i => s!"noSuchKind:{i}"

def parseCall (s : String) : Option Call :=
  match s.splitOn ":" with
  | [m, k] =>
    if m == "m" then some ⟨true, k, []⟩ else if m == "f" then some ⟨false, k, []⟩ else none
  | _ => none

def handle (op : String) (rest : String) : Option String :=
  let ws := (rest.splitOn " ").filter (· ≠ "")
  if op == "sbx_call" then
    match ws with
    | [s, m, k] =>
      match bit s, bit m with
      | some s, some m =>
        match lookup Tables.builtinArms m k with
        | none => some "ERR nosuchkind"
        | some arm =>
          match runArm Body.all s arm [] with
          | .forbidden => some "OK forbidden"
          | .ran es => some ("OK ran " ++ (if es.isEmpty then "-" else ",".intercalate es))
      | _, _ => some "ERR bad-args"
    | _ => some "ERR bad-args"
  else if op == "sbx_run" then
    match ws with
    | s :: cs =>
      match bit s, cs.mapM parseCall with
      | some s, some calls =>
        let r := runCalls Tables.builtinArms Body.all s calls 0
        some s!"OK {showEnd r.2} {r.1.length}"
      | _, _ => some "ERR bad-args"
    | _ => some "ERR bad-args"
  else none

end DriverSandbox
