import GardenVerif.Model.Validators
/-!
# Extract — relations and checkers for C21 (wrap-in-dbg, add-type-annotation) and C20 (extract
variable / function)

(V) of DESIGN §3. The tools are not modelled; each property has a decidable relation between the tree
before and the tree after (both from the REAL parser), evaluated by the driver on every generated
input, and theorems (Props/C21, Props/C20) that related programs behave the same under `RefSem`.

Part 1 (C21): `W c` — the program transformer "wrap every node whose id is selected by `c.sel` in
`c.wrap`, and (if `c.strip`) forget node ids and `value_is_used` flags". `let` nodes are never
wrapped (a `let` is a statement: `RefSem.evalSeq` recognises it syntactically). Instances:
* `stripCfg`: only forget ids / flags (`RefSem` never reads them);
* `dbgCfg target`: wrap the node `target` in a call of `dbg` and strip;
* `chkCfg sel chk`: wrap the selected nodes in an arbitrary "partial identity" context `chk`
  (the model of the runtime check a type hint adds, see Props/C21).
-/

namespace Extract
open Machine (Expr Case Dest BinOp Program FunDef EnumDef)
open RefSem Validators

structure WCfg where
  /-- forget node ids and use flags -/
  strip : Bool
  /-- the node ids to wrap -/
  sel : Nat → Bool
  wrap : Expr → Expr
  /-- binder names the wrapper tolerates in scope (`dbg` must not be rebound) -/
  ok : String → Bool
  /-- fuel slack of the wrapper -/
  k : Nat
  /-- the error kind with which the wrapper may fail (`none`: it never fails) -/
  fk : Option EK

def WCfg.i (c : WCfg) (id : Nat) : Nat := if c.strip then 0 else id
def WCfg.u (c : WCfg) (u : Bool) : Bool := if c.strip then false else u

/-- Wrap the finished node if its id is selected. -/
def fin (c : WCfg) (id : Nat) (e : Expr) : Expr := if c.sel id then c.wrap e else e

mutual
def W (c : WCfg) : Expr → Expr
  | .int id u v => fin c id (.int (c.i id) (c.u u) v)
  | .str id u s => fin c id (.str (c.i id) (c.u u) s)
  | .var id u n => fin c id (.var (c.i id) (c.u u) n)
  | .binop id u op l r => fin c id (.binop (c.i id) (c.u u) op (W c l) (W c r))
  | .letE id u dest rhs => .letE (c.i id) (c.u u) dest (W c rhs)
  | .assign id u n rhs => fin c id (.assign (c.i id) (c.u u) n (W c rhs))
  | .update id u a n rhs => fin c id (.update (c.i id) (c.u u) a n (W c rhs))
  | .ifE id u cnd thn els => fin c id (.ifE (c.i id) (c.u u) (W c cnd) (WSeq c thn) (WOpt c els))
  | .whileE id u cnd body => fin c id (.whileE (c.i id) (c.u u) (W c cnd) (WSeq c body))
  | .forE id u dest iter body => fin c id (.forE (c.i id) (c.u u) dest (W c iter) (WSeq c body))
  | .matchE id u scrut cases => fin c id (.matchE (c.i id) (c.u u) (W c scrut) (WCases c cases))
  | .ret id u none => fin c id (.ret (c.i id) (c.u u) none)
  | .ret id u (some e) => fin c id (.ret (c.i id) (c.u u) (some (W c e)))
  | .brk id u => fin c id (.brk (c.i id) (c.u u))
  | .cont id u => fin c id (.cont (c.i id) (c.u u))
  | .list id u items => fin c id (.list (c.i id) (c.u u) (WSeq c items))
  | .tuple id u items => fin c id (.tuple (c.i id) (c.u u) (WSeq c items))
  | .call id u recv args => fin c id (.call (c.i id) (c.u u) (W c recv) (WSeq c args))
  | .lambda id u params body => fin c id (.lambda (c.i id) (c.u u) params (WSeq c body))
  | .paren id u e => fin c id (.paren (c.i id) (c.u u) (W c e))
  | .invalid id u => fin c id (.invalid (c.i id) (c.u u))
  | .unsup id u w => fin c id (.unsup (c.i id) (c.u u) w)
def WSeq (c : WCfg) : List Expr → List Expr
  | [] => []
  | e :: rest => W c e :: WSeq c rest
def WOpt (c : WCfg) : Option (List Expr) → Option (List Expr)
  | none => none
  | some b => some (WSeq c b)
def WCase (c : WCfg) : Case → Case
  | .mk v d body => .mk v d (WSeq c body)
def WCases (c : WCfg) : List Case → List Case
  | [] => []
  | cs :: rest => WCase c cs :: WCases c rest
end

def WFun (c : WCfg) (d : FunDef) : FunDef := { d with body := WSeq c d.body }

def WP (c : WCfg) (p : Program) : Program :=
  { p with funs := p.funs.map (WFun c), toplevel := WSeq c p.toplevel }

-- binder names

def bokDest (f : String → Bool) : Dest → Bool
  | .sym n => f n
  | .destr ns => ns.all f

mutual
/-- Every binder name in the expression satisfies `f`. -/
def bok (f : String → Bool) : Expr → Bool
  | .int .. => true
  | .str .. => true
  | .var .. => true
  | .binop _ _ _ l r => bok f l && bok f r
  | .letE _ _ dest rhs => bokDest f dest && bok f rhs
  | .assign _ _ _ rhs => bok f rhs
  | .update _ _ _ _ rhs => bok f rhs
  | .ifE _ _ c t e => bok f c && bokSeq f t && bokOpt f e
  | .whileE _ _ c b => bok f c && bokSeq f b
  | .forE _ _ d e b => bokDest f d && bok f e && bokSeq f b
  | .matchE _ _ s cs => bok f s && bokCases f cs
  | .ret _ _ none => true
  | .ret _ _ (some e) => bok f e
  | .brk .. => true
  | .cont .. => true
  | .list _ _ es => bokSeq f es
  | .tuple _ _ es => bokSeq f es
  | .call _ _ r as => bok f r && bokSeq f as
  | .lambda _ _ ps b => ps.all f && bokSeq f b
  | .paren _ _ e => bok f e
  | .invalid .. => true
  | .unsup .. => true
def bokSeq (f : String → Bool) : List Expr → Bool
  | [] => true
  | e :: rest => bok f e && bokSeq f rest
def bokOpt (f : String → Bool) : Option (List Expr) → Bool
  | none => true
  | some b => bokSeq f b
def bokCase (f : String → Bool) : Case → Bool
  | .mk _ none b => bokSeq f b
  | .mk _ (some d) b => bokDest f d && bokSeq f b
def bokCases (f : String → Bool) : List Case → Bool
  | [] => true
  | c :: rest => bokCase f c && bokCases f rest
end

def bokFun (f : String → Bool) (d : FunDef) : Bool := d.params.all f && bokSeq f d.body

def bokProg (f : String → Bool) (p : Program) : Bool := p.funs.all (bokFun f) && bokSeq f p.toplevel

-- ------------------------------------------------------------------ instances

def stripCfg : WCfg :=
  { strip := true, sel := fun _ => false, wrap := id, ok := fun _ => true, k := 0, fk := none }

/-- No transformation at all (used to derive fuel monotonicity from the simulation). -/
def idCfg : WCfg :=
  { strip := false, sel := fun _ => false, wrap := id, ok := fun _ => true, k := 0, fk := none }

def dbgCall (e : Expr) : Expr := .call 0 false (.var 0 false "dbg") [e]

def dbgCfg (target : Nat) : WCfg :=
  { strip := true, sel := fun i => i == target, wrap := dbgCall, ok := fun n => n != "dbg", k := 2, fk := none }

/-- `dbg` means the built-in in `p`: no function, enum variant or binder of that name. -/
def dbgFree (p : Program) : Bool :=
  bokProg (fun n => n != "dbg") p && !(funNames p).contains "dbg" &&
    (findVariant (p.enums ++ Machine.preludeEnums) "dbg").isNone

/-- Number of nodes with the given id (`let` nodes do not count: they are never wrapped). -/
def hitsOf (target : Nat) (id : Nat) : Nat := if id == target then 1 else 0

mutual
def hits (t : Nat) : Expr → Nat
  | .int id .. => hitsOf t id
  | .str id .. => hitsOf t id
  | .var id .. => hitsOf t id
  | .binop id _ _ l r => hitsOf t id + hits t l + hits t r
  | .letE _ _ _ rhs => hits t rhs
  | .assign id _ _ rhs => hitsOf t id + hits t rhs
  | .update id _ _ _ rhs => hitsOf t id + hits t rhs
  | .ifE id _ c th e => hitsOf t id + hits t c + hitsSeq t th + hitsOpt t e
  | .whileE id _ c b => hitsOf t id + hits t c + hitsSeq t b
  | .forE id _ _ e b => hitsOf t id + hits t e + hitsSeq t b
  | .matchE id _ s cs => hitsOf t id + hits t s + hitsCases t cs
  | .ret id _ none => hitsOf t id
  | .ret id _ (some e) => hitsOf t id + hits t e
  | .brk id _ => hitsOf t id
  | .cont id _ => hitsOf t id
  | .list id _ es => hitsOf t id + hitsSeq t es
  | .tuple id _ es => hitsOf t id + hitsSeq t es
  | .call id _ r as => hitsOf t id + hits t r + hitsSeq t as
  | .lambda id _ _ b => hitsOf t id + hitsSeq t b
  | .paren id _ e => hitsOf t id + hits t e
  | .invalid id _ => hitsOf t id
  | .unsup id .. => hitsOf t id
def hitsSeq (t : Nat) : List Expr → Nat
  | [] => 0
  | e :: rest => hits t e + hitsSeq t rest
def hitsOpt (t : Nat) : Option (List Expr) → Nat
  | none => 0
  | some b => hitsSeq t b
def hitsCases (t : Nat) : List Case → Nat
  | [] => 0
  | .mk _ _ b :: rest => hitsSeq t b + hitsCases t rest
end

def hitsProg (t : Nat) (p : Program) : Nat :=
  (p.funs.map fun d => hitsSeq t d.body).sum + hitsSeq t p.toplevel

/-- C21, wrap-in-dbg: up to node ids and use flags, `p'` is `p` with the node `target` (exactly
one node, not a `let`) replaced by `dbg(<that node>)`, everything else in place. -/
def IsDbgWrap (p p' : Program) (target : Nat) : Prop :=
  WP stripCfg p' = WP (dbgCfg target) p ∧ hitsProg target p = 1

def dbgwrapCheck (p p' : Program) (target : Nat) : Bool :=
  progEq (WP stripCfg p') (WP (dbgCfg target) p) && hitsProg target p == 1

/-- C21, add-type-annotation, on the hint-free trees (`Machine.Expr` carries no hints): nothing but
node ids / flags differs. That exactly one hint was added, and where, is read off the `astq` dumps by
the driver (`annot_check`). -/
def IsAnnotationAdd (p p' : Program) : Prop := WP stripCfg p' = WP stripCfg p

def annotCheck (p p' : Program) : Bool := progEq (WP stripCfg p') (WP stripCfg p)

/-- The model of the check a hint `T` adds at the selected nodes: any expression context `chk` that
is a partial identity (Props/C21 `PartialId`). -/
def chkCfg (sel : Nat → Bool) (chk : Expr → Expr) (fk : EK) : WCfg :=
  { strip := false, sel := sel, wrap := chk, ok := fun _ => true, k := 2, fk := some fk }

/-- Concrete partial identities available in `RefSem`: the value must be an `Int` / `Bool` / `String`. -/
def chkInt (e : Expr) : Expr := .binop 0 true .add e (.int 0 true 0)
def chkBool (e : Expr) : Expr := .binop 0 true .and e (.var 0 true "True")
def chkStr (e : Expr) : Expr := .binop 0 true .concat e (.str 0 true "")


-- ------------------------------------------------------------------ Part 2 (C20): extract variable / function

/-- The tool drops one layer of parentheses around the extracted expression. -/
def unparen : Expr → Expr
  | .paren _ _ e => e
  | e => e

def pick (t id : Nat) (e : Expr) (rest : Option Expr) : Option Expr := if id == t then some e else rest

mutual
/-- The node `t`, if it lies on the BLOCK-FREE spine of the statement: reachable without entering a
block (branch of `if`, loop body, `match` arm, closure body). These are exactly the positions from
which "immediately before the enclosing statement of the same block" means: before this statement. -/
def findSp (t : Nat) : Expr → Option Expr
  | .int id u v => pick t id (.int id u v) none
  | .str id u v => pick t id (.str id u v) none
  | .var id u v => pick t id (.var id u v) none
  | .binop id u op l r => pick t id (.binop id u op l r) ((findSp t l).or (findSp t r))
  | .letE _ _ _ rhs => findSp t rhs
  | .assign id u n rhs => pick t id (.assign id u n rhs) (findSp t rhs)
  | .update id u a n rhs => pick t id (.update id u a n rhs) (findSp t rhs)
  | .ifE id u c th el => pick t id (.ifE id u c th el) (findSp t c)
  | .whileE id u c b => pick t id (.whileE id u c b) (findSp t c)
  | .forE id u d e b => pick t id (.forE id u d e b) (findSp t e)
  | .matchE id u s cs => pick t id (.matchE id u s cs) (findSp t s)
  | .ret id u none => pick t id (.ret id u none) none
  | .ret id u (some e) => pick t id (.ret id u (some e)) (findSp t e)
  | .brk id u => pick t id (.brk id u) none
  | .cont id u => pick t id (.cont id u) none
  | .list id u es => pick t id (.list id u es) (findSpL t es)
  | .tuple id u es => pick t id (.tuple id u es) (findSpL t es)
  | .call id u r as => pick t id (.call id u r as) ((findSp t r).or (findSpL t as))
  | .lambda id u ps b => pick t id (.lambda id u ps b) none
  | .paren id u e => pick t id (.paren id u e) (findSp t e)
  | .invalid id u => pick t id (.invalid id u) none
  | .unsup id u w => pick t id (.unsup id u w) none
def findSpL (t : Nat) : List Expr → Option Expr
  | [] => none
  | e :: rest => (findSp t e).or (findSpL t rest)
end

mutual
/-- Replace the node `t` on the block-free spine by `r`. -/
def replSp (t : Nat) (r : Expr) : Expr → Expr
  | .int id u v => if id == t then r else .int id u v
  | .str id u v => if id == t then r else .str id u v
  | .var id u v => if id == t then r else .var id u v
  | .binop id u op l r' => if id == t then r else .binop id u op (replSp t r l) (replSp t r r')
  | .letE id u d rhs => .letE id u d (replSp t r rhs)
  | .assign id u n rhs => if id == t then r else .assign id u n (replSp t r rhs)
  | .update id u a n rhs => if id == t then r else .update id u a n (replSp t r rhs)
  | .ifE id u c th el => if id == t then r else .ifE id u (replSp t r c) th el
  | .whileE id u c b => if id == t then r else .whileE id u (replSp t r c) b
  | .forE id u d e b => if id == t then r else .forE id u d (replSp t r e) b
  | .matchE id u s cs => if id == t then r else .matchE id u (replSp t r s) cs
  | .ret id u none => if id == t then r else .ret id u none
  | .ret id u (some e) => if id == t then r else .ret id u (some (replSp t r e))
  | .brk id u => if id == t then r else .brk id u
  | .cont id u => if id == t then r else .cont id u
  | .list id u es => if id == t then r else .list id u (replSpL t r es)
  | .tuple id u es => if id == t then r else .tuple id u (replSpL t r es)
  | .call id u f as => if id == t then r else .call id u (replSp t r f) (replSpL t r as)
  | .lambda id u ps b => if id == t then r else .lambda id u ps b
  | .paren id u e => if id == t then r else .paren id u (replSp t r e)
  | .invalid id u => if id == t then r else .invalid id u
  | .unsup id u w => if id == t then r else .unsup id u w
def replSpL (t : Nat) (r : Expr) : List Expr → List Expr
  | [] => []
  | e :: rest => replSp t r e :: replSpL t r rest
end

mutual
/-- The call-free pure expressions: literals, variables, operators, parentheses, list / tuple literals. -/
def arithE : Expr → Bool
  | .int .. => true
  | .str .. => true
  | .var .. => true
  | .binop _ _ _ l r => arithE l && arithE r
  | .paren _ _ e => arithE e
  | .list _ _ es => arithL es
  | .tuple _ _ es => arithL es
  | _ => false
def arithL : List Expr → Bool
  | [] => true
  | e :: rest => arithE e && arithL rest
end

mutual
/-- Apply `HSeq` to every block nested in the expression. -/
def H (t : Nat) (n : String) : Expr → Expr
  | .int id u v => .int id u v
  | .str id u v => .str id u v
  | .var id u v => .var id u v
  | .binop id u op l r => .binop id u op (H t n l) (H t n r)
  | .letE id u d rhs => .letE id u d (H t n rhs)
  | .assign id u x rhs => .assign id u x (H t n rhs)
  | .update id u a x rhs => .update id u a x (H t n rhs)
  | .ifE id u c th el => .ifE id u (H t n c) (HSeq t n th) (HOpt t n el)
  | .whileE id u c b => .whileE id u (H t n c) (HSeq t n b)
  | .forE id u d e b => .forE id u d (H t n e) (HSeq t n b)
  | .matchE id u s cs => .matchE id u (H t n s) (HCases t n cs)
  | .ret id u none => .ret id u none
  | .ret id u (some e) => .ret id u (some (H t n e))
  | .brk id u => .brk id u
  | .cont id u => .cont id u
  | .list id u es => .list id u (HList t n es)
  | .tuple id u es => .tuple id u (HList t n es)
  | .call id u f as => .call id u (H t n f) (HList t n as)
  | .lambda id u ps b => .lambda id u ps (HSeq t n b)
  | .paren id u e => .paren id u (H t n e)
  | .invalid id u => .invalid id u
  | .unsup id u w => .unsup id u w
/-- `H`, and the node `t` on the block-free spine replaced by the variable `n`. -/
def HR (t : Nat) (n : String) : Expr → Expr
  | .int id u v => if id == t then .var 0 false n else .int id u v
  | .str id u v => if id == t then .var 0 false n else .str id u v
  | .var id u v => if id == t then .var 0 false n else .var id u v
  | .binop id u op l r => if id == t then .var 0 false n else .binop id u op (HR t n l) (HR t n r)
  | .letE id u d rhs => .letE id u d (HR t n rhs)
  | .assign id u x rhs => if id == t then .var 0 false n else .assign id u x (HR t n rhs)
  | .update id u a x rhs => if id == t then .var 0 false n else .update id u a x (HR t n rhs)
  | .ifE id u c th el => if id == t then .var 0 false n else .ifE id u (HR t n c) (HSeq t n th) (HOpt t n el)
  | .whileE id u c b => if id == t then .var 0 false n else .whileE id u (HR t n c) (HSeq t n b)
  | .forE id u d e b => if id == t then .var 0 false n else .forE id u d (HR t n e) (HSeq t n b)
  | .matchE id u s cs => if id == t then .var 0 false n else .matchE id u (HR t n s) (HCases t n cs)
  | .ret id u none => if id == t then .var 0 false n else .ret id u none
  | .ret id u (some e) => if id == t then .var 0 false n else .ret id u (some (HR t n e))
  | .brk id u => if id == t then .var 0 false n else .brk id u
  | .cont id u => if id == t then .var 0 false n else .cont id u
  | .list id u es => if id == t then .var 0 false n else .list id u (HRList t n es)
  | .tuple id u es => if id == t then .var 0 false n else .tuple id u (HRList t n es)
  | .call id u f as => if id == t then .var 0 false n else .call id u (HR t n f) (HRList t n as)
  | .lambda id u ps b => if id == t then .var 0 false n else .lambda id u ps (HSeq t n b)
  | .paren id u e => if id == t then .var 0 false n else .paren id u (HR t n e)
  | .invalid id u => if id == t then .var 0 false n else .invalid id u
  | .unsup id u w => if id == t then .var 0 false n else .unsup id u w
def HRList (t : Nat) (n : String) : List Expr → List Expr
  | [] => []
  | e :: rest => HR t n e :: HRList t n rest
/-- A statement sequence: the statement on whose block-free spine the node `t` lies gets
`let n = <node t>` inserted IMMEDIATELY BEFORE it, in this same block, and the node replaced by `n`. -/
def HSeq (t : Nat) (n : String) : List Expr → List Expr
  | [] => []
  | e :: rest =>
    match findSp t e with
    | some x => .letE 0 false (.sym n) (unparen x) :: HR t n e :: HSeq t n rest
    | none => H t n e :: HSeq t n rest
def HList (t : Nat) (n : String) : List Expr → List Expr
  | [] => []
  | e :: rest => H t n e :: HList t n rest
def HOpt (t : Nat) (n : String) : Option (List Expr) → Option (List Expr)
  | none => none
  | some b => some (HSeq t n b)
def HCases (t : Nat) (n : String) : List Case → List Case
  | [] => []
  | .mk v d b :: rest => .mk v d (HSeq t n b) :: HCases t n rest
end

def noSp (t : Nat) (e : Expr) : Bool := (findSp t e).isNone
def noSpL (t : Nat) (es : List Expr) : Bool := (findSpL t es).isNone

mutual
/-- `sp t e`: the node `t` lies on the block-free spine of the statement `e`, every sub-expression of
`e` that is evaluated BEFORE it is pure and call-free (`arithE`), it is not the condition of a `while`
(evaluated more than once), and no other node on the spine carries the id. Then the state in which the
node is evaluated is the state in which the statement starts. -/
def sp (t : Nat) : Expr → Bool
  | .int id _ _ => id == t
  | .str id _ _ => id == t
  | .var id _ _ => id == t
  | .binop id _ _ l r => id == t || (sp t l && noSp t r) || (arithE l && noSp t l && sp t r)
  | .letE _ _ _ rhs => sp t rhs
  | .ifE id _ c _ _ => id == t || sp t c
  | .forE id _ _ e _ => id == t || sp t e
  | .matchE id _ s _ => id == t || sp t s
  | .ret id _ (some e) => id == t || sp t e
  | .ret id _ none => id == t
  | .list id _ es => id == t || spL t es
  | .tuple id _ es => id == t || spL t es
  | .call id _ f as => id == t || (sp t f && noSpL t as) || (arithE f && noSp t f && spL t as)
  | .paren id _ e => id == t || sp t e
  | .lambda id _ _ _ => id == t
  | .brk id _ => id == t
  | .cont id _ => id == t
  | .invalid id _ => id == t
  | .unsup id _ _ => id == t
  | .whileE id _ _ _ => id == t
  | .assign .. => false
  | .update .. => false
def spL (t : Nat) : List Expr → Bool
  | [] => false
  | e :: rest => (sp t e && noSpL t rest) || (arithE e && noSp t e && spL t rest)
end

mutual
/-- The side conditions of `let_hoist_sound`, decided on the tree before: `n` occurs nowhere, the
program is assignment-free, and wherever a statement has the node `t` on its spine (where the `let` is
inserted) the node is pure and call-free and `sp` holds. -/
def G (t : Nat) (n : String) : Expr → Bool
  | .int .. => true
  | .str .. => true
  | .var _ _ x => x != n
  | .binop _ _ _ l r => G t n l && G t n r
  | .letE _ _ d rhs => freshDest n d && G t n rhs
  | .assign .. => false
  | .update .. => false
  | .ifE _ _ c th el => G t n c && GSeq t n th && GOpt t n el
  | .whileE _ _ c b => G t n c && GSeq t n b
  | .forE _ _ d e b => freshDest n d && G t n e && GSeq t n b
  | .matchE _ _ s cs => G t n s && GCases t n cs
  | .ret _ _ none => true
  | .ret _ _ (some e) => G t n e
  | .brk .. => true
  | .cont .. => true
  | .list _ _ es => GList t n es
  | .tuple _ _ es => GList t n es
  | .call _ _ f as => G t n f && GList t n as
  | .lambda _ _ ps b => freshNames n ps && GSeq t n b
  | .paren _ _ e => G t n e
  | .invalid .. => true
  | .unsup .. => true
def GSeq (t : Nat) (n : String) : List Expr → Bool
  | [] => true
  | e :: rest =>
    G t n e && (match findSp t e with
      | some x => sp t e && arithE (unparen x) && fresh n (unparen x)
      | none => true) && GSeq t n rest
def GList (t : Nat) (n : String) : List Expr → Bool
  | [] => true
  | e :: rest => G t n e && GList t n rest
def GOpt (t : Nat) (n : String) : Option (List Expr) → Bool
  | none => true
  | some b => GSeq t n b
def GCases (t : Nat) (n : String) : List Case → Bool
  | [] => true
  | .mk _ none b :: rest => GSeq t n b && GCases t n rest
  | .mk _ (some d) b :: rest => freshDest n d && GSeq t n b && GCases t n rest
end

def GFun (t : Nat) (n : String) (d : FunDef) : Bool := freshNames n d.params && GSeq t n d.body

/-- What `hoist_check` decides besides the schema: the hypotheses of `let_hoist_sound`. -/
def hoistSafe (t : Nat) (n : String) (p : Program) : Bool :=
  n != "_" && p.funs.all (GFun t n) && GSeq t n p.toplevel

def hoistProg (t : Nat) (n : String) (p : Program) : Program :=
  { p with funs := p.funs.map (fun d => { d with body := HSeq t n d.body }), toplevel := HSeq t n p.toplevel }

/-- C20, extract variable: up to ids / flags, `p'` is `p` with `let n = e` (`e` = the node `t`, one
layer of parentheses dropped) inserted as a statement immediately before the enclosing statement in
the same block and that occurrence (only) replaced by the variable `n`; `n` is fresh. -/
def IsLetHoist (p p' : Program) (t : Nat) (n : String) : Prop :=
  WP stripCfg p' = WP stripCfg (hoistProg t n p) ∧ hitsProg t p = 1 ∧ freshProg n p = true

def hoistCheck (p p' : Program) (t : Nat) (n : String) : Bool :=
  progEq (WP stripCfg p') (WP stripCfg (hoistProg t n p)) && hitsProg t p == 1 && freshProg n p

-- ------------------------------------------------------------------ free variables (lexical scoping)

def destNames : Dest → List String
  | .sym n => [n]
  | .destr ns => ns

mutual
/-- The uses of variables not bound inside the expression itself, in source order. Scopes: a `let`
binds in the REST of its block; the branches of `if`, loop bodies, EACH `match` arm (with its payload
names) and closure bodies (with the parameters) are blocks of their own; a `for` variable is bound in
the loop body only. -/
def fvE (bd : List String) : Expr → List String
  | .int .. => []
  | .str .. => []
  | .var _ _ x => if bd.contains x then [] else [x]
  | .binop _ _ _ l r => fvE bd l ++ fvE bd r
  | .letE _ _ _ rhs => fvE bd rhs
  | .assign _ _ x rhs => (if bd.contains x then [] else [x]) ++ fvE bd rhs
  | .update _ _ _ x rhs => (if bd.contains x then [] else [x]) ++ fvE bd rhs
  | .ifE _ _ c th el => fvE bd c ++ fvSeq bd th ++ fvOpt bd el
  | .whileE _ _ c b => fvE bd c ++ fvSeq bd b
  | .forE _ _ d e b => fvE bd e ++ fvSeq (destNames d ++ bd) b
  | .matchE _ _ s cs => fvE bd s ++ fvCases bd cs
  | .ret _ _ none => []
  | .ret _ _ (some e) => fvE bd e
  | .brk .. => []
  | .cont .. => []
  | .list _ _ es => fvL bd es
  | .tuple _ _ es => fvL bd es
  | .call _ _ f as => fvE bd f ++ fvL bd as
  | .lambda _ _ ps b => fvSeq (ps ++ bd) b
  | .paren _ _ e => fvE bd e
  | .invalid .. => []
  | .unsup .. => []
def fvSeq (bd : List String) : List Expr → List String
  | [] => []
  | e :: rest =>
    fvE bd e ++ (match e with
      | .letE _ _ d _ => fvSeq (destNames d ++ bd) rest
      | _ => fvSeq bd rest)
def fvL (bd : List String) : List Expr → List String
  | [] => []
  | e :: rest => fvE bd e ++ fvL bd rest
def fvOpt (bd : List String) : Option (List Expr) → List String
  | none => []
  | some b => fvSeq bd b
def fvCases (bd : List String) : List Case → List String
  | [] => []
  | .mk _ none b :: rest => fvSeq bd b ++ fvCases bd rest
  | .mk _ (some d) b :: rest => fvSeq (destNames d ++ bd) b ++ fvCases bd rest
end

def dedup : List String → List String
  | [] => []
  | x :: rest => x :: (dedup rest).filter (· != x)

/-- A name that can only mean a global of `p`: it resolves in the namespace and is never bound. -/
def pureGlobal (p : Program) (y : String) : Bool :=
  (nsLookup (funNames p) p.enums y).isSome && bokProg (fun z => z != y) p

/-- The parameters an extraction of `b` from `p` must have: its free local variables, each once, in
the order of first use. -/
def expectedParams (p : Program) (b : Expr) : List String :=
  dedup ((fvE [] b).filter fun y => !pureGlobal p y)


def callOf (n : String) (ps : List String) : Expr := .call 0 false (.var 0 false n) (ps.map fun x => .var 0 false x)

/-- Replace the node `t` (anywhere) by the call, provided the node is (up to ids / flags) `body`. -/
def funCfg (t : Nat) (n : String) (ps : List String) (body : Expr) : WCfg :=
  { strip := true, sel := fun i => i == t,
    wrap := fun core => if exprEq core (W stripCfg body) then callOf n ps else .invalid 0 false,
    ok := fun _ => true, k := 0, fk := none }

/-- C20, extract function: `p'` has one more toplevel function `n`, whose body is the single
expression `e` = the node `t` of `p`, and `p'` without it is `p` with that node replaced by the call
`n(params…)` (arguments = the parameter names, in the same order); the parameters are exactly the
free local variables of `e` (`expectedParams`, computed with the language's lexical scoping — each
`match` arm, loop body, branch and closure body is a scope of its own), each once, in the order of
first use; `n` is fresh. -/
def IsFunExtract (p p' : Program) (t : Nat) (n : String) : Prop :=
  ∃ d b, p'.funs.find? (fun d => d.name == n) = some d ∧ d.body = [b] ∧
    WP stripCfg { p' with funs := p'.funs.filter fun d => d.name != n } = WP (funCfg t n d.params b) p ∧
    hitsProg t p = 1 ∧ freshProg n p = true ∧ (funNames p).contains n = false ∧
    d.params = expectedParams p b

def funextCheck (p p' : Program) (t : Nat) (n : String) : Bool :=
  match p'.funs.find? (fun d => d.name == n) with
  | none => false
  | some d =>
    match d.body with
    | [b] =>
      progEq (WP stripCfg { p' with funs := p'.funs.filter fun d => d.name != n }) (WP (funCfg t n d.params b) p) &&
        hitsProg t p == 1 && freshProg n p && !(funNames p).contains n &&
        decide (d.params = expectedParams p b)
    | _ => false

mutual
/-- `Pure` (side-effect free): literals, variables, operators, parentheses, list / tuple literals,
calls of `string_repr` or of an enum constructor, closure literals, and `if` / `match` / `for` whose
parts and blocks are pure (a block may bind with `let`) — no call of `print` / `println` / `dbg` or
of a user function, no assignment, no loop exit. Such an expression never changes the output; it may
still raise an error. -/
def pureE (ctors : List String) : Expr → Bool
  | .int .. => true
  | .str .. => true
  | .var .. => true
  | .binop _ _ _ l r => pureE ctors l && pureE ctors r
  | .paren _ _ e => pureE ctors e
  | .list _ _ es => pureL ctors es
  | .tuple _ _ es => pureL ctors es
  | .call _ _ (.var _ _ f) as => (f == "string_repr" || ctors.contains f) && pureL ctors as
  | .call _ _ (.paren _ _ (.lambda _ _ _ b)) as => pureL ctors b && pureL ctors as
  | .letE _ _ _ rhs => pureE ctors rhs
  | .ifE _ _ c th el => pureE ctors c && pureL ctors th && pureO ctors el
  | .forE _ _ _ e b => pureE ctors e && pureL ctors b
  | .matchE _ _ s cs => pureE ctors s && pureC ctors cs
  | .lambda _ _ _ b => pureL ctors b
  | _ => false
def pureL (ctors : List String) : List Expr → Bool
  | [] => true
  | e :: rest => pureE ctors e && pureL ctors rest
def pureO (ctors : List String) : Option (List Expr) → Bool
  | none => true
  | some b => pureL ctors b
def pureC (ctors : List String) : List Case → Bool
  | [] => true
  | .mk _ _ b :: rest => pureL ctors b && pureC ctors rest
end

/-- Names that are enum constructors in `p` (with payload) and not shadowed by a function. -/
def ctorsOf (p : Program) : List String :=
  ((p.enums ++ Machine.preludeEnums).flatMap fun e => (e.variants.filter (·.2)).map (·.1)).filter
    fun v => !(funNames p).contains v


-- ------------------------------------------------------------------ side conditions of `fun_extract_sound`

mutual
/-- The variables a pure call-free expression evaluates, in evaluation order. -/
def varsE : Expr → List String
  | .var _ _ x => [x]
  | .binop _ _ _ l r => varsE l ++ varsE r
  | .paren _ _ e => varsE e
  | .list _ _ es => varsL es
  | .tuple _ _ es => varsL es
  | _ => []
def varsL : List Expr → List String
  | [] => []
  | e :: rest => varsE e ++ varsL rest
end

/-- The data of one function extraction: node, new name, its parameters, the names the extracted
expression uses without passing them (globals), the new function's body (ids / flags stripped). -/
structure FX where
  t : Nat
  n : String
  ps : List String
  gl : List String
  bS : Expr

def FX.cfg (x : FX) : WCfg :=
  { strip := true, sel := fun i => i == x.t,
    wrap := fun core => if exprEq core x.bS then callOf x.n x.ps else .invalid 0 false,
    ok := fun _ => true, k := 0, fk := none }

/-- Binder names allowed: not the new function's name, not a global the extracted expression uses. -/
def FX.f (x : FX) (z : String) : Bool := z != x.n && !x.gl.contains z

/-- At a selected node: it is pure and call-free, the only node with that id inside itself, equal (up
to ids / flags) to the new function's body; every parameter occurs in it and every variable in it is
a parameter or one of the globals. -/
def FX.selOK (x : FX) (e : Expr) : Bool :=
  !(e.id == x.t) ||
    (arithE e && hits x.t e == 1 && exprEq (W stripCfg e) x.bS &&
      (varsE e).all (fun y => y != x.n && (x.ps.contains y || x.gl.contains y)) && x.ps.all (varsE e).contains)

mutual
/-- The side conditions of `fun_extract_sound`, decided on the tree before: assignment-free, no use
of the new name, binders allowed by `FX.f`, and `selOK` at every node. -/
def GF (x : FX) : Expr → Bool
  | .int id u v => x.selOK (.int id u v)
  | .str id u v => x.selOK (.str id u v)
  | .var id u y => x.selOK (.var id u y) && y != x.n
  | .binop id u op l r => x.selOK (.binop id u op l r) && GF x l && GF x r
  | .letE _ _ d rhs => bokDest x.f d && GF x rhs
  | .assign .. => false
  | .update .. => false
  | .ifE id u c th el => x.selOK (.ifE id u c th el) && GF x c && GFSeq x th && GFOpt x el
  | .whileE id u c b => x.selOK (.whileE id u c b) && GF x c && GFSeq x b
  | .forE id u d e b => x.selOK (.forE id u d e b) && bokDest x.f d && GF x e && GFSeq x b
  | .matchE id u s cs => x.selOK (.matchE id u s cs) && GF x s && GFCases x cs
  | .ret id u none => x.selOK (.ret id u none)
  | .ret id u (some e) => x.selOK (.ret id u (some e)) && GF x e
  | .brk id u => x.selOK (.brk id u)
  | .cont id u => x.selOK (.cont id u)
  | .list id u es => x.selOK (.list id u es) && GFSeq x es
  | .tuple id u es => x.selOK (.tuple id u es) && GFSeq x es
  | .call id u f as => x.selOK (.call id u f as) && GF x f && GFSeq x as
  | .lambda id u ps b => x.selOK (.lambda id u ps b) && ps.all x.f && GFSeq x b
  | .paren id u e => x.selOK (.paren id u e) && GF x e
  | .invalid id u => x.selOK (.invalid id u)
  | .unsup id u w => x.selOK (.unsup id u w)
def GFSeq (x : FX) : List Expr → Bool
  | [] => true
  | e :: rest => GF x e && GFSeq x rest
def GFOpt (x : FX) : Option (List Expr) → Bool
  | none => true
  | some b => GFSeq x b
def GFCases (x : FX) : List Case → Bool
  | [] => true
  | .mk _ none b :: rest => GFSeq x b && GFCases x rest
  | .mk _ (some d) b :: rest => bokDest x.f d && GFSeq x b && GFCases x rest
end

def GFFun (x : FX) (d : FunDef) : Bool := d.params.all x.f && GFSeq x d.body

/-- The extraction data read off the program after (`d` = the new function). -/
def fxOf (t : Nat) (n : String) (d : FunDef) (b : Expr) : FX :=
  { t := t, n := n, ps := d.params, gl := (varsE b).filter (fun y => !d.params.contains y), bS := W stripCfg b }

/-- What `funext_check` decides besides the schema: the hypotheses of `fun_extract_sound`. -/
def funSafe (p p' : Program) (t : Nat) (n : String) : Bool :=
  match p'.funs.find? (fun d => d.name == n) with
  | none => false
  | some d =>
    match d.body with
    | [b] =>
      let x := fxOf t n d b
      n != "_" && d.params.all (· != "_") && (nsLookup (funNames p) p.enums n).isNone &&
        d.params.all x.f && p.funs.all (GFFun x) && GFSeq x p.toplevel
    | _ => false

end Extract
