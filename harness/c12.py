"""C12 — Printed values read back as equal values.

Proof: GardenVerif.Props.C12 over the models Model/StringLit.lean (escape_string_literal,
STRING_RE, unescape_string) and Model/Display.lean (Value::display, a reader for the literal
fragment).

Tie (correspondence), same inputs to implementation and model:
  * `escape` / `unescape` hook ops and the first token of `lex` vs `c12_escape` / `c12_unescape` /
    `c12_strlex`, on every string over a 10-character alphabet up to a length bound, then random
    longer strings;
  * `garden run -c 'println(string_repr(<literal>))'` vs `c12_display` on generated nested values;
  * `println(string_repr(<text>))` vs `c12_read` (read, then display) on printed forms and on
    perturbed spellings of them (spaces, trailing commas, `_` in numbers, parentheses, shuffled
    dict entries).

Direct oracle on the implementation only (no model):
  * strings: p = escape(s); lexing p followed by several continuations must give exactly the
    token p with no error, and unescape(p) must be (s, no diagnostics);
  * values: print v with string_repr, run the printed text as a program, expect the same text and
    `<printed> == <literal>` to be True (printed forms only for values containing floats/dicts:
    `==` on those is C13's business);
  * floats: printed form matches -?digits.digits, reads back to the same float.
"""
import itertools
import os
import re
from decimal import Decimal

from . import common

LEAN_MODULES = ["GardenVerif.Props.C12"]

ALPHABET = ['"', '\\', '\n', '\t', '\r', 'a', 'n', '\u00e9', '\U0001F600', ' ']
PREAMBLE = ("enum Bx<T> { Red, Leaf_1, Node(T), Wrap(T) }\n"
            "struct Foo<T, U> { x: T, y: U }\n"
            "struct Pt<T> { a: T }\n"
            "struct Empty {}\n")
STRUCTS = {"Foo": ["x", "y"], "Pt": ["a"], "Empty": []}
E0 = ["True", "False", "Unit", "None", "Red", "Leaf_1"]
E1 = ["Some", "Ok", "Err", "Node", "Wrap"]
FLOAT_SHAPE = re.compile(r"^-?[0-9]+\.[0-9]+$")


def hx(s):
    return s.encode("utf-8").hex()


def unhx(h):
    return bytes.fromhex(h).decode("utf-8")


# ------------------------------------------------------------------ values
def src_string(s, rng=None):
    """A Garden string literal for s, written the way a user would (\\t for tab etc.);
    independent of escape_string_literal."""
    out = ['"']
    for c in s:
        if c == '\\':
            out.append('\\\\')
        elif c == '"':
            out.append('\\"')
        elif c == '\n':
            out.append('\\n' if rng is None or rng.random() < 0.8 else '\n')
        elif c == '\t':
            out.append('\\t' if rng is None or rng.random() < 0.5 else '\t')
        else:
            out.append(c)
    out.append('"')
    return "".join(out)


def py_escape(s):
    """The specification of the printed form of a string (used by the oracle only to
    build expectations about *reading*, never compared with the implementation's print)."""
    return '"' + s.replace('\\', '\\\\').replace('"', '\\"').replace('\n', '\\n') + '"'


def float_print(f):
    """Shortest round-trip digits without exponent, `.0` appended: what display must print."""
    r = repr(f)
    d = format(Decimal(r), 'f')
    if f == 0 and r.startswith('-') and not d.startswith('-'):
        d = '-' + d
    if '.' not in d:
        d += '.0'
    return d


def float_literal(f):
    """An exact decimal literal for f without exponent."""
    d = format(Decimal(f), 'f')
    if f == 0 and repr(f).startswith('-') and not d.startswith('-'):
        d = '-' + d
    if '.' not in d:
        d += '.0'
    return d


def rand_string(rng, maxlen=6):
    n = rng.choice([0, 1, 1, 2, 2, 3, 4, maxlen])
    pool = ALPHABET + ['b', '}', '{', '(', ',', '=', '>', '/', '_', '-', '1', '.', '\u4e2d', '\x0b', "'"]
    return "".join(rng.choice(pool) for _ in range(n))


def rand_float(rng):
    r = rng.random()
    if r < 0.2:
        return rng.choice([0.0, -0.0, 1.0, -1.0, 0.1, 0.5, 1e21, 1e22, 1e-7, 123456.789, 5e-324,
                           1.7976931348623157e308, 2.2250738585072014e-308, 9007199254740993.0, 1e15, 1e16])
    if r < 0.6:
        return rng.uniform(-1000, 1000)
    m = rng.uniform(-10, 10)
    return m * 10.0 ** rng.randint(-40, 40)


def rand_int(rng):
    r = rng.random()
    if r < 0.15:
        return rng.choice([0, -1, 1, 9223372036854775807, -9223372036854775808, 10, -10, 99, 100, 1000])
    if r < 0.6:
        return rng.randint(-200, 200)
    return rng.randint(-2 ** 63, 2 ** 63 - 1)


def rand_value(rng, depth):
    kinds = ["int", "str", "float", "e0"]
    if depth > 0:
        kinds += ["list", "tuple", "dict", "e1", "struct", "list", "tuple"]
    k = rng.choice(kinds)
    if k == "int":
        return ("int", rand_int(rng))
    if k == "float":
        return ("float", rand_float(rng))
    if k == "str":
        return ("str", rand_string(rng))
    if k == "e0":
        return ("e0", rng.choice(E0))
    if k == "list":
        n = rng.choice([0, 1, 2, 3])
        return ("list", [rand_value(rng, depth - 1) for _ in range(n)])
    if k == "tuple":
        n = rng.choice([0, 1, 1, 2, 3])
        return ("tuple", [rand_value(rng, depth - 1) for _ in range(n)])
    if k == "dict":
        n = rng.choice([0, 1, 2, 3])
        keys = []
        while len(keys) < n:
            s = rand_string(rng, 3)
            if s not in keys:
                keys.append(s)
        return ("dict", [(s, rand_value(rng, depth - 1)) for s in keys])
    if k == "e1":
        return ("e1", rng.choice(E1), rand_value(rng, depth - 1))
    name = rng.choice(list(STRUCTS))
    fields = list(STRUCTS[name])
    rng.shuffle(fields)
    return ("struct", name, [(f, rand_value(rng, depth - 1)) for f in fields])


def has_kind(v, kinds):
    if v[0] in kinds:
        return True
    if v[0] in ("list", "tuple"):
        return any(has_kind(x, kinds) for x in v[1])
    if v[0] == "dict":
        return any(has_kind(x, kinds) for _, x in v[1])
    if v[0] == "e1":
        return has_kind(v[2], kinds)
    if v[0] == "struct":
        return any(has_kind(x, kinds) for _, x in v[2])
    return False


def depth_of(v):
    if v[0] in ("list", "tuple"):
        return 1 + max([depth_of(x) for x in v[1]] + [0])
    if v[0] == "dict":
        return 1 + max([depth_of(x) for _, x in v[1]] + [0])
    if v[0] == "e1":
        return 1 + depth_of(v[2])
    if v[0] == "struct":
        return 1 + max([depth_of(x) for _, x in v[2]] + [0])
    return 0


def src_of(v, rng):
    """A literal expression for v as a user could write it (not the printed form)."""
    sp = lambda: rng.choice(["", "", " ", "  "])
    k = v[0]
    if k == "int":
        s = str(v[1])
        if len(s) > 4 and rng.random() < 0.3:
            s = s[:-3] + "_" + s[-3:]
        return s
    if k == "float":
        return float_literal(v[1])
    if k == "str":
        return src_string(v[1], rng)
    if k == "e0":
        return v[1]
    if k in ("list", "tuple"):
        items = [src_of(x, rng) for x in v[1]]
        body = ("," + sp()).join(items)
        if k == "list":
            if items and rng.random() < 0.2:
                body += ","
            return "[" + sp() + body + sp() + "]"
        if len(items) == 1 or (items and rng.random() < 0.2):
            body += ","
        return "(" + sp() + body + sp() + ")"
    if k == "dict":
        es = list(v[1])
        rng.shuffle(es)
        return "Dict[" + ", ".join(src_string(a, rng) + sp() + "=>" + sp() + src_of(b, rng) for a, b in es) + "]"
    if k == "e1":
        return v[1] + "(" + sp() + src_of(v[2], rng) + sp() + ")"
    return v[1] + "{" + sp() + ", ".join(f + ":" + sp() + src_of(x, rng) for f, x in v[2]) + sp() + "}"


def sexp_of(v):
    k = v[0]
    if k == "int":
        return "(int %d)" % v[1]
    if k == "float":
        return "(float %s)" % hx(float_print(v[1]))
    if k == "str":
        return "(str %s)" % hx(v[1]) if v[1] else "(str)"
    if k == "e0":
        return "(e0 %s)" % v[1]
    if k in ("list", "tuple"):
        return "(%s%s)" % (k, "".join(" " + sexp_of(x) for x in v[1]))
    if k == "dict":
        es = sorted(v[1], key=lambda kv: kv[0].encode("utf-8"))
        return "(dict%s)" % "".join(" (%s %s)" % (hx(a) if a else "-", sexp_of(b)) for a, b in es)
    if k == "e1":
        return "(e1 %s %s)" % (v[1], sexp_of(v[2]))
    return "(struct %s%s)" % (v[1], "".join(" (%s %s)" % (f, sexp_of(x)) for f, x in v[2]))


def perturb(text, rng):
    """Another spelling that should read as the same value (or be rejected by both sides)."""
    out = []
    i = 0
    in_str = False
    while i < len(text):
        c = text[i]
        if in_str:
            out.append(c)
            if c == '\\' and i + 1 < len(text):
                out.append(text[i + 1])
                i += 1
            elif c == '"':
                in_str = False
        elif c == '"':
            in_str = True
            out.append(c)
        elif c in ",[(" and rng.random() < 0.3:
            out.append(c + rng.choice([" ", "\n", "\t ", "  "]))
        elif c in "])" and rng.random() < 0.25:
            out.append(rng.choice([" ", ", ", ",", "\n"]) + c)
        elif c == ' ' and rng.random() < 0.3:
            out.append(rng.choice(["", "  ", "\n"]))
        elif c.isdigit() and rng.random() < 0.1:
            out.append(c + "_")
        else:
            out.append(c)
        i += 1
    t = "".join(out)
    if rng.random() < 0.15:
        t = "(" + t + ")"
    return t


# ------------------------------------------------------------------ running programs
def run_prog(ctx, src):
    """Run a program with the CLI; returns (rc, stdout, stderr) as str (no newline translation)."""
    rc, so, se = ctx.garden(["run", "-c", src], input=b"", timeout=20)
    if isinstance(so, bytes):
        so = so.decode("utf-8", "replace")
    if isinstance(se, bytes):
        se = se.decode("utf-8", "replace")
    return rc, so, se


def print_batch(ctx, exprs):
    """println(string_repr(e)) for each e in one process. Returns a list of lines or None per
    expression; falls back to one process per expression if the batch does not behave."""
    prog = PREAMBLE + "".join("println(string_repr(%s))\n" % e for e in exprs)
    rc, so, se = run_prog(ctx, prog)
    lines = so.split("\n")
    if lines and lines[-1] == "":
        lines.pop()
    if rc == 0 and se == "" and len(lines) == len(exprs):
        return [(l, None) for l in lines]
    if len(exprs) == 1:
        return [(None, {"rc": rc, "stdout": so[-400:], "stderr": se[-600:]})]
    out = []
    for e in exprs:
        out += print_batch(ctx, [e])
    return out


def model_batch(ctx, lines):
    """ctx.model_batch, retrying lines that got no answer (the driver binary is briefly absent
    while another lake build relinks it)."""
    import time
    out = ctx.model_batch(lines)
    for attempt in range(4):
        missing = [i for i, r in enumerate(out) if r is None or r.startswith("DIED")]
        if not missing:
            break
        time.sleep(5 + 10 * attempt)
        again = ctx.model_batch([lines[i] for i in missing])
        for i, r in zip(missing, again):
            out[i] = r
    return out


def chunks(xs, n):
    return [xs[i:i + n] for i in range(0, len(xs), n)]


# ------------------------------------------------------------------ the check
def parse_first_token(resp):
    """(first token text, unclosed-error-at-0?) from a `lex` hook response, or None."""
    if resp is None or not resp.startswith("OK"):
        return None
    m = re.search(r"\(tok ([0-9a-f]*) (\d+):", resp)
    if not m or m.group(2) != "0":
        return ("", "none")
    unclosed = False
    for e in re.finditer(r"\(err ([0-9a-f]*) (\d+):", resp):
        if e.group(2) == "0" and "Unclosed" in unhx(e.group(1)):
            unclosed = True
    return (unhx(m.group(1)), "unclosed" if unclosed else "closed")


def run(ctx):
    rng = ctx.rng
    small = bool(os.environ.get("VERIF_C12_SMALL"))   # reduced bounds, used for mutation testing only
    if small:
        ctx.notes.append("VERIF_C12_SMALL set: reduced bounds (not a claimable run)")
        ctx.scale = lambda q, t: max(1, q // 5)
    maxlen = 3 if small else ctx.scale(4, 5)
    strings = [""]
    for n in range(1, maxlen + 1):
        strings += ["".join(t) for t in itertools.product(ALPHABET, repeat=n)]
    n_exh = len(strings)
    for _ in range(ctx.scale(2000, 40000)):
        n = rng.randint(maxlen + 1, 40)
        pool = ALPHABET + (['\\', '"'] * 3) + [chr(rng.choice([0x62, 0x7f, 0x80, 0x3b1, 0x2028, 0xffff, 0x10ffff, 0x0b, 0x00a0]))]
        strings.append("".join(rng.choice(pool) for _ in range(n)))
    ctx.rule = ("strings: every string of length <= %d over the alphabet {\", \\, LF, TAB, CR, a, n, e-acute, U+1F600, space} "
                "(%d strings) plus random strings of length %d..40; each is used as a value to print, as a raw token body "
                "to unescape and as raw source after an opening quote to lex. Values: random nested literals of depth <= %d "
                "(Int incl. i64 extremes, finite floats incl. 1e21/5e-324/max, strings, lists, tuples incl. 0- and 1-tuples, "
                "dicts, Bool/Unit/Option/Result, user enum and struct values), each written as a user literal, printed, and the "
                "printed text (and perturbed spellings) run again. Non-trivial = a string containing a quote, backslash or "
                "newline / a value of depth >= 1." % (maxlen, n_exh, maxlen + 1, ctx.scale(3, 4)))

    hooks_ok = True
    probe = ctx.garden_batch(["escape 61"], shards=1)
    if not probe or probe[0] != "OK 226122":
        hooks_ok = False
        ctx.notes.append("hook ops `escape`/`unescape` missing in this build (apply patches/strings-hook.diff): "
                         "the escape/unescape correspondence was skipped; lexer correspondence and all oracles ran")
        ctx.log("WARNING: escape/unescape hook ops not available")

    special = lambda s: any(c in s for c in '"\\\n')

    # ---------------- A. correspondence on strings
    if hooks_ok:
        impl = ctx.garden_batch(["escape " + hx(s) for s in strings])
        model = model_batch(ctx, ["c12_escape " + hx(s) for s in strings])
        printed = []
        for s, i, m in zip(strings, impl, model):
            ctx.case(("escape", s), special(s))
            if i != m:
                ctx.disagree("escape_string_literal", {"string_hex": hx(s)}, m, i)
            printed.append(unhx(i[3:]) if i and i.startswith("OK ") else None)
        toks = ['"' + s + '"' for s in strings] + ['"' + s for s in strings[:n_exh]]
        impl = ctx.garden_batch(["unescape " + hx(t) for t in toks])
        model = model_batch(ctx, ["c12_unescape " + hx(t) for t in toks])
        n_diag = 0
        for t, i, m in zip(toks, impl, model):
            ctx.case(("unescape", t), '\\' in t)
            if i != m:
                ctx.disagree("unescape_string", {"token_hex": hx(t)}, m, i)
            if i and not i.endswith(" 0)"):
                n_diag += 1
        ctx.cov["unescape_inputs_with_diagnostics"] = n_diag
        k = len(toks) // 3
        ctx.sample({"op": "unescape " + hx(toks[k]), "impl": impl[k], "model": model[k]})
    else:
        printed = [None] * len(strings)

    srcs = ['"' + s for s in strings]
    impl = ctx.garden_batch(["lex " + hx(t) for t in srcs])
    model = model_batch(ctx, ["c12_strlex " + hx(t) for t in srcs])
    n_lex_skipped = n_unclosed = 0
    lex_disagree = []
    for t, i, m in zip(srcs, impl, model):
        ft = parse_first_token(i)
        if ft is None:
            n_lex_skipped += 1          # the lexer panicked on what follows the string (C01), not comparable
            continue
        ctx.case(("lex", t), '\\' in t or t.count('"') > 1)
        mm = re.match(r"OK \(tok ([0-9a-f]*) (\w+)\)", m or "")
        mt = (unhx(mm.group(1)), mm.group(2)) if mm else None
        if ft[1] == "unclosed":
            n_unclosed += 1
        if mt != ft:
            lex_disagree.append(t)
            ctx.disagree("STRING_RE / string token", {"source_hex": hx(t), "source": t}, m, i)
    ctx.cov["lex_cases_skipped_lexer_panic_after_string"] = n_lex_skipped
    ctx.cov["lex_cases_unclosed"] = n_unclosed
    k = len(srcs) // 3
    ctx.sample({"op": "lex " + hx(srcs[k]), "impl": (impl[k] or "")[:120], "model": model[k]})

    ctx.log("A done: string correspondence (%d strings)" % len(strings))
    # ---------------- B. direct oracle on strings (implementation only)
    conts = ["", ' "b"', ')', ' "', '"x']
    reqs, meta = [], []
    for idx, s in enumerate(strings):
        p = printed[idx] if printed[idx] is not None else py_escape(s)
        for c in (conts if idx < n_exh else conts[:3]):
            reqs.append("lex " + hx(p + c))
            meta.append((s, p, c))
    resp = ctx.garden_batch(reqs)
    bad_strings = []
    for (s, p, c), r in zip(meta, resp):
        ft = parse_first_token(r)
        if ft is None:
            continue
        ctx.case(("readback", s, c), special(s))
        if ft != (p, "closed"):
            bad_strings.append((s, p, c, ft))
    if hooks_ok:
        ps = [p for p in printed if p is not None]
        back = ctx.garden_batch(["unescape " + hx(p) for p in ps])
        for s, p, r in zip([s for s, p in zip(strings, printed) if p is not None], ps, back):
            if r != "OK (unesc %s 0)" % hx(s):
                ctx.fail("C12/unescape-of-printed", "unescape_string(escape_string_literal(s)) is not (s, no diagnostics)",
                         string_hex=hx(s), printed=p, observed=r)
    if bad_strings:
        bad_strings.sort(key=lambda b: (len(b[0]), len(b[2])))
        s, p, c, ft = bad_strings[0]
        prog = "let s = %s println(s) let t = \"b\" println(t)" % p
        rc, so, se = run_prog(ctx, prog)
        ctx.fail("C12/string-literal-readback",
                 "the printed form of a string is not read back as one string token: string_repr gives %r for the "
                 "string %r, but lexing %r gives first token %r (%s); %d of %d (string, continuation) cases fail" % (
                     p, s, p + c, ft[0], ft[1], len(bad_strings), len(reqs)),
                 string_hex=hx(s), printed=p, source=p + c, first_token=ft[0],
                 cli_program=prog, cli_rc=rc, cli_stdout=so[-300:], cli_stderr=se[-600:],
                 replay="garden run -c '%s'" % prog)
    ctx.cov["string_readback_cases"] = len(reqs)

    ctx.log("B done: string oracle")
    # ---------------- C. values: print, compare with the model, run the printed text again
    n_vals = ctx.scale(700, 20000)
    maxd = ctx.scale(3, 4)
    vals = [("str", s) for s in rng.sample(strings[:n_exh], 150) if '\r' not in s or True]
    seeds = [("tuple", []), ("tuple", [("int", 1)]), ("list", []), ("dict", []), ("struct", "Empty", []),
             ("tuple", [("tuple", [("tuple", [])])]), ("e1", "Some", ("e0", "None")),
             ("dict", [("b", ("int", 1)), ("a", ("int", 2)), ("", ("int", 3)), ("a\\", ("int", 4)), ("\u00e9", ("int", 5))]),
             ("int", -9223372036854775808), ("float", 1e21), ("float", -0.0), ("float", 5e-324),
             ("str", "a\\"), ("list", [("str", "x\\"), ("str", "y")]), ("e1", "Err", ("str", "\\")),
             ("struct", "Pt", [("a", ("str", "q\\\\"))])]
    vals += seeds
    while len(vals) < n_vals:
        vals.append(rand_value(rng, rng.randint(1, maxd)))
    srcs = [src_of(v, rng) for v in vals]
    batches = chunks(list(range(len(vals))), 25)

    def do_batch(ix):
        return print_batch(ctx, [srcs[i] for i in ix])
    res1 = [r for b in common.pmap(do_batch, batches, workers=16) for r in b]
    model = model_batch(ctx, ["c12_display " + sexp_of(v) for v in vals])
    printed_vals = []
    n_src_err = 0
    for v, s, (line, err), m in zip(vals, srcs, res1, model):
        ctx.case(("display", s), depth_of(v) >= 1 or (v[0] == "str" and special(v[1])))
        if line is None:
            # the user-style literal itself did not run: for a string this is the same defect seen from the source side
            n_src_err += 1
            printed_vals.append(None)
            if lex_disagree or bad_strings:
                continue
            ctx.fail("C12/literal-does-not-run", "a literal of the fragment does not evaluate", source=s, **err)
            continue
        printed_vals.append(line)
        exp = unhx(m[3:]) if m and m.startswith("OK ") and len(m) > 3 else (m or "")
        if m == "OK ":
            exp = ""
        # floats: the model prints the digits Python finds shortest; when two shortest digit strings
        # exist Rust may pick the other one, so float texts are compared by value (norm_floats)
        if exp != line and norm_floats(exp) != norm_floats(line):
            ctx.disagree("Value::display", {"literal": s, "value": sexp_of(v)}, exp, line)
    ctx.cov["values"] = len(vals)
    ctx.cov["values_depth_ge_2"] = sum(1 for v in vals if depth_of(v) >= 2)
    ctx.cov["literals_that_did_not_run"] = n_src_err
    ctx.sample({"literal": srcs[len(srcs) // 2], "printed": printed_vals[len(srcs) // 2]})
    ctx.sample({"literal": srcs[-1], "printed": printed_vals[-1]})

    # run the printed text: same print again, and equal to the original literal
    idx2 = [i for i, p in enumerate(printed_vals) if p is not None]
    exprs2 = []
    for i in idx2:
        exprs2.append(printed_vals[i])
        if has_kind(vals[i], ("float", "dict")):
            exprs2.append("True")        # `==` on floats/dicts is C13; printed forms are compared instead
        else:
            exprs2.append("%s == %s" % (printed_vals[i], srcs[i]))
    pair_batches = chunks(list(range(0, len(exprs2), 2)), 12)

    def do_batch2(js):
        es = []
        for j in js:
            es += [exprs2[j], exprs2[j + 1]]
        return print_batch(ctx, es)
    res2 = [r for b in common.pmap(do_batch2, pair_batches, workers=16) for r in b]
    for n, i in enumerate(idx2):
        (again, err1), (eq, err2) = res2[2 * n], res2[2 * n + 1]
        v, p = vals[i], printed_vals[i]
        ctx.case(("roundtrip", p), depth_of(v) >= 1 or (v[0] == "str" and special(v[1])))
        key = "C12/string-literal-readback" if has_kind(v, ("str", "dict")) and '\\\\"' in p else "C12/printed-text-readback"
        if again is None:
            ctx.fail(key, "the text printed by string_repr is not a valid program: %r" % p,
                     literal=srcs[i], printed=p, replay="garden run -c '%sprintln(string_repr(%s))'" % (PREAMBLE, p), **err1)
        elif again != p:
            ctx.fail(key, "evaluating the printed text gives a value that prints differently: %r -> %r" % (p, again),
                     literal=srcs[i], printed=p, reprinted=again)
        elif eq != "True":
            ctx.fail("C12/printed-text-not-equal", "the printed text evaluates to a value that is not == the original",
                     literal=srcs[i], printed=p, observed=eq if eq is not None else err2)

    ctx.log("C done: values")
    # ---------------- D. the model's reader vs the implementation, on printed and perturbed texts
    texts = []
    for i in idx2:
        texts.append(printed_vals[i])
        texts.append(perturb(printed_vals[i], rng))
        texts.append(srcs[i])
    texts = [t for t in texts if '\r' not in t]
    texts = texts[:ctx.scale(1500, 40000)]
    mres = model_batch(ctx, ["c12_read " + hx(t) for t in texts])
    sel = [(t, unhx(m[3:]) if len(m) > 3 else "") for t, m in zip(texts, mres) if m and m.startswith("OK") and m != "OK (none)"]
    ctx.cov["reader_texts"] = len(texts)
    ctx.cov["reader_accepted"] = len(sel)

    def do_batch3(ts):
        return print_batch(ctx, [t for t, _ in ts])
    res3 = [r for b in common.pmap(do_batch3, chunks(sel, 25), workers=16) for r in b]
    for (t, exp), (line, err) in zip(sel, res3):
        ctx.case(("read", t), any(c in t for c in "[({"))
        # floats: the model keeps the spelling, the implementation normalises it -> compare modulo float spelling
        if line is None or norm_floats(line) != norm_floats(exp):
            ctx.disagree("reader (lexer+parser+evaluator on a literal)", {"text": t}, exp, line if line is not None else err)

    ctx.log("D done: reader")
    # ---------------- E. floats: the FloatRepr assumption, sampled on the implementation
    fl = [rand_float(rng) for _ in range(ctx.scale(600, 8000))] + [1e21, 1e22, 1e23, 5e-324, 1.7976931348623157e308,
                                                                    -0.0, 0.1, 0.30000000000000004, 1e-7, 123456789.125e42]
    lits = [float_literal(f) for f in fl]
    r1 = [r for b in common.pmap(lambda ls: print_batch(ctx, ls), chunks(lits, 40), workers=16) for r in b]
    p1 = [a for a, _ in r1]
    r2 = [r for b in common.pmap(lambda ls: print_batch(ctx, [l if l is not None else "0.0" for l in ls]),
                                 chunks(p1, 40), workers=16) for r in b]
    for f, lit, a, (b, _) in zip(fl, lits, p1, r2):
        ctx.case(("float", lit), True)
        if a is None or not FLOAT_SHAPE.match(a):
            ctx.fail("C12/float-print-shape", "a finite float does not print as -?digits.digits", literal=lit, printed=a)
        elif float(a) != f or b != a:
            ctx.fail("C12/float-readback", "the printed float does not read back as the same float",
                     literal=lit, printed=a, reprinted=b)
        elif len(a) > len(float_print(f)):
            ctx.disagree("float display (shortest digits, no exponent)", {"literal": lit}, float_print(f), a)
    ctx.cov["floats_sampled"] = len(fl)
    ctx.assumptions += [
        "FloatRepr (Props/C12): a finite f64 prints as -?digits.digits and parses back to itself — Rust's std, "
        "sampled on the implementation (%d floats this run)" % len(fl),
        "the reader model covers the literal fragment only and is conservative (returns none elsewhere); "
        "the evaluator's type checks of struct fields / enum payloads are not modelled (values are well typed)",
        "the REPL prints with the same Value::display (display_unless_unit); only string_repr is exercised",
        "non-finite floats print as inf.0 / NaN.0, which is not valid source: outside the property (finite floats)"]


def norm_floats(s):
    return re.sub(r"(?<![\w.])(-?[0-9][0-9_]*\.[0-9][0-9_]*)",
                  lambda m: float_print(float(m.group(1).replace("_", ""))), s)
