import GardenVerif.Model.BigStep
/-! Helper lemmas for C05: the machine model M4 refines the big-step reference interpreter M5.

`Q` = a machine state of an uninterrupted, unlimited run (`garden run`); `runN` iterates
`Machine.step`; `MS` = "the top frame gets from here to there by `dispatch` steps that stay in
the frame" (sound w.r.t. `Machine.step`: `MS_sound`); `Holds` = the simulation statement for one
expression in an arbitrary frame context (pending entries `K`, values `V`); `sim` = the
simulation lemma, by induction on the big-step fuel. -/
set_option linter.unusedVariables false
set_option linter.unusedSimpArgs false
namespace BigStepLemmas
open Machine BigStep

/-- Machine state of an uninterrupted run without limits (what `Machine.init p [] none none`
starts and every step keeps). -/
def Q (p : Program) (fs : List Frame) (t : Nat) (out : String) : State :=
  { prog := p, frames := fs, ticks := t, out := out, interrupted := false, tickLimit := none,
    stackLimit := none, interruptAt := [], stopAt := none }

/-- `n` iterations of the loop in `eval`. -/
def runN : Nat → State → StepResult
  | 0, s => .cont s
  | n + 1, s => match step s with
    | .cont s' => runN n s'
    | r => r

theorem runN_add (a b : Nat) (s s' : State) (h : runN a s = .cont s') : runN (a + b) s = runN b s' := by
  induction a generalizing s with
  | zero => simp [runN] at h; subst h; simp
  | succ n ih =>
    have : n + 1 + b = (n + b) + 1 := by omega
    rw [this]
    simp only [runN] at h ⊢
    cases hs : step s <;> simp [hs] at h ⊢
    · exact ih _ h

/-- A frame with the given pending entries, values and scopes; the rest from `b`. -/
def F (b : Frame) (K : List (St × Expr)) (V : List Value) (σ : List Block) : Frame :=
  { exprs := K, values := V, blocks := σ, nextBlock := [], callerUses := b.callerUses, kind := b.kind,
    callerId := b.callerId }

/-- The top frame evolves by `dispatch` steps that neither push nor pop a frame. -/
inductive MS (p : Program) : Frame → String → Frame → String → Prop
  | refl (f : Frame) (out : String) : MS p f out f out
  | ok {f : Frame} {st : St} {e : Expr} {rest : List (St × Expr)} {f' g : Frame} {out out' : String} :
      f.exprs = (st, e) :: rest → dispatch p { f with exprs := rest } st e = .ok f' →
      MS p f' out g out' → MS p f out g out'
  | okOut {f : Frame} {st : St} {e : Expr} {rest : List (St × Expr)} {f' g : Frame} {o out out' : String} :
      f.exprs = (st, e) :: rest → dispatch p { f with exprs := rest } st e = .okOut f' o →
      MS p f' (out ++ o) g out' → MS p f out g out'

theorem MS.trans {p : Program} {f g h : Frame} {o1 o2 o3 : String}
    (a : MS p f o1 g o2) (b : MS p g o2 h o3) : MS p f o1 h o3 := by
  induction a with
  | refl => exact b
  | ok he hd _ ih => exact MS.ok he hd (ih b)
  | okOut he hd _ ih => exact MS.okOut he hd (ih b)

/-- One step from an `F`-frame. -/
theorem MS.step1 {p : Program} {b : Frame} {st : St} {e : Expr} {K : List (St × Expr)} {V : List Value}
    {σ : List Block} {f' g : Frame} {out out' : String}
    (hd : dispatch p (F b K V σ) st e = .ok f') (h : MS p f' out g out') :
    MS p (F b ((st, e) :: K) V σ) out g out' :=
  MS.ok (f := F b ((st, e) :: K) V σ) (rest := K) rfl hd h

/-- The step at which `eval` returns `Err(e)`. -/
def MErr (p : Program) (f : Frame) (er : Err) : Prop :=
  ∃ st ex rest f' st' vals, f.exprs = (st, ex) :: rest ∧
    dispatch p { f with exprs := rest } st ex = .err f' st' vals er

theorem step_ok (p : Program) (f f' : Frame) (cs : List Frame) (t : Nat) (out : String) (st : St) (e : Expr)
    (rest : List (St × Expr)) (he : f.exprs = (st, e) :: rest)
    (hd : dispatch p { f with exprs := rest } st e = .ok f') :
    step (Q p (f :: cs) t out) = .cont (Q p (f' :: cs) (t + 1) out) := by
  simp [step, Q, he, limitReached, limitExceeded, hd, stopCheck, setTop]

theorem step_okOut (p : Program) (f f' : Frame) (cs : List Frame) (t : Nat) (out o : String) (st : St) (e : Expr)
    (rest : List (St × Expr)) (he : f.exprs = (st, e) :: rest)
    (hd : dispatch p { f with exprs := rest } st e = .okOut f' o) :
    step (Q p (f :: cs) t out) = .cont (Q p (f' :: cs) (t + 1) (out ++ o)) := by
  simp [step, Q, he, limitReached, limitExceeded, hd, stopCheck, setTop]

theorem step_err (p : Program) (f : Frame) (cs : List Frame) (t : Nat) (out : String) (er : Err)
    (h : MErr p f er) : ∃ s', step (Q p (f :: cs) t out) = .error s' er ∧ s'.out = out := by
  obtain ⟨st, ex, rest, f', st', vals, he, hd⟩ := h
  refine ⟨setTop { (Q p (f :: cs) t out) with ticks := t + 1 } (restore f' st' ex vals), ?_, ?_⟩
  · simp [step, Q, he, limitReached, limitExceeded, hd]
  · simp [setTop, Q]

theorem runN_step_cont (s s' s'' : State) (n : Nat) (h : step s = .cont s') (h2 : runN n s' = .cont s'') :
    runN (n + 1) s = .cont s'' := by
  simp [runN, h, h2]

/-- `MS` is sound for the machine: the same frames are reached by iterating `Machine.step`. -/
theorem MS_sound {p : Program} {f g : Frame} {out out' : String} (h : MS p f out g out') :
    ∀ (cs : List Frame) (t : Nat), ∃ n, runN n (Q p (f :: cs) t out) = .cont (Q p (g :: cs) (t + n) out') := by
  induction h with
  | refl => intro cs t; exact ⟨0, rfl⟩
  | ok he hd _ ih =>
    intro cs t
    obtain ⟨n, hn⟩ := ih cs (t + 1)
    refine ⟨n + 1, ?_⟩
    rw [show t + (n + 1) = t + 1 + n by omega]
    exact runN_step_cont _ _ _ _ (step_ok _ _ _ cs t _ _ _ _ he hd) hn
  | okOut he hd _ ih =>
    intro cs t
    obtain ⟨n, hn⟩ := ih cs (t + 1)
    refine ⟨n + 1, ?_⟩
    rw [show t + (n + 1) = t + 1 + n by omega]
    exact runN_step_cont _ _ _ _ (step_okOut _ _ _ cs t _ _ _ _ _ he hd) hn

/-- Push `v` iff `c`. -/
def pushIf (c : Bool) (v : Value) (V : List Value) : List Value := if c then v :: V else V

theorem F_pushVIf (b : Frame) (K : List (St × Expr)) (V : List Value) (σ : List Block) (c : Bool) (v : Value) :
    (F b K V σ).pushVIf c v = F b K (pushIf c v V) σ := by
  cases c <;> rfl

/-- The simulation statement for ONE expression `e` whose big-step evaluation in scopes `σ` with
output log `out` gave `r`: in any frame with `(N, e)` on top of pending entries `K`, values `V`
and binding blocks `σ`, the machine reaches the frame with `K`, the blocks `r.scopes`, the value
pushed iff `e.used`, and the output log `r.out`; if the big-step result is an error the machine
reaches a step that returns the same error, with the same output log. -/
def Holds (p : Program) (e : Expr) (σ : List Block) (out : String) (r : Res) : Prop :=
  ∀ (b : Frame) (K : List (St × Expr)) (V : List Value),
    match r.outcome with
    | .val v => r.scopes.length = σ.length ∧
        MS p (F b ((St.N, e) :: K) V σ) out (F b K (pushIf e.used v V) r.scopes) r.out
    | .err er => ∃ g, MS p (F b ((St.N, e) :: K) V σ) out g r.out ∧ MErr p g er
    | .brk => False
    | .cont => False
    | .ret _ => False
    | _ => True

mutual
/-- The constructs covered by the simulation lemma proved so far. -/
def covE : Expr → Bool
  | .int .. | .str .. | .var .. | .invalid .. => true
  | .paren _ _ e => covE e
  | _ => false
def covB : List Expr → Bool
  | [] => true
  | e :: rest => covE e && covB rest
end

/-- The induction hypothesis: the evaluator `ev` is simulated on every covered expression. -/
def IH (p : Program) (ev : Ev) : Prop :=
  ∀ (e : Expr) (σ : List Block) (out : String), covE e = true → wfE e = true → Holds p e σ out (ev σ out e)

theorem addNew_length (bs : List Block) (n : String) (v : Value) : (addNew bs n v).length = bs.length := by
  unfold addNew; split
  · rfl
  · cases bs <;> simp

theorem declareAll_length (kvs : List (String × Value)) (bs : List Block) :
    (declareAll bs kvs).length = bs.length := by
  unfold declareAll
  induction kvs generalizing bs with
  | nil => rfl
  | cons x xs ih => simp [List.foldl, ih, addNew_length]

theorem setExisting_length : ∀ (bs bs' : List Block) (n : String) (v : Value),
    setExisting bs n v = some bs' → bs'.length = bs.length
  | [], bs', n, v, h => by simp [setExisting] at h
  | b :: rest, bs', n, v, h => by
      unfold setExisting at h
      split at h
      · cases h; simp
      · simp at h
        obtain ⟨r, hr, h2⟩ := h
        subst h2
        simp [setExisting_length rest r n v hr]

theorem find_any (b : Block) (n : String) :
    (b.find? (fun kv => kv.1 == n)).isSome = b.any (fun kv => kv.1 == n) := by
  induction b with
  | nil => rfl
  | cons x xs ih =>
    simp only [List.find?, List.any]
    cases h : (x.1 == n) <;> simp [h, ih]

/-- Assignment fails exactly when no scope has the variable. -/
theorem setExisting_isSome : ∀ (bs : List Block) (n : String) (v : Value),
    (setExisting bs n v).isSome = (lookupBlocks bs n).isSome
  | [], n, v => rfl
  | b :: rest, n, v => by
      unfold setExisting lookupBlocks
      have hfa := find_any b n
      cases ha : b.any (fun kv => kv.1 == n)
      · rw [ha] at hfa
        cases hf : b.find? (fun kv => kv.1 == n) with
        | some x => simp [hf] at hfa
        | none =>
          simp [ha]
          have := setExisting_isSome rest n v
          cases h1 : setExisting rest n v <;> cases h2 : lookupBlocks rest n <;> simp [h1, h2] at this ⊢
      · rw [ha] at hfa
        cases hf : b.find? (fun kv => kv.1 == n) with
        | none => simp [hf] at hfa
        | some x => simp [ha]

/-- The `E` step of a binary operator does what `BigStep.binop` says. -/
theorem binop_E (p : Program) (b : Frame) (K : List (St × Expr)) (V : List Value) (σ : List Block)
    (id : Nat) (u : Bool) (op : BinOp) (l r : Expr) (lv rv : Value) :
    match BigStep.binop op lv rv with
    | .val v => dispatch p (F b K (rv :: lv :: V) σ) .E (.binop id u op l r) = .ok (F b K (pushIf u v V) σ)
    | .err er => ∃ f' st' vals, dispatch p (F b K (rv :: lv :: V) σ) .E (.binop id u op l r) = .err f' st' vals er
    | _ => True := by
  cases op <;> simp only [BigStep.binop, dispatch, Expr.used] <;>
    (try (repeat' split)) <;> simp_all [F_pushVIf, F, Frame.pushVIf, Frame.pushV, pushIf] <;>
    (try (cases u <;> simp_all))

/-- Evaluate a used sub-expression on top of the pending entries `K'`. -/
theorem Holds.use {p : Program} {e : Expr} {σ : List Block} {out : String} {r : Res}
    (h : Holds p e σ out r) (hu : e.used = true) (b : Frame) (K : List (St × Expr)) (V : List Value) :
    match r.outcome with
    | .val v => r.scopes.length = σ.length ∧ MS p (F b ((St.N, e) :: K) V σ) out (F b K (v :: V) r.scopes) r.out
    | .err er => ∃ g, MS p (F b ((St.N, e) :: K) V σ) out g r.out ∧ MErr p g er
    | .brk => False | .cont => False | .ret _ => False
    | _ => True := by
  have := h b K V
  simp only [hu, pushIf] at this
  exact this

theorem sim_succ (ap : Ap) (p : Program) (n : Nat) (ih : IH p (evalWith ap p n)) : IH p (evalWith ap p (n + 1)) := by
  intro e σ out hc hw
  cases e <;> (try simp [covE] at hc)
  case int id u v =>
    intro b K V
    simp only [evalWith]
    exact ⟨by simp, MS.step1 (by simp [dispatch, F_pushVIf, Expr.used]) (MS.refl _ _)⟩
  case str id u t =>
    intro b K V
    simp only [evalWith]
    exact ⟨by simp, MS.step1 (by simp [dispatch, F_pushVIf, Expr.used]) (MS.refl _ _)⟩
  case invalid id u =>
    intro b K V
    simp only [evalWith]
    exact ⟨_, MS.refl _ _, ⟨.N, _, K, _, _, _, rfl, by simp [dispatch]; exact ⟨rfl, rfl, rfl⟩⟩⟩
  case var id u name =>
    intro b K V
    simp only [evalWith, lookupVar]
    cases hl : lookupBlocks σ name with
    | some v =>
      simp only
      exact ⟨by simp, MS.step1 (by simp [dispatch, getVar, F, hl, Frame.pushVIf, Frame.pushV, pushIf, Expr.used]; cases u <;> rfl) (MS.refl _ _)⟩
    | none =>
      simp only
      cases hn : nsLookup p name with
      | some v =>
        simp only
        exact ⟨by simp, MS.step1 (by simp [dispatch, getVar, F, hl, hn, Frame.pushVIf, Frame.pushV, pushIf, Expr.used]; cases u <;> rfl) (MS.refl _ _)⟩
      | none =>
        simp only
        exact ⟨_, MS.refl _ _, ⟨.N, _, K, _, _, _, rfl, by simp [dispatch, getVar, F, hl, hn]; exact ⟨rfl, rfl, rfl⟩⟩⟩
  case paren id u inner =>
    simp only [wfE, Bool.and_eq_true, beq_iff_eq] at hw
    obtain ⟨hu, hw2⟩ := hw
    subst hu
    intro b K V
    simp only [evalWith]
    have h := ih inner σ out hc hw2 b K V
    have hd : dispatch p (F b K V σ) .N (.paren id inner.used inner) = .ok (F b ((.N, inner) :: K) V σ) := by
      simp [dispatch, Frame.pushE, F]
    revert h
    cases (evalWith ap p n σ out inner).outcome <;> dsimp only <;> intro h
    all_goals first
      | exact ⟨h.1, MS.step1 hd h.2⟩
      | exact h
      | (obtain ⟨g, h1, h2⟩ := h; exact ⟨g, MS.step1 hd h1, h2⟩)

theorem sim (ap : Ap) (p : Program) : ∀ n, IH p (evalWith ap p n)
  | 0 => by
    intro e σ out hc hw b K V
    simp [evalWith]
  | n + 1 => sim_succ ap p n (sim ap p n)

theorem step_done (p : Program) (f : Frame) (v : Value) (vs : List Value) (t : Nat) (out : String)
    (he : f.exprs = []) (hv : f.values = v :: vs) :
    step (Q p [f] t out) = .done (setTop (Q p [f] t out) { f with values := vs }) v := by
  simp [step, Q, he, hv]

theorem runN_last (s s' : State) (n : Nat) (r : StepResult) (h : runN n s = .cont s') (hr : step s' = r)
    (hnc : ∀ x, r ≠ .cont x) : runN (n + 1) s = r := by
  rw [runN_add n 1 _ _ h]
  cases r <;> simp_all [runN]

theorem finish_done (p : Program) (s0 : State) (b : Frame) (n t : Nat) (v : Value) (V' : List Value)
    (σ' : List Block) (out' : String)
    (hn : runN n s0 = .cont (Q p [F b [] (v :: V') σ'] t out')) :
    ∃ m s, runN m s0 = .done s v ∧ s.out = out' := by
  have hd := step_done p (F b [] (v :: V') σ') v V' t out' rfl rfl
  exact ⟨n + 1, _, runN_last _ _ n _ hn hd (by intro x; simp), by simp [setTop, Q]⟩

/-- Toplevel expressions (all used): the values pile up on the value stack, the last one on top. -/
theorem sim_top (p : Program) (ev : Ev) (ih : IH p ev) (b : Frame) :
    ∀ (es : List Expr) (last : Value) (σ : List Block) (out : String) (V : List Value),
      covB es = true → wfAll es = true →
      match (evalSeq ev last es σ out).outcome with
      | .val v => ∃ V', MS p (F b (es.map (fun e => (St.N, e))) (last :: V) σ) out
                    (F b [] (v :: V') (evalSeq ev last es σ out).scopes) (evalSeq ev last es σ out).out
      | .err er => ∃ g, MS p (F b (es.map (fun e => (St.N, e))) (last :: V) σ) out g (evalSeq ev last es σ out).out ∧ MErr p g er
      | .brk => False | .cont => False | .ret _ => False
      | _ => True
  | [], last, σ, out, V, _, _ => by
      simp only [evalSeq, List.map]
      exact ⟨V, MS.refl _ _⟩
  | e :: rest, last, σ, out, V, hc, hw => by
      simp only [covB, wfAll, Bool.and_eq_true] at hc hw
      have h := (ih e σ out hc.1 hw.1.2).use hw.1.1 b (rest.map (fun e => (St.N, e))) (last :: V)
      simp only [evalSeq, List.map]
      revert h
      cases hr : (ev σ out e).outcome <;> dsimp only <;> intro h
      case val v =>
        have h2 := sim_top p ev ih b rest v (ev σ out e).scopes (ev σ out e).out (last :: V) hc.2 hw.2
        revert h2
        cases (evalSeq ev v rest (ev σ out e).scopes (ev σ out e).out).outcome <;> dsimp only <;> intro h2
        all_goals first
          | exact h2
          | (obtain ⟨V', h3⟩ := h2; exact ⟨V', h.2.trans h3⟩)
          | (obtain ⟨g, h3, h4⟩ := h2; exact ⟨g, h.2.trans h3, h4⟩)
      all_goals first
        | exact h
        | (rw [hr]; exact h)
        | (simp only [hr]; exact h)

end BigStepLemmas
