import GardenVerif.Driver.Sexp
import GardenVerif.Driver.Machine
import GardenVerif.Driver.TestRunner
import GardenVerif.Model.EvalUpTo
/-! Driver op for eval-up-to: `evalupto_model <id> <fuel> <trace|notrace> <items sexpr…>`:
what `garden reftest-eval-up-to` does once the observed node `id` is known: run the whole file
(tests, then toplevel expressions), then `EvalUpTo.evalUpToTest` / `evalUpToExprs` on the item that
contains the node. Answers in the format of the `evalupto` hook op (src/verif_runner.rs). -/

namespace DriverEvalUpTo
open Machine TestRunner EvalUpTo DriverMachine DriverTestRunner

mutual
partial def flagsOf : Expr → List String
  | .int i u _ | .str i u _ | .var i u _ | .brk i u | .cont i u | .invalid i u | .unsup i u _ | .ret i u none => [s!"{i}:{u}"]
  | .ret i u (some x) | .letE i u _ x | .assign i u _ x | .update i u _ _ x | .paren i u x => s!"{i}:{u}" :: flagsOf x
  | .binop i u _ l r => s!"{i}:{u}" :: (flagsOf l ++ flagsOf r)
  | .ifE i u c t e => s!"{i}:{u}" :: (flagsOf c ++ flagsList t ++ (match e with | some b => flagsList b | none => []))
  | .whileE i u c b => s!"{i}:{u}" :: (flagsOf c ++ flagsList b)
  | .forE i u _ x b => s!"{i}:{u}" :: (flagsOf x ++ flagsList b)
  | .matchE i u s cs => s!"{i}:{u}" :: (flagsOf s ++ (cs.map fun | .mk _ _ b => flagsList b).flatten)
  | .list i u xs | .tuple i u xs => s!"{i}:{u}" :: flagsList xs
  | .call i u r xs => s!"{i}:{u}" :: (flagsOf r ++ flagsList xs)
  | .lambda i u _ b => s!"{i}:{u}" :: flagsList b
partial def flagsList (xs : List Expr) : List String := (xs.map flagsOf).flatten
end

/-- The loop of `eval` with trace lines (as in Driver/TestRunner). -/
def traceRun (fuel : Nat) (s : State) : Array String := (traceEval fuel s #[]).2

def allExprs (items : List Item) : List Expr :=
  (items.map fun | .expr e => [e] | .block es => es | _ => []).flatten

def answerShort (p : Program) : Answer → String
  | .value v => s!"(value {valueShort v} {Hex.encode (display p v)})"
  | .error e => s!"(error {e.toString})"
  | .panic site => s!"(panic {Hex.encode site})"
  | .unsupported w => s!"(unsupported {Hex.encode w})"
  | .outOfFuel => "(out-of-fuel)"

def handle (op : String) (rest : String) : Option String :=
  if op != "evalupto_model" then none else
  match rest.splitOn " " with
  | ids :: fuel :: wantT :: sexpParts =>
    match parseItems sexpParts, ids.toNat? with
    | .error e, _ => some e
    | _, none => some "ERR bad-id"
    | .ok parsed, some id =>
      match parsed.unsupported with
      | some w => some s!"OK (evalupto (unsupported {Hex.encode w}))"
      | none =>
        let fuelN := fuel.toNat?.getD 200000
        let s0 := baseState parsed.prog none none
        -- phase 1: `eval_toplevel_items` on the whole file
        match runTests fuelN s0 (tests parsed) with
        | .crashed _ site => some s!"OK (evalupto (first (panic {Hex.encode site})))"
        | .unknown _ why => some s!"OK (evalupto (unknown {Hex.encode why}))"
        | .finished _ s1 =>
          let exprs := allExprs parsed.items
          let r1 : RunResult := match s1.frames with
            | f :: rest =>
              if exprs.isEmpty then .done s1 vUnit
              else evalWith dispatchX fuelN { s1 with frames := { f with exprs := exprs.map fun e => (St.N, e) } :: rest }
            | [] => .panic "Stack should always be non-empty."
          match r1 with
          | .error _ e => some s!"OK (evalupto (first (err {e.toString})))"
          | .done s2 _ =>
            let firstTicks := s2.ticks
            let out1 := s2.out
            let item := parsed.items.find? fun
              | .test t => (findList id t.body).isSome
              | .expr e => (findExpr id e).isSome
              | .block es => (findList id es).isSome
              | .other => false
            let wantTrace := wantT != "notrace"
            let fin (a : Answer) (s' : Option State) (tr : Array String) (flags : List String) : String :=
              let endS := match s' with | some s => endState { s with ticks := s.ticks - firstTicks } | none => "(end none)"
              let out2 := match s' with | some s => (s.out.drop out1.length).toString | none => ""
              s!"OK (evalupto (first ok) (firstticks {firstTicks}) (id {id}) {answerShort parsed.prog a} {endS} (out2 {Hex.encode out2}) (flags {",".intercalate flags}) (trace {Hex.encode ("\n".intercalate tr.toList)}))"
            match item with
            | some (.test t) =>
              let (a, s') := evalUpToTest fuelN s2 t id
              let tr := if wantTrace then
                  traceRun fuelN (pushTestFrame { s2 with stopAt := some id } { t with body := markUsedList id t.body })
                else #[]
              some (fin a s' tr (flagsList (markUsedList id t.body)))
            | some (.expr e) =>
              let (a, s') := evalUpToExprs fuelN s2 [e] id
              let tr := if wantTrace then
                  (match s2.frames with
                   | f :: rest => traceRun fuelN { s2 with stopAt := some id, frames := { f with exprs := (markUsedList id [e]).map fun x => (St.N, x) } :: rest }
                   | [] => #[])
                else #[]
              some (fin a s' tr (flagsList (markUsedList id [e])))
            | some (.block es) =>
              let (a, s') := evalUpToExprs fuelN s2 es id
              let tr := if wantTrace then
                  (match s2.frames with
                   | f :: rest => traceRun fuelN { s2 with stopAt := some id, frames := { f with exprs := (markUsedList id es).map fun x => (St.N, x) } :: rest }
                   | [] => #[])
                else #[]
              some (fin a s' tr (flagsList (markUsedList id es)))
            | _ => some "OK (evalupto (noitem))"
          | .panic site => some s!"OK (evalupto (first (panic {Hex.encode site})))"
          | .unsupported w => some s!"OK (evalupto (unsupported {Hex.encode w}))"
          | .outOfFuel _ => some "OK (evalupto (unknown out-of-fuel))"
  | _ => some "ERR args"

end DriverEvalUpTo
