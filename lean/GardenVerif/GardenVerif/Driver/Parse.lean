import GardenVerif.Driver.Sexp
import GardenVerif.Model.Parse
import GardenVerif.Model.Print
/-!
Driver ops for M2.

* `parse_tokens <output of the hook's lex op>` / `parse_tokens_pinned …` (pre-repair parser):
  the real lexer's `(tok <hex text> start:end:line:endline:col:endcol …)` list →
  `OK (parse (items …) (diags invalid|incomplete …))`, `PANIC s:<hex site>`, `ERR fuel`.
* `print_tree <item sexprs>` → `OK s:<hex source text>`.
* `print_tokens <item sexprs>` → `OK (tok <hex text> touch|sep <line>) …` = `Print.lexOf 0 (printItems …)`.
* `print_expr <expr sexpr>` → `OK s:<hex source>` (one expression, first token at offset 0).

Tree format: DESIGN.md Appendix E without the `#n` preorder tags (position-, id- and
use-flag-free): see `ofExpr`.
-/

namespace DriverParse
open Parse

def hexAtom (s : String) : Sexp := .atom ("s:" ++ Hex.encode s)

def unhexAtom (a : String) : Option String :=
  if a.startsWith "s:" then Hex.decode (a.drop 2).toString else none

def intAtom (i : Int) : Sexp := .atom ("i:" ++ toString i)

def parseIntAtom (a : String) : Option Int :=
  if a.startsWith "i:" then (a.drop 2).toString.toInt? else none

/-! ### trees → S-expressions -/

partial def ofHint : TypeHint → Sexp
  | .mk n args => .list (.atom "hint" :: .atom n :: args.map ofHint)

def ofHintOpt : Option TypeHint → Sexp
  | none => .atom "nohint"
  | some h => ofHint h

def ofDest : LetDest → Sexp
  | .sym x => .list [.atom "sym", .atom x]
  | .destr xs => .list (.atom "destr" :: xs.map .atom)

def ofParam (p : Param) : Sexp := .list [.atom "p", .atom p.name, ofHintOpt p.hint]

mutual
partial def ofExpr : Expr → Sexp
  | .intLit i => .list [.atom "int", intAtom i]
  | .floatLit s => .list [.atom "float", hexAtom s]
  | .strLit s => .list [.atom "str", hexAtom s]
  | .var x => .list [.atom "var", .atom x]
  | .binop l op r => .list [.atom "binop", .atom op, ofExpr l, ofExpr r]
  | .call f args => .list (.atom "call" :: ofExpr f :: args.map ofExpr)
  | .mcall r m args => .list (.atom "mcall" :: ofExpr r :: .atom m :: args.map ofExpr)
  | .dot r f => .list [.atom "dot", ofExpr r, .atom f]
  | .ns r f => .list [.atom "ns", ofExpr r, .atom f]
  | .letE d h e => .list [.atom "let", ofDest d, ofHintOpt h, ofExpr e]
  | .assign x e => .list [.atom "assign", .atom x, ofExpr e]
  | .update op x e => .list [.atom "update", .atom op, .atom x, ofExpr e]
  | .ifE c t e => .list [.atom "if", ofExpr c, ofBlock t,
      match e with | none => .atom "noelse" | some b => ofBlock b]
  | .whileE c b => .list [.atom "while", ofExpr c, ofBlock b]
  | .forIn d e b => .list [.atom "for", ofDest d, ofExpr e, ofBlock b]
  | .matchE s cases => .list (.atom "match" :: ofExpr s :: cases.map fun
      | .mk p b => .list [.atom "case", .atom p.variant,
          (match p.payload with | none => .atom "nodest" | some d => ofDest d), ofBlock b])
  | .tryE b x c => .list [.atom "try", ofBlock b, .atom x, ofBlock c]
  | .ret none => .list [.atom "return", .atom "none"]
  | .ret (some e) => .list [.atom "return", ofExpr e]
  | .brk => .list [.atom "break"]
  | .cont => .list [.atom "continue"]
  | .list items => .list (.atom "list" :: items.map ofExpr)
  | .tuple items => .list (.atom "tuple" :: items.map ofExpr)
  | .dict items => .list (.atom "dict" :: items.map fun | .mk k v => .list [.atom "kv", ofExpr k, ofExpr v])
  | .structLit n fs => .list (.atom "structlit" :: .atom n :: fs.map fun
      | .mk f e => .list [.atom "field", .atom f, ofExpr e])
  | .lambda f => .list (.atom "lambda" :: ofFun f)
  | .assertE e => .list [.atom "assert", ofExpr e]
  | .paren e => .list [.atom "paren", ofExpr e]
  | .invalid => .list [.atom "invalid"]
partial def ofBlock : Block → Sexp
  | .mk es => .list (.atom "block" :: es.map ofExpr)
partial def ofFun : FunInfo → List Sexp
  | .mk tps ps r body =>
    [.list (.atom "tparams" :: tps.map .atom), .list (.atom "params" :: ps.map ofParam), ofHintOpt r, ofBlock body]
end

def vis (pub : Bool) : Sexp := .atom (if pub then "pub" else "priv")

def ofItem : Item → Sexp
  | .func pub name f => .list (.atom "fun" :: vis pub :: .atom name :: ofFun f)
  | .method pub name recv rh f =>
      .list (.atom "method" :: vis pub :: .atom name :: .list [.atom "recv", .atom recv, ofHint rh] :: ofFun f)
  | .test name body => .list [.atom "test", .atom name, ofBlock body]
  | .enum pub name tps vs => .list (.atom "enum" :: vis pub :: .atom name :: .list (.atom "tparams" :: tps.map .atom) ::
      vs.map fun v => .list [.atom "variant", .atom v.name, ofHintOpt v.payload])
  | .struct pub name tps fs => .list (.atom "struct" :: vis pub :: .atom name :: .list (.atom "tparams" :: tps.map .atom) ::
      fs.map fun f => .list [.atom "field", .atom f.name, ofHint f.hint])
  | .importI path a => .list [.atom "import", hexAtom path,
      match a with | none => .atom "noalias" | some x => .list [.atom "alias", .atom x]]
  | .expr e => .list [.atom "expr", ofExpr e]
  | .block b => ofBlock b

/-! ### S-expressions → trees -/

def atomOf : Sexp → Option String
  | .atom s => some s
  | _ => none

partial def toHint : Sexp → Option TypeHint
  | .list (.atom "hint" :: .atom n :: args) => (args.mapM toHint).map (.mk n)
  | _ => none

def toHintOpt : Sexp → Option (Option TypeHint)
  | .atom "nohint" => some none
  | s => (toHint s).map some

def toDest : Sexp → Option LetDest
  | .list [.atom "sym", .atom x] => some (.sym x)
  | .list (.atom "destr" :: xs) => (xs.mapM atomOf).map .destr
  | _ => none

def toParam : Sexp → Option Param
  | .list [.atom "p", .atom x, h] => (toHintOpt h).map fun h => ⟨x, h⟩
  | _ => none

mutual
partial def toExpr : Sexp → Option Expr
  | .list [.atom "int", .atom a] => (parseIntAtom a).map .intLit
  | .list [.atom "float", .atom a] => (unhexAtom a).map .floatLit
  | .list [.atom "str", .atom a] => (unhexAtom a).map .strLit
  | .list [.atom "var", .atom x] => some (.var x)
  | .list [.atom "binop", .atom op, l, r] => do some (.binop (← toExpr l) op (← toExpr r))
  | .list (.atom "call" :: f :: args) => do some (.call (← toExpr f) (← args.mapM toExpr))
  | .list (.atom "mcall" :: r :: .atom m :: args) => do some (.mcall (← toExpr r) m (← args.mapM toExpr))
  | .list [.atom "dot", r, .atom f] => do some (.dot (← toExpr r) f)
  | .list [.atom "ns", r, .atom f] => do some (.ns (← toExpr r) f)
  | .list [.atom "let", d, h, e] => do some (.letE (← toDest d) (← toHintOpt h) (← toExpr e))
  | .list [.atom "assign", .atom x, e] => do some (.assign x (← toExpr e))
  | .list [.atom "update", .atom op, .atom x, e] => do some (.update op x (← toExpr e))
  | .list [.atom "if", c, t, .atom "noelse"] => do some (.ifE (← toExpr c) (← toBlock t) none)
  | .list [.atom "if", c, t, e] => do some (.ifE (← toExpr c) (← toBlock t) (some (← toBlock e)))
  | .list [.atom "while", c, b] => do some (.whileE (← toExpr c) (← toBlock b))
  | .list [.atom "for", d, e, b] => do some (.forIn (← toDest d) (← toExpr e) (← toBlock b))
  | .list (.atom "match" :: s :: cases) => do
      let cs ← cases.mapM fun
        | .list [.atom "case", .atom v, .atom "nodest", b] => do some (Case.mk ⟨v, none⟩ (← toBlock b))
        | .list [.atom "case", .atom v, d, b] => do some (Case.mk ⟨v, some (← toDest d)⟩ (← toBlock b))
        | _ => none
      some (.matchE (← toExpr s) cs)
  | .list [.atom "try", b, .atom x, c] => do some (.tryE (← toBlock b) x (← toBlock c))
  | .list [.atom "return", .atom "none"] => some (.ret none)
  | .list [.atom "return", e] => do some (.ret (some (← toExpr e)))
  | .list [.atom "break"] => some .brk
  | .list [.atom "continue"] => some .cont
  | .list (.atom "list" :: items) => do some (.list (← items.mapM toExpr))
  | .list (.atom "tuple" :: items) => do some (.tuple (← items.mapM toExpr))
  | .list (.atom "dict" :: items) => do
      let kvs ← items.mapM fun
        | .list [.atom "kv", k, v] => do some (KV.mk (← toExpr k) (← toExpr v))
        | _ => none
      some (.dict kvs)
  | .list (.atom "structlit" :: .atom n :: fs) => do
      let fs ← fs.mapM fun
        | .list [.atom "field", .atom f, e] => do some (Field.mk f (← toExpr e))
        | _ => none
      some (.structLit n fs)
  | .list (.atom "lambda" :: rest) => do some (.lambda (← toFun rest))
  | .list [.atom "assert", e] => do some (.assertE (← toExpr e))
  | .list [.atom "paren", e] => do some (.paren (← toExpr e))
  | .list [.atom "invalid"] => some .invalid
  | _ => none
partial def toBlock : Sexp → Option Block
  | .list (.atom "block" :: es) => do some (.mk (← es.mapM toExpr))
  | _ => none
partial def toFun : List Sexp → Option FunInfo
  | [.list (.atom "tparams" :: tps), .list (.atom "params" :: ps), r, body] => do
      some (.mk (← tps.mapM atomOf) (← ps.mapM toParam) (← toHintOpt r) (← toBlock body))
  | _ => none
end

def toVis : Sexp → Option Bool
  | .atom "pub" => some true
  | .atom "priv" => some false
  | _ => none

def toTParams : Sexp → Option (List String)
  | .list (.atom "tparams" :: tps) => tps.mapM atomOf
  | _ => none

def toItem : Sexp → Option Item
  | .list (.atom "fun" :: v :: .atom name :: rest) => do some (.func (← toVis v) name (← toFun rest))
  | .list (.atom "method" :: v :: .atom name :: .list [.atom "recv", .atom recv, rh] :: rest) => do
      some (.method (← toVis v) name recv (← toHint rh) (← toFun rest))
  | .list [.atom "test", .atom name, body] => do some (.test name (← toBlock body))
  | .list (.atom "enum" :: v :: .atom name :: tps :: vs) => do
      let vs ← vs.mapM fun
        | .list [.atom "variant", .atom n, h] => do some (⟨n, ← toHintOpt h⟩ : Variant)
        | _ => none
      some (.enum (← toVis v) name (← toTParams tps) vs)
  | .list (.atom "struct" :: v :: .atom name :: tps :: fs) => do
      let fs ← fs.mapM fun
        | .list [.atom "field", .atom n, h] => do some (⟨n, ← toHint h⟩ : StructField)
        | _ => none
      some (.struct (← toVis v) name (← toTParams tps) fs)
  | .list [.atom "import", .atom p, .atom "noalias"] => do some (.importI (← unhexAtom p) none)
  | .list [.atom "import", .atom p, .list [.atom "alias", .atom a]] => do some (.importI (← unhexAtom p) (some a))
  | .list [.atom "expr", e] => do some (.expr (← toExpr e))
  | s@(.list (.atom "block" :: _)) => do some (.block (← toBlock s))
  | _ => none

/-! ### tokens -/

def parsePosAtom (a : String) : Option (Nat × Nat × Nat × Nat) :=
  match (a.splitOn ":").map String.toNat? with
  | [some s, some e, some l, some el, _, _] => some (s, e, l, el)
  | _ => none

/-- `(tok hex s:e:l:el:c:ec …)` items → model tokens; other items (`trail`, `err`) are skipped. -/
def toToks (items : List Sexp) : Option (List Tok) :=
  let rec go : List Sexp → Nat → List Tok → Option (List Tok)
    | [], _, acc => some acc.reverse
    | .list (.atom "tok" :: .atom h :: .atom p :: _) :: rest, prevEnd, acc =>
      match Hex.decode h, parsePosAtom p with
      | some text, some (s, e, l, el) => go rest e (⟨text, s == prevEnd, l, el⟩ :: acc)
      | _, _ => none
    | _ :: rest, prevEnd, acc => go rest prevEnd acc
  go items 0 []

def diagAtom : DiagKind → Sexp
  | .invalid => .atom "invalid"
  | .incomplete => .atom "incomplete"

def runParse (pinned : Bool) (rest : String) : String :=
  match Sexp.parseAll rest with
  | none => "ERR sexp"
  | some items =>
    match toToks items with
    | none => "ERR tokens"
    | some toks =>
      match parseItemsCfg pinned (defaultFuel toks) toks with
      | .ok items s =>
        "OK " ++ (Sexp.list [.atom "parse", .list (.atom "items" :: items.map ofItem),
                             .list (.atom "diags" :: s.diags.map diagAtom)]).toString
      | .panic site => "PANIC s:" ++ Hex.encode site
      | .outOfFuel => "ERR fuel"

def ptokSexp : Tok → Sexp
  | t => .list [.atom "tok", .atom (Hex.encode t.text), .atom (if t.touchesPrev then "touch" else "sep"),
                .atom (toString t.line)]

def handle (op rest : String) : Option String :=
  if op == "parse_tokens" then some (runParse false rest)
  else if op == "parse_tokens_pinned" then some (runParse true rest)
  else if op == "print_tree" || op == "print_tokens" then
    match Sexp.parseAll rest with
    | none => some "ERR sexp"
    | some ss =>
      match ss.mapM toItem with
      | none => some "ERR tree"
      | some items =>
        let ps := Print.printItems items
        if op == "print_tree" then some ("OK s:" ++ Hex.encode (Print.render ps))
        else some ("OK " ++ " ".intercalate ((Print.lexOf 0 ps).map fun t => (ptokSexp t).toString))
  else if op == "print_expr" then
    match Sexp.parseAll rest with
    | some [s] =>
      match toExpr s with
      | some e => some ("OK s:" ++ Hex.encode (Print.render (Print.printExpr true e)))
      | none => some "ERR tree"
    | _ => some "ERR sexp"
  else none

end DriverParse
