import GardenVerif.Lemmas.Lex
/-!
# C23 — reported source positions are consistent

`Lex.Consistent src pos` (Lemmas/Lex.lean) is the property for one position of the text `src`:
there are two prefixes `p1 <+: p2 <+: src` of the *character* sequence with

* `pos.start = bytes p1`, `pos.stop = bytes p2` — both offsets are character boundaries, and
  `start ≤ stop ≤ |src|` (`consistent_bounds`);
* `pos.line = p1.count '\n'`, `pos.col = bytes (lastLine p1)` — the zero-based line is the number
  of newlines before the start offset, the column is the number of BYTES between the line start
  (the offset just after the last newline before `start`, `lineStart_spec`) and `start`;
* `pos.endLine = p2.count '\n'`, `pos.endCol = bytes (lastLine p2)` — likewise for the end offset:
  "the end line is the line containing the end offset".

Model: `Lex.lex` = `lex_between` of src/parser/lex.rs with the fix patches `lex-fix-nonascii` and
`lex-fix-endline` (end line/column from `lp.from_offset(end_offset)`), `LinePositions::from_offset`
of the line-numbers crate, `Position::merge` / `merge_token` of src/parser/position.rs. Every
position the parser builds is a token/comment position or a `merge` of positions, so
`merge_consistent` carries consistency to every AST node position.
The pinned tree violates the property (`pinned_token_end_line_wrong`).
-/
set_option linter.unusedVariables false

namespace C23
open Lex

/-- `start ≤ stop ≤ |src|` for a consistent position. -/
theorem consistent_bounds {src : List Char} {pos : Pos} (h : Consistent src pos) :
    pos.start ≤ pos.stop ∧ pos.stop ≤ bytes src := by
  obtain ⟨p1, p2, h12, h2, rfl⟩ := h
  exact ⟨bytes_le_of_prefix h12, bytes_le_of_prefix h2⟩

/-- What `lastLine` (used for columns) is: `p` splits into a front that is empty or ends with a
newline, and a newline-free `lastLine p`; so `colOf p = bytes p - (line start)`. -/
theorem lineStart_spec (p : List Char) :
    ∃ front, p = front ++ lastLine p ∧ '\n' ∉ lastLine p ∧
      (front = [] ∨ front.getLast? = some '\n') ∧ colOf p = bytes p - bytes front := by
  suffices h : ∀ r : List Char, ∃ front, r.reverse = front ++ lastLine r.reverse ∧
      '\n' ∉ lastLine r.reverse ∧ (front = [] ∨ front.getLast? = some '\n') by
    obtain ⟨front, h1, h2, h3⟩ := h p.reverse
    simp only [List.reverse_reverse] at h1 h2 h3
    refine ⟨front, h1, h2, h3, ?_⟩
    have : bytes p = bytes front + bytes (lastLine p) := by
      conv => lhs; rw [h1]
      simp
    simp only [colOf]; omega
  intro r
  induction r with
  | nil => exact ⟨[], by simp [lastLine], by simp [lastLine], Or.inl rfl⟩
  | cons c cs ih =>
    obtain ⟨front, h1, h2, h3⟩ := ih
    simp only [List.reverse_cons, lastLine_snoc]
    by_cases hc : c = '\n'
    · subst hc
      refine ⟨cs.reverse ++ ['\n'], by simp, by simp, Or.inr (by simp)⟩
    · simp only [hc, if_false]
      refine ⟨front, ?_, ?_, h3⟩
      · rw [← List.append_assoc, ← h1]
      · simp only [List.mem_append, List.mem_singleton, not_or]
        exact ⟨h2, fun e => hc e.symm⟩

/-- Every token position is consistent. -/
theorem token_pos_consistent (T : LexTables) (hT : T.wf = true) (src : List Char) (strAny : Bool) :
    ∀ tok ∈ (lex T src strAny).tokens, Consistent src tok.pos := by
  obtain ⟨toks, _, _, h, htoks, _⟩ := lex_ok hT src strAny
  rw [h]
  intro tok htok
  exact (htoks tok htok).1.consistent

/-- Every comment position (attached to a token, or trailing) is consistent. -/
theorem comment_pos_consistent (T : LexTables) (hT : T.wf = true) (src : List Char) (strAny : Bool) :
    (∀ tok ∈ (lex T src strAny).tokens, ∀ c ∈ tok.comments, Consistent src c.1) ∧
    (∀ c ∈ (lex T src strAny).trailing, Consistent src c.1) := by
  obtain ⟨toks, _, _, h, htoks, htr, _⟩ := lex_ok hT src strAny
  rw [h]
  exact ⟨fun tok htok => (htoks tok htok).2, htr⟩

/-- Every lex-error position (unclosed string, unrecognised syntax) is consistent. -/
theorem lex_error_pos_consistent (T : LexTables) (hT : T.wf = true) (src : List Char) (strAny : Bool) :
    ∀ e ∈ (lex T src strAny).errors, Consistent src e.pos := by
  obtain ⟨toks, _, _, h, _, _, herr⟩ := lex_ok hT src strAny
  rw [h]
  exact herr

/-- `Position::merge` of two consistent positions of the same text is consistent (whatever
their order; the parser always calls it with `first.start ≤ second.start`). -/
theorem merge_consistent (src : List Char) (first second : Pos)
    (h1 : Consistent src first) (h2 : Consistent src second) :
    Consistent src (Pos.merge first second) := merge_consistent_aux h1 h2

/-- `Position::merge_token` (start at the token's first doc comment, if any). -/
theorem merge_token_consistent (T : LexTables) (hT : T.wf = true) (src : List Char)
    (tok : Token) (htok : tok ∈ (lex T src strAny).tokens) (second : Pos) (h2 : Consistent src second) :
    Consistent src (Pos.mergeToken tok second) := by
  unfold Pos.mergeToken
  split
  · rename_i p c rest hc
    have := (comment_pos_consistent T hT src strAny).1 tok htok (p, c) (by rw [hc]; simp)
    exact merge_consistent_aux this h2
  · exact merge_consistent_aux (token_pos_consistent T hT src strAny tok htok) h2

/-- Non-vacuity: `é "a⏎ü" x // c` — a 2-byte unrecognised character, a string literal spanning a
newline with a 2-byte character on its second line, a symbol and a trailing comment. The
string token is bytes 3..10, starts at line 0 column 3 and ends at line 1 column 3. -/
example :
    (lex LexTables.garden ['é', ' ', '"', 'a', '\n', 'ü', '"', ' ', 'x', ' ', '/', '/', ' ', 'c']).tokens.map (·.pos)
      = [⟨3, 9, 0, 1, 3, 3⟩, ⟨10, 11, 1, 1, 4, 5⟩] := by decide

example :
    (lex LexTables.garden ['é', ' ', '"', 'a', '\n', 'ü', '"', ' ', 'x', ' ', '/', '/', ' ', 'c']).errors.map (·.pos)
      = [⟨0, 2, 0, 0, 0, 2⟩] := by decide

/-- The merge of the string token's and the symbol's positions, as the parser would build for
an expression spanning both. -/
example : Pos.merge ⟨3, 9, 0, 1, 3, 3⟩ ⟨10, 11, 1, 1, 4, 5⟩ = ⟨3, 11, 0, 1, 3, 5⟩ := by decide

/-- The pinned lexer gives the multi-line string token `"a⏎b"` end line 0 and end column 5;
the line containing its end offset is line 1 (column 2). -/
theorem pinned_token_end_line_wrong :
    (lexOld LexTables.garden ['"', 'a', '\n', 'b', '"']).tokens.map (·.pos) = [⟨0, 5, 0, 0, 0, 5⟩] ∧
    (lex LexTables.garden ['"', 'a', '\n', 'b', '"']).tokens.map (·.pos) = [⟨0, 5, 0, 1, 0, 2⟩] := by
  decide

end C23
