import GardenVerif.Lemmas.Nrepl
/-!
# C31 — nREPL interrupt stops the running eval and no other

Same model as C30 (M10).  "Executing r" = the worker is between its flag-reset step for `r` and
the end of `r`'s eval (`Nrepl.executing`).  The statements are about *all* runs (lists of labels of
any length) from any state, so they cover every interleaving.

* `interrupt_hits_running` / `close_stops_partial`: once the flag has been stored by the reader
  while `r` is executing (`Armed`), along every run `r` stays armed until one of its flag tests
  reads the flag, and from then on it is `Doomed`: it can only end with `done r interrupted` —
  unless the eval ends by itself without performing another flag test (`EndsUntested`).
* `idle_interrupt_harmless`: `wReset` clears a flag stored while idle before the first flag test,
  and along every run without an `interrupt`/`close` for that session the worker never reads a set
  flag and never builds an `interrupted` response (`Clean`).
* Finding `C31/close-before-reset`: `close_before_reset_unstoppable` exhibits the run in which
  `close` lands between the dequeue and the flag reset of a queued request: the reset clears the
  flag, the session is gone (so `interrupt` answers unknown-session), and the eval completes
  normally.  `close_stops_partial` therefore has the hypothesis `executing … = some r` (the flag
  reset has happened) that excludes exactly that window (request still queued, or dequeued and
  not yet reset).
-/

namespace C31
open Nrepl

/-- pcs after the eval has ended carry its result. -/
def carries : WPc → Option (Nat × Res)
  | .evalDone r res | .stopRequested r res | .joined r res => some (r, res)
  | .tookOut r res _ | .drainedOut r res | .tookErr r res _ => some (r, res)
  | _ => none

def Armed (i r : Nat) (s : State) : Prop :=
  (s.sess i).flag = true ∧ executing (s.sess i).wpc = some r ∧ (s.sess i).wpc ≠ .flagSeen r

def Doomed (i r : Nat) (s : State) : Prop :=
  (s.sess i).wpc = .flagSeen r ∨ carries (s.sess i).wpc = some (r, .interrupted) ∨
  (∃ msgs, (s.sess i).wpc = .sending r msgs ∧ Msg.done r .interrupted ∈ msgs) ∨
  Msg.done r .interrupted ∈ s.respQ

/-- The eval of session `i` ends (or never starts) without another flag test. -/
def EndsUntested (i : Nat) (l : Label) : Prop :=
  (∃ v, l = .wFinish i v) ∨ (∃ t, l = .wAct i (.raise t)) ∨ l = .wStart i .query ∨
  (∃ t, l = .wStart i (.parseError t))

@[simp] theorem mem_sendChunk_iff {m : Msg} {q : List Msg} {k : Stream} {r : Nat} {d : Data} :
    m ∈ sendChunk q k r d ↔ m ∈ q ∨ (d ≠ [] ∧ m = .chunk k r d) := by
  unfold sendChunk; split <;> simp_all

theorem mem_sendChunk {m : Msg} {q : List Msg} {k : Stream} {r : Nat} {d : Data} (h : m ∈ q) :
    m ∈ sendChunk q k r d := by
  unfold sendChunk; split <;> simp [h]

set_option linter.unusedVariables false in
macro "sess_case" hs:ident i:ident j:ident h:ident : tactic => `(tactic| (
  simp only [step] at $hs:ident
  (repeat' (split at $hs:ident))
  all_goals (first | (simp only [reduceCtorEq] at $hs:ident; done) | skip)
  all_goals (
    cases $hs:ident
    (by_cases hii : $i = $j) <;>
      (first
        | (subst hii; simp_all [setSess, upd, executing, carries, resMsgs])
        | simp_all [setSess, upd]))
  all_goals (try grind)))

theorem armed_step (i r : Nat) (s s' : State) (l : Label) (hI : Inv s) (hs : step s l = some s')
    (h : Armed i r s ∨ Doomed i r s) : Armed i r s' ∨ Doomed i r s' ∨ EndsUntested i l := by
  unfold Armed Doomed EndsUntested at *
  cases l with
  | client m =>
    have hu := hI.unborn i
    simp only [step] at hs
    (repeat' (split at hs))
    all_goals (first | (simp only [reduceCtorEq] at hs; done) | skip)
    all_goals (cases hs)
    all_goals (try (simp_all [upd, executing, carries]; done))
    all_goals (try grind [upd, executing, carries])
  | reader =>
    simp only [step] at hs
    (repeat' (split at hs))
    all_goals (first | (simp only [reduceCtorEq] at hs; done) | skip)
    all_goals (cases hs)
    all_goals (try (simp_all [upd, executing, carries]; done))
    all_goals (try grind [upd, executing, carries])
  | wDequeue j => sess_case hs i j h
  | wExit j => sess_case hs i j h
  | wReset j => sess_case hs i j h
  | wSpawn j => sess_case hs i j h
  | wTest j => sess_case hs i j h
  | wClear j => sess_case hs i j h
  | wStop j => sess_case hs i j h
  | wJoin j => sess_case hs i j h
  | wTakeOut j => sess_case hs i j h
  | wSendOut j => sess_case hs i j h
  | wTakeErr j => sess_case hs i j h
  | wSendErr j => sess_case hs i j h
  | wSend j => sess_case hs i j h
  | fTakeOut j => sess_case hs i j h
  | fSendOut j => sess_case hs i j h
  | fTakeErr j => sess_case hs i j h
  | fSendErr j => sess_case hs i j h
  | fStop j => sess_case hs i j h
  | wStart j x => sess_case hs i j h
  | wAct j x => sess_case hs i j h
  | wFinish j x => sess_case hs i j h


theorem armed_run (i r : Nat) : ∀ (ls : List Label) (s s' : State), Reachable s → run s ls = some s' →
    Armed i r s ∨ Doomed i r s → Armed i r s' ∨ Doomed i r s' ∨ ∃ l ∈ ls, EndsUntested i l := by
  intro ls
  induction ls with
  | nil =>
    intro s s' _ hr h
    simp only [run, Option.some.injEq] at hr
    subst hr
    rcases h with h | h
    · exact Or.inl h
    · exact Or.inr (Or.inl h)
  | cons l ls ih =>
    intro s s' hR hr h
    simp only [run] at hr
    cases hs : step s l with
    | none => simp [hs] at hr
    | some s1 =>
      simp only [hs] at hr
      rcases armed_step i r s s1 l (Inv_reachable hR) hs h with h1 | h1 | h1
      · rcases ih s1 s' (Reachable.step hR hs) hr (Or.inl h1) with h2 | h2 | ⟨l', hl', h2⟩
        · exact Or.inl h2
        · exact Or.inr (Or.inl h2)
        · exact Or.inr (Or.inr ⟨l', by simp [hl'], h2⟩)
      · rcases ih s1 s' (Reachable.step hR hs) hr (Or.inr h1) with h2 | h2 | ⟨l', hl', h2⟩
        · exact Or.inl h2
        · exact Or.inr (Or.inl h2)
        · exact Or.inr (Or.inr ⟨l', by simp [hl'], h2⟩)
      · exact Or.inr (Or.inr ⟨l, by simp, h1⟩)

/-- **Sentence 1.** If the reader handles `interrupt` for session `i` while `r` is executing there
(after its flag reset, before the end of its eval), then along every continuation: `r` is still
armed (flag set, next flag test will read it), or it is doomed to end `interrupted` (its `done`
carries status `interrupted`), or its eval ended by itself without another flag test. -/
theorem interrupt_hits_running (s s1 s' : State) (i r : Nat) (ls : List Label) (hR : Reachable s)
    (hlive : (s.sess i).live = true) (hex : executing (s.sess i).wpc = some r)
    (hs : step s (.client (.interrupt i)) = some s1) (hrun : run s1 ls = some s') :
    Armed i r s' ∨ Doomed i r s' ∨ ∃ l ∈ ls, EndsUntested i l := by
  refine armed_run i r ls s1 s' (Reachable.step hR hs) hrun ?_
  simp only [step] at hs
  split at hs <;> (try (simp only [reduceCtorEq] at hs; done))
  simp only [hlive, if_true] at hs
  cases hs
  by_cases hf : (s.sess i).wpc = .flagSeen r
  · exact Or.inr (Or.inl (by simp [upd, hf]))
  · exact Or.inl ⟨by simp [upd], by simpa [upd] using hex, by simpa [upd] using hf⟩

/-- **Sentence 3, with the hypothesis that excludes the `close-before-reset` window.** As
`interrupt_hits_running`, for `close`. -/
theorem close_stops_partial (s s1 s' : State) (i r : Nat) (ls : List Label) (hR : Reachable s)
    (hlive : (s.sess i).live = true) (hex : executing (s.sess i).wpc = some r)
    (hs : step s (.client (.close i)) = some s1) (hrun : run s1 ls = some s') :
    Armed i r s' ∨ Doomed i r s' ∨ ∃ l ∈ ls, EndsUntested i l := by
  refine armed_run i r ls s1 s' (Reachable.step hR hs) hrun ?_
  simp only [step] at hs
  split at hs <;> (try (simp only [reduceCtorEq] at hs; done))
  simp only [hlive, if_true] at hs
  cases hs
  by_cases hf : (s.sess i).wpc = .flagSeen r
  · exact Or.inr (Or.inl (by simp [upd, hf]))
  · exact Or.inl ⟨by simp [upd], by simpa [upd] using hex, by simpa [upd] using hf⟩

/-- An armed request's next flag test reads the flag. -/
theorem armed_test_sees_flag (s s' : State) (i r : Nat) (h : Armed i r s)
    (hpc : (s.sess i).wpc = .evaluating r) (hs : step s (.wTest i) = some s') :
    (s'.sess i).wpc = .flagSeen r := by
  simp only [step, hpc, h.1, if_true] at hs
  cases hs
  simp [setSess, upd]

/-- A doomed request that the worker no longer holds has `done r interrupted` in the queue. -/
theorem doomed_final (s : State) (i r : Nat) (h : Doomed i r s) (hc : cur (s.sess i).wpc ≠ some r) :
    Msg.done r .interrupted ∈ s.respQ := by
  rcases h with h | h | ⟨msgs, h, _⟩ | h
  · simp [h, cur] at hc
  · cases hw : (s.sess i).wpc <;> simp_all [carries, cur]
  · simp [h, cur] at hc
  · exact h

/-- After a closed session's reply, later requests for it get `unknown-session`. -/
theorem closed_session_unknown (s s' : State) (i : Nat) (k : ReqKind)
    (hdead : (s.sess i).live = false) (hs : step s (.client (.evalLike i k)) = some s') :
    s'.respQ = s.respQ ++ [.done s.nextRid .unknownSession] := by
  simp only [step] at hs
  split at hs <;> (try (simp only [reduceCtorEq] at hs; done))
  simp [hdead] at hs
  cases hs
  rfl

/-! ### Idle interrupts -/

/-- The worker's flag reset (first thing after the dequeue) clears whatever was stored while the
session was idle. -/
theorem reset_clears_flag (s s' : State) (i : Nat) (hs : step s (.wReset i) = some s') :
    (s'.sess i).flag = false ∧ ∃ q, (s'.sess i).wpc = .ready q := by
  simp only [step] at hs
  split at hs <;> (try (simp only [reduceCtorEq] at hs; done))
  cases hs
  simp [setSess, upd]

theorem evalSrc_ne_interrupted (defs : List (Data × Data)) (x : ValSrc) :
    evalSrc defs x ≠ .interrupted := by
  cases x with
  | lit v => simp [evalSrc]
  | var y => simp only [evalSrc]; split <;> simp

/-- No flag set and nothing `interrupted` in the worker's hands. -/
def Clean (i : Nat) (s : State) : Prop :=
  (s.sess i).flag = false ∧ (∀ r, (s.sess i).wpc ≠ .flagSeen r) ∧
  (∀ r, carries (s.sess i).wpc ≠ some (r, .interrupted)) ∧
  (∀ r msgs, (s.sess i).wpc = .sending r msgs → ∀ r', Msg.done r' .interrupted ∉ msgs)

theorem clean_step (i : Nat) (s s' : State) (l : Label) (hI : Inv s) (hs : step s l = some s')
    (hl : l ≠ .client (.interrupt i)) (hl' : l ≠ .client (.close i)) (h : Clean i s) : Clean i s' := by
  unfold Clean at *
  cases l with
  | client m =>
    have hu := hI.unborn i
    simp only [step] at hs
    (repeat' (split at hs))
    all_goals (first | (simp only [reduceCtorEq] at hs; done) | skip)
    all_goals (cases hs)
    all_goals (try (simp_all [upd, executing, carries]; done))
    all_goals (try grind [upd, executing, carries])
  | reader =>
    simp only [step] at hs
    (repeat' (split at hs))
    all_goals (first | (simp only [reduceCtorEq] at hs; done) | skip)
    all_goals (cases hs)
    all_goals (try (simp_all [upd, executing, carries]; done))
    all_goals (try grind [upd, executing, carries])
  | wDequeue j => sess_case hs i j h
  | wExit j => sess_case hs i j h
  | wReset j => sess_case hs i j h
  | wSpawn j => sess_case hs i j h
  | wTest j => sess_case hs i j h
  | wClear j => sess_case hs i j h
  | wStop j => sess_case hs i j h
  | wJoin j => sess_case hs i j h
  | wTakeOut j => sess_case hs i j h
  | wSendOut j => sess_case hs i j h
  | wTakeErr j => sess_case hs i j h
  | wSendErr j => sess_case hs i j h
  | wSend j => sess_case hs i j h
  | fTakeOut j => sess_case hs i j h
  | fSendOut j => sess_case hs i j h
  | fTakeErr j => sess_case hs i j h
  | fSendErr j => sess_case hs i j h
  | fStop j => sess_case hs i j h
  | wStart j x => sess_case hs i j h
  | wAct j x => sess_case hs i j h
  | wFinish j x =>
    sess_case hs i j h
    exact evalSrc_ne_interrupted _ _

/-- **Sentence 2.** From a state in which session `i`'s flag is clear (in particular right after
`wReset`, whatever was stored while idle) and along every run that handles no `interrupt`/`close`
for `i`, the worker of `i` never reads a set flag and never builds an `interrupted` response:
if a request ends `interrupted`, some interrupt/close was handled after its reset. -/
theorem idle_interrupt_harmless (i : Nat) : ∀ (ls : List Label) (s s' : State), Reachable s →
    Clean i s → run s ls = some s' →
    (∀ l ∈ ls, l ≠ .client (.interrupt i) ∧ l ≠ .client (.close i)) → Clean i s' := by
  intro ls
  induction ls with
  | nil => intro s s' _ h hr _; simp only [run, Option.some.injEq] at hr; subst hr; exact h
  | cons l ls ih =>
    intro s s' hR h hr hls
    simp only [run] at hr
    cases hs : step s l with
    | none => simp [hs] at hr
    | some s1 =>
      simp only [hs] at hr
      have hl := hls l (by simp)
      exact ih s1 s' (Reachable.step hR hs) (clean_step i s s1 l (Inv_reachable hR) hs hl.1 hl.2 h) hr
        (fun l' hl' => hls l' (by simp [hl']))

/-! ### Finding `C31/close-before-reset` -/

/-- `close` handled between the dequeue and the flag reset of request 1: the reset clears the
flag, `interrupt` answers unknown-session, and request 1 completes normally (`done 1 ok`). -/
theorem close_before_reset_unstoppable :
    (run init [.client .clone, .client (.evalLike 1 .eval), .wDequeue 1, .client (.close 1), .reader,
      .reader, .wReset 1, .client (.interrupt 1), .wStart 1 (.ok none), .wSpawn 1, .wTest 1,
      .wAct 1 .nop, .wFinish 1 (.lit ['1']), .wStop 1, .fStop 1, .wJoin 1, .wTakeOut 1, .wSendOut 1,
      .wTakeErr 1, .wSendErr 1, .wSend 1, .wSend 1]).map (·.respQ) =
    some [.done 0 (.newSession 1), .done 2 .sessionClosed, .done 3 .unknownSession,
          .res 1 (.value ['1']), .done 1 .ok] := by
  decide

example : ∃ s, step init (.client .clone) = some s ∧ (s.sess 1).live = true := ⟨_, rfl, rfl⟩

end C31
