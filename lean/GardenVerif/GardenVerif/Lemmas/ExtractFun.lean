import GardenVerif.Lemmas.ExtractHoistSim
/-! Lemmas for `fun_extract_sound` (C20): a call of the new function with the free variables as
arguments evaluates like the extracted expression. -/
set_option linter.unusedVariables false
set_option linter.unusedSimpArgs false

namespace Extract
open Machine (Expr Case Dest BinOp Program FunDef EnumDef)
open RefSem Validators

-- ------------------------------------------------------------------ `W` on pure expressions

theorem hitsOf_zero {t id : Nat} (h : hitsOf t id = 0) : (id == t) = false := by
  unfold hitsOf at h; split at h <;> simp_all

mutual
theorem W_arith0 (x : FX) : ∀ e : Expr, arithE e = true → hits x.t e = 0 → W x.cfg e = W stripCfg e
  | .int id u v, _, h => by
      simp only [hits] at h
      simp [W, fin, FX.cfg, stripCfg, hitsOf_zero h, WCfg.i, WCfg.u]
  | .str id u v, _, h => by
      simp only [hits] at h
      simp [W, fin, FX.cfg, stripCfg, hitsOf_zero h, WCfg.i, WCfg.u]
  | .var id u v, _, h => by
      simp only [hits] at h
      simp [W, fin, FX.cfg, stripCfg, hitsOf_zero h, WCfg.i, WCfg.u]
  | .binop id u op l r, ha, h => by
      simp only [arithE, Bool.and_eq_true] at ha
      simp only [hits, Nat.add_eq_zero_iff] at h
      have h1 := W_arith0 x l ha.1 h.1.2
      have h2 := W_arith0 x r ha.2 h.2
      simp only [W, h1, h2]
      simp [fin, FX.cfg, stripCfg, hitsOf_zero h.1.1, WCfg.i, WCfg.u]
  | .paren id u e, ha, h => by
      simp only [arithE] at ha
      simp only [hits, Nat.add_eq_zero_iff] at h
      have h1 := W_arith0 x e ha h.2
      simp only [W, h1]
      simp [fin, FX.cfg, stripCfg, hitsOf_zero h.1, WCfg.i, WCfg.u]
  | .list id u es, ha, h => by
      simp only [arithE] at ha
      simp only [hits, Nat.add_eq_zero_iff] at h
      have h1 := WSeq_arith0 x es ha h.2
      simp only [W, h1]
      simp [fin, FX.cfg, stripCfg, hitsOf_zero h.1, WCfg.i, WCfg.u]
  | .tuple id u es, ha, h => by
      simp only [arithE] at ha
      simp only [hits, Nat.add_eq_zero_iff] at h
      have h1 := WSeq_arith0 x es ha h.2
      simp only [W, h1]
      simp [fin, FX.cfg, stripCfg, hitsOf_zero h.1, WCfg.i, WCfg.u]
  | .letE .., h, _ => by simp [arithE] at h
  | .assign .., h, _ => by simp [arithE] at h
  | .update .., h, _ => by simp [arithE] at h
  | .ifE .., h, _ => by simp [arithE] at h
  | .whileE .., h, _ => by simp [arithE] at h
  | .forE .., h, _ => by simp [arithE] at h
  | .matchE .., h, _ => by simp [arithE] at h
  | .ret .., h, _ => by simp [arithE] at h
  | .brk .., h, _ => by simp [arithE] at h
  | .cont .., h, _ => by simp [arithE] at h
  | .call .., h, _ => by simp [arithE] at h
  | .lambda .., h, _ => by simp [arithE] at h
  | .invalid .., h, _ => by simp [arithE] at h
  | .unsup .., h, _ => by simp [arithE] at h
theorem WSeq_arith0 (x : FX) : ∀ es : List Expr, arithL es = true → hitsSeq x.t es = 0 → WSeq x.cfg es = WSeq stripCfg es
  | [], _, _ => rfl
  | e :: rest, ha, h => by
      simp only [arithL, Bool.and_eq_true] at ha
      simp only [hitsSeq, Nat.add_eq_zero_iff] at h
      simp only [WSeq, W_arith0 x e ha.1 h.1, WSeq_arith0 x rest ha.2 h.2]
end

theorem hitsOf_one {t id : Nat} (h : (id == t) = true) : hitsOf t id = 1 := by simp [hitsOf, h]

/-- At a selected pure node that contains no other selected node, `W` is the wrapper around the
stripped node. -/
theorem W_sel (x : FX) (e : Expr) (ha : arithE e = true) (hid : (e.id == x.t) = true) (h1 : hits x.t e = 1) :
    W x.cfg e = x.cfg.wrap (W stripCfg e) := by
  cases e <;> simp only [arithE, Bool.and_eq_true, Bool.false_eq_true] at ha <;> simp only [Expr.id] at hid
  case int id u v => simp [W, fin, FX.cfg, stripCfg, hid, WCfg.i, WCfg.u]
  case str id u v => simp [W, fin, FX.cfg, stripCfg, hid, WCfg.i, WCfg.u]
  case var id u v => simp [W, fin, FX.cfg, stripCfg, hid, WCfg.i, WCfg.u]
  case binop id u op l r =>
    simp only [hits, hitsOf_one hid] at h1
    have hl : hits x.t l = 0 := by omega
    have hr : hits x.t r = 0 := by omega
    simp only [W, W_arith0 x l ha.1 hl, W_arith0 x r ha.2 hr]
    simp [fin, FX.cfg, stripCfg, hid, WCfg.i, WCfg.u]
  case paren id u y =>
    simp only [hits, hitsOf_one hid] at h1
    have hl : hits x.t y = 0 := by omega
    simp only [W, W_arith0 x y ha hl]
    simp [fin, FX.cfg, stripCfg, hid, WCfg.i, WCfg.u]
  case list id u es =>
    simp only [hits, hitsOf_one hid] at h1
    have hl : hitsSeq x.t es = 0 := by omega
    simp only [W, WSeq_arith0 x es ha hl]
    simp [fin, FX.cfg, stripCfg, hid, WCfg.i, WCfg.u]
  case tuple id u es =>
    simp only [hits, hitsOf_one hid] at h1
    have hl : hitsSeq x.t es = 0 := by omega
    simp only [W, WSeq_arith0 x es ha hl]
    simp [fin, FX.cfg, stripCfg, hid, WCfg.i, WCfg.u]

-- ------------------------------------------------------------------ pure expressions in two configurations

/-- `b` is `a`'s result in the (unchanged) second state; `a` leaves the first state alone. -/
def Same2 (s s2 : RefSem.St) (a b : Res × RefSem.St) : Prop := b = (a.1, s2) ∧ a.2 = s

theorem bindS {s s2 : RefSem.St} {a b : Res × RefSem.St} {k k' : Val → RefSem.St → Res × RefSem.St}
    (h : Same2 s s2 a b) (hk : ∀ v, Same2 s s2 (k v s) (k' v s2)) : Same2 s s2 (RefSem.bind a k) (RefSem.bind b k') := by
  obtain ⟨r, s1⟩ := a
  obtain ⟨h1, h2⟩ := h
  simp only at h1 h2; subst h1; subst h2
  cases r <;> first | exact hk _ | exact ⟨rfl, rfl⟩

structure AAgree (cl : Bool) (p q : Program) (j : Nat) : Prop where
  ev : ∀ env s env2 s2 e, arithE e = true →
    (∀ y, y ∈ varsE e → lookupVar p env s.store y = lookupVar q env2 s2.store y) →
    Same2 s s2 (eval cl p j env s e) (eval cl q j env2 s2 (W stripCfg e))
  lst : ∀ env s env2 s2 es, arithL es = true →
    (∀ y, y ∈ varsL es → lookupVar p env s.store y = lookupVar q env2 s2.store y) →
    Same2 s s2 (evalList cl p j env s es) (evalList cl q j env2 s2 (WSeq stripCfg es))

theorem arith_agree (cl : Bool) (p q : Program) : ∀ j, AAgree cl p q j
  | 0 => ⟨fun _ _ _ _ _ _ _ => ⟨rfl, rfl⟩, fun _ _ _ _ _ _ _ => ⟨rfl, rfl⟩⟩
  | j + 1 => by
    have ih := arith_agree cl p q j
    constructor
    · intro env s env2 s2 e he hv
      cases e <;> simp only [arithE, Bool.and_eq_true, Bool.false_eq_true] at he
      case int id u v => simp only [W, fin, stripCfg, Bool.false_eq_true, if_false, eval]; exact ⟨rfl, rfl⟩
      case str id u v => simp only [W, fin, stripCfg, Bool.false_eq_true, if_false, eval]; exact ⟨rfl, rfl⟩
      case var id u y =>
        have := hv y (by simp [varsE])
        simp only [W, fin, stripCfg, Bool.false_eq_true, if_false, eval, this]
        cases lookupVar q env2 s2.store y <;> exact ⟨rfl, rfl⟩
      case binop id u op l r =>
        simp only [W, fin, stripCfg, Bool.false_eq_true, if_false, eval]
        refine bindS (ih.ev _ _ _ _ _ he.1 fun y hy => hv y (by simp [varsE, hy])) fun lv => ?_
        refine bindS (ih.ev _ _ _ _ _ he.2 fun y hy => hv y (by simp [varsE, hy])) fun rv => ?_
        exact ⟨rfl, rfl⟩
      case paren id u y =>
        simp only [W, fin, stripCfg, Bool.false_eq_true, if_false, eval]
        exact ih.ev _ _ _ _ _ he fun z hz => hv z (by simpa [varsE] using hz)
      case list id u es =>
        simp only [W, fin, stripCfg, Bool.false_eq_true, if_false, eval]
        exact ih.lst _ _ _ _ _ he fun z hz => hv z (by simpa [varsE] using hz)
      case tuple id u es =>
        simp only [W, fin, stripCfg, Bool.false_eq_true, if_false, eval]
        refine bindS (ih.lst _ _ _ _ _ he fun z hz => hv z (by simpa [varsE] using hz)) fun vs => ?_
        cases vs <;> exact ⟨rfl, rfl⟩
    · intro env s env2 s2 es he hv
      cases es with
      | nil => exact ⟨rfl, rfl⟩
      | cons e rest =>
        simp only [arithL, Bool.and_eq_true] at he
        simp only [WSeq, evalList]
        refine bindS (ih.ev _ _ _ _ _ he.1 fun y hy => hv y (by simp [varsL, hy])) fun v => ?_
        refine bindS (ih.lst _ _ _ _ _ he.2 fun y hy => hv y (by simp [varsL, hy])) fun vs => ?_
        cases vs <;> exact ⟨rfl, rfl⟩

/-- A pure expression that mentions an unbound variable evaluates badly. -/
structure AUnb (cl : Bool) (p : Program) (j : Nat) : Prop where
  ev : ∀ env s e y, arithE e = true → y ∈ varsE e → lookupVar p env s.store y = none →
    bad (eval cl p j env s e).1 = true
  lst : ∀ env s es y, arithL es = true → y ∈ varsL es → lookupVar p env s.store y = none →
    bad (evalList cl p j env s es).1 = true

theorem arith_unbound (cl : Bool) (p : Program) : ∀ j, AUnb cl p j
  | 0 => ⟨fun _ _ _ _ _ _ _ => rfl, fun _ _ _ _ _ _ _ => rfl⟩
  | j + 1 => by
    have ih := arith_unbound cl p j
    constructor
    · intro env s e y he hy hn
      cases e <;> simp only [arithE, Bool.and_eq_true, Bool.false_eq_true] at he <;> simp only [varsE] at hy
      case int => simp at hy
      case str => simp at hy
      case var id u z =>
        simp only [List.mem_singleton] at hy; subst hy
        simp only [eval, hn]; rfl
      case binop id u op l r =>
        simp only [eval]
        rcases List.mem_append.mp hy with h | h
        · exact bad_bind (ih.ev _ _ _ _ he.1 h hn)
        · refine bad_bind_vb ((arithRes cl p j).ev _ _ _ he.1) fun v hv => ?_
          rw [(keepsState cl p j).ev _ _ _ he.1]
          exact bad_bind (ih.ev _ _ _ _ he.2 h hn)
      case paren id u x => simp only [eval]; exact ih.ev _ _ _ _ he hy hn
      case list id u es => simp only [eval]; exact ih.lst _ _ _ _ he hy hn
      case tuple id u es => simp only [eval]; exact bad_bind (ih.lst _ _ _ _ he hy hn)
    · intro env s es y he hy hn
      cases es with
      | nil => simp [varsL] at hy
      | cons e rest =>
        simp only [arithL, Bool.and_eq_true] at he
        simp only [varsL] at hy
        simp only [evalList]
        rcases List.mem_append.mp hy with h | h
        · exact bad_bind (ih.ev _ _ _ _ he.1 h hn)
        · refine bad_bind_vb ((arithRes cl p j).ev _ _ _ he.1) fun v hv => ?_
          rw [(keepsState cl p j).ev _ _ _ he.1]
          exact bad_bind (ih.lst _ _ _ _ he.2 h hn)


-- ------------------------------------------------------------------ the call `n(ps…)`

def lookups (q : Program) (env : Env) (st : List Val) : List String → Option (List Val)
  | [] => some []
  | y :: rest =>
    match lookupVar q env st y with
    | none => none
    | some v => (lookups q env st rest).map (v :: ·)

theorem lookups_length {q env st} : ∀ {ps : List String} {vs : List Val}, lookups q env st ps = some vs → vs.length = ps.length
  | [], vs, h => by simp [lookups] at h; subst h; rfl
  | y :: rest, vs, h => by
      simp only [lookups] at h
      split at h
      · cases h
      · cases hr : lookups q env st rest with
        | none => rw [hr] at h; cases h
        | some vr =>
          rw [hr] at h; simp only [Option.map_some, Option.some.injEq] at h; subst h
          simp [lookups_length hr]

/-- Evaluating the argument list `ps…` (variables) with enough fuel. -/
theorem evalList_vars (cl : Bool) (q : Program) (env : Env) (s : RefSem.St) :
    ∀ (ps : List String) (f : Nat), ps.length + 1 ≤ f →
      evalList cl q f env s (ps.map fun y => .var 0 false y) =
        match lookups q env s.store ps with
        | some vs => (.val (.list vs), s)
        | none => (.err .noSuchVar, s)
  | [], f, h => by
      obtain ⟨f', rfl⟩ : ∃ f', f = f' + 1 := ⟨f - 1, by omega⟩
      simp [evalList, lookups]
  | y :: rest, f, h => by
      obtain ⟨f', rfl⟩ : ∃ f', f = f' + 1 := ⟨f - 1, by omega⟩
      obtain ⟨f'', rfl⟩ : ∃ f'', f' = f'' + 1 := ⟨f' - 1, by simp at h; omega⟩
      have ih := evalList_vars cl q env s rest (f'' + 1) (by simp at h; omega)
      simp only [List.map_cons, evalList, eval, lookups]
      cases lookupVar q env s.store y with
      | none => simp [RefSem.bind]
      | some v =>
        simp only [RefSem.bind]
        rw [ih]
        cases lookups q env s.store rest <;> simp

/-- The frame of the call: binding the parameters to the looked-up values. -/
theorem frame_lookup (q : Program) (envL : Env) (stL : List Val) :
    ∀ (ps : List String) (vs : List Val) (env0 : Env) (s0 : RefSem.St),
      lookups q envL stL ps = some vs → ps.all (· != "_") = true → WF env0 s0.store →
      ∀ y, lookupVar q (bindNames ps vs env0 s0).1 (bindNames ps vs env0 s0).2.store y =
        if ps.contains y then lookupVar q envL stL y else lookupVar q env0 s0.store y
  | [], vs, env0, s0, h, _, _, y => by
      simp [lookups] at h; subst h; simp [bindNames]
  | y0 :: rest, vs, env0, s0, h, hu, w, y => by
      simp only [lookups] at h
      cases hl : lookupVar q envL stL y0 with
      | none => rw [hl] at h; cases h
      | some v0 =>
        rw [hl] at h
        cases hr : lookups q envL stL rest with
        | none => rw [hr] at h; cases h
        | some vr =>
          rw [hr] at h; simp only [Option.map_some, Option.some.injEq] at h; subst h
          simp only [List.all_cons, Bool.and_eq_true, bne_iff_ne, ne_eq] at hu
          have hy0 : (y0 == "_") = false := by simpa using hu.1
          simp only [bindNames, hy0, Bool.false_eq_true, if_false]
          have w1 : WF ((y0, s0.store.length) :: env0) (s0.store ++ [v0]) := wf_push w y0 v0
          rw [frame_lookup q envL stL rest vr _ _ hr (by simpa using hu.2) w1 y]
          simp only [List.contains_cons]
          by_cases hin : rest.contains y = true
          · have hm : y ∈ rest := by simpa using hin
            simp [hin, hm]
          · simp only [hin, Bool.false_eq_true, if_false, Bool.or_false]
            rw [lookupVar_cons]
            by_cases he : (y0 == y) = true
            · have : y0 = y := by simpa using he
              subst this
              simp [hl]
            · have he' : (y == y0) = false := by
                simp only [beq_eq_false_iff_ne, ne_eq]; intro h; exact he (by simp [h])
              simp only [he, Bool.false_eq_true, if_false, he']
              exact lookupVar_ext q w (List.prefix_append _ _) y


-- ------------------------------------------------------------------ the program context

structure FCtx (x : FX) (p q : Program) : Prop where
  hn : x.n ≠ "_"
  psu : x.ps.all (· != "_") = true
  psf : x.ps.all x.f = true
  enums : q.enums = p.enums
  find_n : q.funs.find? (fun d => d.name == x.n) = some { name := x.n, params := x.ps, body := [x.bS] }
  find_o : ∀ name, name ≠ x.n →
    q.funs.find? (fun d => d.name == name) = (p.funs.find? (fun d => d.name == name)).map (WFun x.cfg)
  names : ∀ y, (funNames q).contains y = ((funNames p).contains y || y == x.n)
  nfree : nsLookup (funNames p) p.enums x.n = none
  gfuns : ∀ d ∈ p.funs, GFFun x d = true

theorem FCtx.ns {x p q} (hc : FCtx x p q) {y : String} (hy : y ≠ x.n) :
    nsLookup (funNames q) q.enums y = nsLookup (funNames p) p.enums y := by
  have : (y == x.n) = false := by simpa using hy
  simp only [nsLookup, hc.names y, this, Bool.or_false, hc.enums]

theorem FCtx.ns_n {x p q} (hc : FCtx x p q) : nsLookup (funNames q) q.enums x.n = some (.fn x.n) := by
  have : (funNames q).contains x.n = true := by rw [hc.names]; simp
  have hm : x.n ∈ funNames q := by simpa using this
  simp [nsLookup, hm]

theorem FCtx.lookupVar {x p q} (hc : FCtx x p q) (env : Env) (st : List Val) {y : String} (hy : y ≠ x.n) :
    lookupVar q env st y = lookupVar p env st y := by
  simp only [RefSem.lookupVar, hc.ns hy]

theorem FCtx.patKey {x p q} (hc : FCtx x p q) (v : String) : patKey q v = patKey p v := by
  by_cases hv : v = x.n
  · subst hv; simp [RefSem.patKey, hc.ns_n, hc.nfree]
  · simp only [RefSem.patKey, hc.ns hv]

theorem FCtx.agree_nil {x p q} (hc : FCtx x p q) (st st' : List Val) : Agree x.n p q [] st [] st' := by
  intro y hy
  simp only [RefSem.lookupVar, lookup, hc.ns hy]

theorem lookup_none_of_f {f : String → Bool} {env : Env} (h : EnvOK f env) {y : String} (hy : f y = false) :
    lookup env y = none := by
  induction env with
  | nil => rfl
  | cons kl rest ih =>
    obtain ⟨k, l⟩ := kl
    have hk : f k = true := h (k, l) (List.mem_cons_self ..)
    have hne : (k == y) = false := by
      simp only [beq_eq_false_iff_ne, ne_eq]; intro e; subst e; rw [hy] at hk; cases hk
    simp only [lookup, hne, Bool.false_eq_true, if_false]
    exact ih fun kl hkl => h kl (List.mem_cons_of_mem _ hkl)

theorem lookups_none {q env st} : ∀ {ps : List String}, lookups q env st ps = none →
    ∃ y, y ∈ ps ∧ lookupVar q env st y = none
  | [], h => by simp [lookups] at h
  | y :: rest, h => by
      simp only [lookups] at h
      cases hl : lookupVar q env st y with
      | none => exact ⟨y, List.mem_cons_self .., hl⟩
      | some v =>
        rw [hl] at h
        cases hr : lookups q env st rest with
        | none =>
          obtain ⟨z, hz, hzn⟩ := lookups_none hr
          exact ⟨z, List.mem_cons_of_mem _ hz, hzn⟩
        | some vr => rw [hr] at h; cases h

/-- What relates the two configurations (extract function). -/
structure Ok2 (x : FX) (p q : Program) (env : Env) (s : RefSem.St) (env' : Env) (s' : RefSem.St) : Prop where
  agree : Agree x.n p q env s.store env' s'.store
  wf : WF env s.store
  wf' : WF env' s'.store
  out : s.out = s'.out
  ok : EnvOK x.f env
  ok' : EnvOK x.f env'

theorem Ok2.step {x p q env s env' s' s1 s1'} (h : Ok2 x p q env s env' s') (p1 : s.store <+: s1.store)
    (p1' : s'.store <+: s1'.store) (o1 : s1.out = s1'.out) : Ok2 x p q env s1 env' s1' :=
  ⟨h.agree.ext h.wf h.wf' p1 p1', h.wf.ext p1, h.wf'.ext p1', o1, h.ok, h.ok'⟩

theorem f_n (x : FX) : x.f x.n = false := by simp [FX.f]

theorem f_gl (x : FX) {y : String} (h : x.gl.contains y = true) : x.f y = false := by
  have : y ∈ x.gl := by simpa using h
  simp [FX.f, this]

theorem evalSeq_single (cl : Bool) (p : Program) (f : Nat) (env : Env) (s : RefSem.St) {e : Expr}
    (h : isLet e = false) : evalSeq cl p (f + 1) env s [e] = eval cl p f env s e :=
  evalSeq_cons_nonlet cl p f env s [] h

/-- The extracted program's side of the call, in isolation. -/
theorem call_eval {x : FX} {p q : Program} (hc : FCtx x p q) {env' : Env} {s' : RefSem.St}
    (hok : EnvOK x.f env') (m3 : Nat) (hm : x.ps.length ≤ m3) (hbl : isLet x.bS = false) :
    eval false q (m3 + 3) env' s' (callOf x.n x.ps) =
      match lookups q env' s'.store x.ps with
      | none => (.err .noSuchVar, s')
      | some vs => funResult (eval false q m3 (bindNames x.ps vs [] s').1 (bindNames x.ps vs [] s').2 x.bS) := by
  have hln : lookupVar q env' s'.store x.n = some (.fn x.n) := by
    simp only [RefSem.lookupVar, lookup_none_of_f hok (f_n x), hc.ns_n]
  simp only [callOf, eval, hln, RefSem.bind]
  rw [evalList_vars false q env' s' x.ps (m3 + 2) (by omega)]
  cases hlk : lookups q env' s'.store x.ps with
  | none => rfl
  | some vs =>
    have hlen := lookups_length hlk
    have hlen' : (x.ps.length != vs.length) = false := by simp [hlen]
    simp only [applyVal, hc.find_n, hlen', Bool.false_eq_true, if_false]
    rw [evalSeq_single false q m3 _ _ hbl]

/-- THE CALL STEP: where the original evaluates the pure expression `e`, the extracted program
evaluates the call `n(ps…)`; same value, same output, the store only grows by the parameters. -/
theorem call_step {x : FX} {p q : Program} (hc : FCtx x p q) {env s env' s'} (hk : Ok2 x p q env s env' s')
    (e : Expr) (ha : arithE e = true) (hb : W stripCfg e = x.bS)
    (hv1 : ∀ y, y ∈ varsE e → x.ps.contains y = true ∨ x.gl.contains y = true)
    (hv2 : ∀ y, y ∈ x.ps → y ∈ varsE e) (hvn : ∀ y, y ∈ varsE e → y ≠ x.n)
    (k m : Nat) (hm1 : k + 5 ≤ m) (hm2 : x.ps.length + 3 ≤ m) :
    RelH s s' (eval false p (k + 1) env s e) (eval false q m env' s' (callOf x.n x.ps)) := by
  obtain ⟨m3, rfl⟩ : ∃ m3, m = m3 + 3 := ⟨m - 3, by omega⟩
  have hbl : isLet x.bS = false := by
    rw [← hb]; exact isLet_W (fun id y h => by simp [stripCfg] at h) (by cases e <;> simp_all [arithE, isLet])
  rw [call_eval hc hk.ok' m3 (by omega) hbl]
  cases hlk : lookups q env' s'.store x.ps with
  | none =>
    obtain ⟨y, hy, hyn⟩ := lookups_none hlk
    have hyf : x.f y = true := by
      have := hc.psf; simp only [List.all_eq_true] at this; exact this y hy
    have hyne : y ≠ x.n := by intro e0; subst e0; rw [f_n] at hyf; cases hyf
    have : lookupVar p env s.store y = none := by rw [hk.agree y hyne]; exact hyn
    exact RelH.bad ((arith_unbound false p (k + 1)).ev _ _ _ _ ha (hv2 y hy) this)
  | some vs =>
    simp only []
    have hfl := frame_lookup q env' s'.store x.ps vs [] s' hlk hc.psu WF.nil
    have hbo := bindNames_out x.ps vs [] s'
    have hsame := (arith_agree false p q (k + 1)).ev env s (bindNames x.ps vs [] s').1 (bindNames x.ps vs [] s').2 e ha
      (by
        intro y hy
        rw [hfl y]
        have hyne := hvn y hy
        by_cases hin : x.ps.contains y = true
        · simp only [hin, if_true]; exact hk.agree y hyne
        · simp only [hin, Bool.false_eq_true, if_false]
          have hg : x.gl.contains y = true := by
            rcases hv1 y hy with h | h
            · exact absurd h hin
            · exact h
          simp only [RefSem.lookupVar, lookup_none_of_f hk.ok (f_gl x hg), lookup, hc.ns hyne])
    rw [hb] at hsame
    obtain ⟨hs1, hs2⟩ := hsame
    have hmono := eval_mono q (show k + 1 ≤ m3 by omega) (bindNames x.ps vs [] s').1 (bindNames x.ps vs [] s').2 x.bS
    rw [hs1] at hmono
    have hvbr := (arithRes false p (k + 1)).ev env s e ha
    generalize eval false p (k + 1) env s e = A at hmono hs2 hvbr ⊢
    obtain ⟨ra, sa⟩ := A
    simp only at hs2 hmono hvbr; subst hs2
    by_cases hbad : bad ra = true
    · exact RelH.bad hbad
    · have hto : isTO ra = false := by cases ra <;> simp_all [bad, isTO]
      have heq := hmono.eq_of_not_to hto
      rw [← heq]
      cases ra with
      | val v => exact Or.inr ⟨rfl, by show sa.out = (bindNames x.ps vs [] s').2.out; rw [hbo.1]; exact hk.out, List.prefix_refl _, hbo.2⟩
      | timeout => exact absurd rfl hbad
      | err k0 => exact absurd rfl hbad
      | unsup w => exact absurd rfl hbad
      | brk => simp [vb, bad] at hvbr
      | cont => simp [vb, bad] at hvbr
      | ret v => simp [vb, bad] at hvbr

end Extract
