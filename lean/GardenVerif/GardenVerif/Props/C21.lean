import GardenVerif.Lemmas.Extract
/-!
# C21 — Wrap-in-dbg and add-type-annotation preserve behaviour

(V) certified validator over the reference semantics `RefSem` (Model/RefSem.lean; `dbg` returns its
argument and writes nothing to stdout, as the real `dbg` writes to stderr only).

Relations (Model/Extract.lean), both decided by the driver on the two trees of the REAL parser:
* `IsDbgWrap p p' t`: up to node ids and `value_is_used` flags, `p'` is `p` with the node `t` (exactly
  one node, not a `let`) replaced by the call `dbg(<that node>)`; decided by `dbgwrapCheck`.
* `IsAnnotationAdd p p'`: the hint-free trees are equal up to ids / flags (`Machine.Expr` carries no
  hints; that exactly one hint was added is read off the `astq` dumps by the driver op `annot_check`).

Fuel. `RefSem` is fuel-indexed (fuel = nesting depth of the evaluation), and `dbg(e)` needs two more
levels than `e`, so "same run for the same fuel" is false at the boundary. The theorems say: whenever
one side ends (result other than `timeout`) with fuel `n`, the other side ends in exactly the same
way — same result value, same final store, same printed output — with fuel `3 * n` (resp. `n`).
Together with fuel monotonicity (`run_mono`) this is "the same behaviour for all sufficient fuel".

Proved for ALL programs and all fuel, for the closure-free restriction `cl = false` of `RefSem`
(a `fun` literal / closure call is `unsupported` on both sides), hence the suffix `_partial`:
* `eval_congr_partial` — the reusable core: replacing any set of sub-expressions `e` by `wrap e`,
  where `wrap e` evaluates like `e` in every state (hypothesis `Local`), preserves the run;
* `run_mono` — fuel monotonicity;
* `strip_invariant_partial` — node ids and use flags do not matter;
* `dbg_identity_partial`, `dbg_identity_behaviour_partial`, `dbgwrapCheck_behaviour_partial`;
* `annot_sound_partial` — see there for what is modelled.
FULL STATEMENTS NOT PROVED: the same with `cl = true` (closures). Closure values carry code, so the two
runs' values differ by the transformation; the proof needs a value relation instead of equality (and
for `dbg` an invariant "no closure in the state rebinds `dbg`"). The relation and the checkers do
cover closures, and the direct oracle runs the real interpreter on closure-using programs.
-/
set_option linter.unusedVariables false

namespace C21
open Extract RefSem Validators
open Machine (Program Expr)

/-- The decision procedure the driver runs implies the relation. -/
theorem dbgwrapCheck_sound (p p' : Program) (t : Nat) (h : dbgwrapCheck p p' t = true) :
    IsDbgWrap p p' t := by
  simp only [dbgwrapCheck, Bool.and_eq_true, beq_iff_eq] at h
  exact ⟨progEq_sound _ _ h.1, h.2⟩

theorem annotCheck_sound (p p' : Program) (h : annotCheck p p' = true) : IsAnnotationAdd p p' :=
  progEq_sound _ _ h

/-- Fuel monotonicity: a run that ended keeps its result with any larger fuel. -/
theorem run_mono (p : Program) (n k : Nat) (hn : isTO (run false p n).1 = false) :
    run false p (n + k) = run false p n :=
  Extract.run_mono p n k hn

/-- THE CONGRUENCE. `WP c p` is `p` with every node selected by `c.sel` replaced by `c.wrap <node>`.
If `wrap x` evaluates like `x` in every state (`Local c p`: with `c.k` more fuel; it may fail with the
designated error `c.fk`), then
(1) a run of `p` that ends with fuel `n` is reproduced exactly by `WP c p` with fuel `(c.k+1) * n`,
    unless the wrapped program ends with the wrapper's failure;
(2) a run of `WP c p` that ends with fuel `n`, not with the wrapper's failure, is the run of `p`. -/
theorem eval_congr_partial (c : WCfg) (p : Program) (hc : Local c p)
    (hb : bokSeq c.ok p.toplevel = true) :
    (∀ n, isTO (run false p n).1 = false →
      run false (WP c p) ((c.k + 1) * n) = run false p n ∨
      failedBy c.fk (run false (WP c p) ((c.k + 1) * n)).1 = true) ∧
    (∀ n, isTO (run false (WP c p) n).1 = false →
      run false p n = run false (WP c p) n ∨ failedBy c.fk (run false (WP c p) n).1 = true) := by
  constructor
  · intro n hn
    have h := (simF_all hc n ((c.k + 1) * n) (Nat.le_refl _)).seq [] St.init p.toplevel EnvOK.nil hb
    rcases h with h | h | h | h
    · rw [show evalSeq false p n [] St.init p.toplevel = run false p n from rfl, hn] at h; cases h
    · exact Or.inl h.symm
    · simp [failedBy] at h
    · exact Or.inr h
  · intro n hn
    have h := (simB_all hc n n (Nat.le_refl _)).seq [] St.init p.toplevel EnvOK.nil hb
    rcases h with h | h | h | h
    · rw [show evalSeq false (WP c p) n [] St.init (WSeq c p.toplevel) = run false (WP c p) n from rfl, hn] at h
      cases h
    · exact Or.inl h.symm
    · exact Or.inr h
    · simp [failedBy] at h

/-- Node ids and `value_is_used` flags are irrelevant: whenever one of the two runs ends, the
stripped program runs exactly like the program. -/
theorem strip_invariant_partial (p : Program) (n : Nat)
    (h : isTO (run false p n).1 = false ∨ isTO (run false (WP stripCfg p) n).1 = false) :
    run false (WP stripCfg p) n = run false p n := by
  have hc := eval_congr_partial stripCfg p (local_strip p) (bokSeq_true _)
  rcases h with h | h
  · have := hc.1 n h
    simp only [stripCfg, Nat.zero_add, Nat.one_mul, failedBy, Bool.false_eq_true, or_false] at this
    exact this
  · have := hc.2 n h
    simp only [stripCfg, failedBy, Bool.false_eq_true, or_false] at this
    exact this.symm

/-- `dbg_identity` (closure-free restriction). If `p'` is `p` with one expression `e` replaced by
`dbg(e)` and `dbg` means the built-in in `p`, then a run of `p` that ends with fuel `n` is reproduced
exactly (result, store, printed output) by `p'` with fuel `3 * n`, and a run of `p'` that ends with
fuel `n` is exactly the run of `p` with fuel `n`. -/
theorem dbg_identity_partial (p p' : Program) (t : Nat) (h : IsDbgWrap p p' t) (hd : dbgFree p = true) :
    (∀ n, isTO (run false p n).1 = false → run false p' (3 * n) = run false p n) ∧
    (∀ n, isTO (run false p' n).1 = false → run false p n = run false p' n) := by
  have hb : bokSeq (dbgCfg t).ok p.toplevel = true := by
    simp only [dbgFree, bokProg, Bool.and_eq_true] at hd
    exact hd.1.1.2
  have hc := eval_congr_partial (dbgCfg t) p (local_dbg hd t) hb
  constructor
  · intro n hn
    have h1 := hc.1 n hn
    simp only [dbgCfg, failedBy, Bool.false_eq_true, or_false] at h1
    have h1' : run false (WP (dbgCfg t) p) (3 * n) = run false p n := h1
    rw [← h.1] at h1'
    have h2 := strip_invariant_partial p' (3 * n) (Or.inr (by rw [h1']; exact hn))
    rw [← h2, h1']
  · intro n hn
    have h2 := strip_invariant_partial p' n (Or.inl hn)
    have h3 : isTO (run false (WP (dbgCfg t) p) n).1 = false := by rw [← h.1, h2]; exact hn
    have h1 := hc.2 n h3
    simp only [dbgCfg, failedBy, Bool.false_eq_true, or_false] at h1
    have h1' : run false p n = run false (WP (dbgCfg t) p) n := h1
    rw [h1', ← h.1, h2]

/-- Observable behaviour (how the run ends, what it printed): if `p` ends, `p'` ends the same way
and prints the same; if `p'` ends, so does `p`. -/
theorem dbg_identity_behaviour_partial (p p' : Program) (t : Nat) (h : IsDbgWrap p p' t)
    (hd : dbgFree p = true) :
    (∀ n, (behaviour false p n).1 ≠ .timeout → behaviour false p' (3 * n) = behaviour false p n) ∧
    (∀ n, (behaviour false p' n).1 ≠ .timeout → behaviour false p n = behaviour false p' n) := by
  have hto : ∀ r : Res, r.outcome ≠ .timeout → isTO r = false := by
    intro r hr; cases r <;> simp [Res.outcome, isTO] at hr ⊢
  have := dbg_identity_partial p p' t h hd
  constructor
  · intro n hn
    simp only [behaviour] at hn ⊢
    rw [this.1 n (hto _ hn)]
  · intro n hn
    simp only [behaviour] at hn ⊢
    rw [this.2 n (hto _ hn)]

/-- What the driver's verdict gives: `dbgwrap_check` passed ⇒ same behaviour. -/
theorem dbgwrapCheck_behaviour_partial (p p' : Program) (t : Nat) (h : dbgwrapCheck p p' t = true)
    (hd : dbgFree p = true) (n : Nat) (hn : (behaviour false p n).1 ≠ .timeout) :
    behaviour false p' (3 * n) = behaviour false p n :=
  (dbg_identity_behaviour_partial p p' t (dbgwrapCheck_sound p p' t h) hd).1 n hn

/-- `annot_sound` (closure-free restriction). WHAT IS MODELLED: `RefSem` has no type hints. A hint
`T` on a `let` (resp. a function's return type) makes the real evaluator check the bound (returned)
value against `T` and raise a type error if it does not fit. The hinted program is modelled as
`WP (chkCfg sel chk fk) p'`: the unhinted tree `p'` in which the nodes `sel` (the `let`'s right-hand
side; the returned expressions) are wrapped in a context `chk` that is a PARTIAL IDENTITY
(`PartialId chk ok fk`: in every program and state, `chk x` evaluates `x` and passes its value on if
`ok` accepts it, else fails with `fk`; instances: `partialId_int` (`x + 0`), `partialId_str`).
Parameter hints (checked at call time) are not modelled.
THEOREM: if adding the hint changes nothing else (`IsAnnotationAdd`), then a run of `p` that ends is
reproduced exactly by the hinted program — unless that ends with the check's failure `fk`; and a
run of the hinted program that ends, not with `fk`, is the run of `p`. So under the hypothesis of
the property (every value reaching the binding fits the hint: the check never fails) the behaviour
is unchanged. Whether the SUGGESTED hint satisfies the hypothesis is decided per input by the
oracle (no new `check` diagnostics, same stdout and same end of `garden run`). -/
theorem annot_sound_partial (p p' : Program) (h : IsAnnotationAdd p p')
    (chk : Expr → Expr) (ok : Val → Bool) (fk : EK) (hchk : PartialId chk ok fk) (sel : Nat → Bool) :
    (∀ n, isTO (run false p n).1 = false →
      run false (WP (chkCfg sel chk fk) p') (3 * n) = run false p n ∨
      (run false (WP (chkCfg sel chk fk) p') (3 * n)).1 = .err fk) ∧
    (∀ n, isTO (run false (WP (chkCfg sel chk fk) p') n).1 = false →
      run false p n = run false (WP (chkCfg sel chk fk) p') n ∨
      (run false (WP (chkCfg sel chk fk) p') n).1 = .err fk) := by
  have hf : ∀ r : Res, failedBy (some fk) r = true → r = .err fk := by
    intro r hr; cases r <;> simp [failedBy] at hr ⊢; exact hr.symm
  have hc := eval_congr_partial (chkCfg sel chk fk) p' (local_chk hchk sel p') (bokSeq_true _)
  have hpp' : ∀ n, isTO (run false p n).1 = false ∨ isTO (run false p' n).1 = false →
      run false p' n = run false p n := by
    intro n hn
    rcases hn with hn | hn
    · have h1 := strip_invariant_partial p n (Or.inl hn)
      have h2 := strip_invariant_partial p' n (Or.inr (by rw [h, h1]; exact hn))
      rw [← h2, h, h1]
    · have h2 := strip_invariant_partial p' n (Or.inl hn)
      have h1 := strip_invariant_partial p n (Or.inr (by rw [← h, h2]; exact hn))
      rw [← h2, h, h1]
  constructor
  · intro n hn
    have e := hpp' n (Or.inl hn)
    rcases hc.1 n (by rw [e]; exact hn) with h1 | h1
    · left
      have : (chkCfg sel chk fk).k + 1 = 3 := rfl
      rw [this] at h1
      rw [h1, e]
    · right
      have : (chkCfg sel chk fk).k + 1 = 3 := rfl
      rw [this] at h1
      exact hf _ h1
  · intro n hn
    rcases hc.2 n hn with h1 | h1
    · left
      have e := hpp' n (Or.inr (by rw [h1]; exact hn))
      rw [← e, h1]
    · right; exact hf _ h1

/-- Non-trivial instance of the relation: `println(string_repr(1 + 2))` (ids 1–7) and the output of
the tool at the literal `1` (node 6): `println(string_repr(dbg(1) + 2))` with fresh ids / flags. -/
example :
    let p : Program := ⟨[], [], [.call 1 false (.var 2 true "println")
      [.call 3 true (.var 4 true "string_repr") [.binop 5 true .add (.int 6 true 1) (.int 7 true 2)]]]⟩
    let p' : Program := ⟨[], [], [.call 11 false (.var 12 true "println")
      [.call 13 true (.var 14 true "string_repr") [.binop 15 true .add
        (.call 16 true (.var 17 true "dbg") [.int 18 true 1]) (.int 19 true 2)]]]⟩
    dbgwrapCheck p p' 6 = true ∧ dbgFree p = true := by
  simp [dbgwrapCheck, progEq, WP, WSeq, W, fin, stripCfg, dbgCfg, dbgCall, WCfg.i, WCfg.u, seqEq, exprEq,
    funsEq, enumsEq, hitsProg, hitsSeq, hits, hitsOf, dbgFree, bokProg, bokSeq, bok, funNames, findVariant,
    Machine.preludeEnums, List.findIdx?_cons]

end C21
