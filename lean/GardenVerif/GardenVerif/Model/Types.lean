/-
M7: Garden's `Type`, `is_subtype` (src/garden_type.rs) and `unify` / `unify_all`
(src/checks/type_checker.rs), transcribed as total executable functions.

Import-free on purpose (the line-protocol driver links against it).
-/

inductive Kind where
  | enum | struct
  deriving DecidableEq, Repr, Inhabited

/-- `Type` of garden_type.rs. `Error` carries no payload here: `internal_reason`
and `inferred_type` are never inspected by `is_subtype` or `unify`. `fn` keeps
`name` and `tparams` because `unify`'s `ty_1 == ty_2` (derived `PartialEq`)
compares them, while `is_subtype` ignores them. -/
inductive Ty where
  | any
  | tuple (items : List Ty)
  | fn (name : Option String) (tparams : List String) (params : List Ty) (ret : Ty)
  | user (kind : Kind) (name : String) (args : List Ty)
  | param (name : String)
  | err
  deriving Repr, Inhabited

def Ty.isNoValue : Ty → Bool
  | .user _ n _ => n == "NoValue"
  | _ => false

def Ty.isErr : Ty → Bool
  | .err => true
  | _ => false

def Ty.isAny : Ty → Bool
  | .any => true
  | _ => false

def Ty.noValue : Ty := .user .enum "NoValue" []

mutual
/-- Derived `PartialEq` on `Type` (Symbol equality is by name only). -/
def Ty.beq : Ty → Ty → Bool
  | .any, .any => true
  | .tuple a, .tuple b => Ty.beqList a b
  | .fn n1 tp1 p1 r1, .fn n2 tp2 p2 r2 =>
      n1 == n2 && tp1 == tp2 && Ty.beqList p1 p2 && Ty.beq r1 r2
  | .user k1 n1 a1, .user k2 n2 a2 => k1 == k2 && n1 == n2 && Ty.beqList a1 a2
  | .param a, .param b => a == b
  | .err, .err => true
  | _, _ => false
def Ty.beqList : List Ty → List Ty → Bool
  | [], [] => true
  | a :: as, b :: bs => Ty.beq a b && Ty.beqList as bs
  | _, _ => false
end

mutual
/-- `is_subtype(lhs, rhs)`. The arms are in the order of the Rust `match`. -/
def Ty.sub : Ty → Ty → Bool
  | _, .any => true
  | .user _ n as, r =>
      if n == "NoValue" then true else
      match r with
      | .err => true
      | .user _ n2 bs => if n != n2 then false else Ty.subAll as bs
      | _ => false
  | .err, _ => true
  | _, .err => true
  | .param a, .param b => a == b
  | .param _, _ => false
  | .tuple ls, .tuple rs => if ls.length == rs.length then Ty.subAll ls rs else false
  | .tuple _, _ => false
  | .fn _ _ lp lr, .fn _ _ rp rr =>
      if lp.length != rp.length then false
      else if !(Ty.subAllFlip lp rp) then false
      else Ty.sub lr rr
  | .fn _ _ _ _, _ => false
  | .any, _ => false
termination_by l r => sizeOf l + sizeOf r
decreasing_by all_goals (simp_wf; try omega)
/-- `lhs.iter().zip(rhs).all(is_subtype)` — `zip` truncates to the shorter list. -/
def Ty.subAll : List Ty → List Ty → Bool
  | l :: ls, r :: rs => Ty.sub l r && Ty.subAll ls rs
  | _, _ => true
termination_by l r => sizeOf l + sizeOf r
decreasing_by all_goals (simp_wf; try omega)
/-- Contravariant zip: `is_subtype(rhs_param, lhs_param)` for each pair. -/
def Ty.subAllFlip : List Ty → List Ty → Bool
  | l :: ls, r :: rs => Ty.sub r l && Ty.subAllFlip ls rs
  | _, _ => true
termination_by l r => sizeOf l + sizeOf r
decreasing_by all_goals (simp_wf; try omega)
end

/-- `is_subtype_not_error`. -/
def Ty.subNotError (l r : Ty) : Bool := !l.isErr && Ty.sub l r

mutual
/-- `unify(ty_1, ty_2)`. -/
def Ty.unify : Ty → Ty → Option Ty
  | a, b =>
    if a.isAny || b.isAny then some .any
    else if a.isNoValue || a.isErr then some b
    else if b.isNoValue || b.isErr then some a
    else if Ty.beq a b then some a
    else match a, b with
      | .user k1 n1 a1, .user k2 n2 a2 =>
          if k1 != k2 || n1 != n2 || a1.length != a2.length then none
          else match Ty.unifyArgs a1 a2 with
            | some args => some (.user k1 n1 args)
            | none => none
      | _, _ => none
termination_by a b => sizeOf a + sizeOf b
decreasing_by all_goals (simp_wf; try omega)
def Ty.unifyArgs : List Ty → List Ty → Option (List Ty)
  | a :: as, b :: bs =>
      match Ty.unify a b with
      | none => none
      | some c => match Ty.unifyArgs as bs with
        | none => none
        | some cs => some (c :: cs)
  | _, _ => some []
termination_by a b => sizeOf a + sizeOf b
decreasing_by all_goals (simp_wf; try omega)
end

/-- `unify_all`: fold from `NoValue`; on failure report the index of the first
type that did not unify. -/
def Ty.unifyAllFrom (acc : Ty) (idx : Nat) : List Ty → Except Nat Ty
  | [] => .ok acc
  | t :: ts => match Ty.unify acc t with
    | none => .error idx
    | some u => Ty.unifyAllFrom u (idx + 1) ts

def Ty.unifyAll (ts : List Ty) : Except Nat Ty := Ty.unifyAllFrom Ty.noValue 0 ts

mutual
/-- Arity well-formedness w.r.t. a signature: every use of a type name has the
number of arguments the signature gives it. (The Rust zips type arguments
without comparing lengths; programs the checker accepts satisfy this.) -/
def Ty.wf (sig : String → Nat) : Ty → Bool
  | .any => true
  | .tuple items => Ty.wfList sig items
  | .fn _ _ ps r => Ty.wfList sig ps && Ty.wf sig r
  | .user _ n as => as.length == sig n && Ty.wfList sig as
  | .param _ => true
  | .err => true
def Ty.wfList (sig : String → Nat) : List Ty → Bool
  | [] => true
  | t :: ts => Ty.wf sig t && Ty.wfList sig ts
end

mutual
def Ty.noErr : Ty → Bool
  | .any => true
  | .tuple items => Ty.noErrList items
  | .fn _ _ ps r => Ty.noErrList ps && Ty.noErr r
  | .user _ _ as => Ty.noErrList as
  | .param _ => true
  | .err => false
def Ty.noErrList : List Ty → Bool
  | [] => true
  | t :: ts => Ty.noErr t && Ty.noErrList ts
end
