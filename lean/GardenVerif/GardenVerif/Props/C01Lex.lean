import GardenVerif.Lemmas.Lex
import GardenVerif.Generated.Tables
/-!
# C01 (lexer half) — the lexer never crashes, on any source text

Statements over the model `Lex.lex` of `lex` / `lex_between` (src/parser/lex.rs) *with the fix
patch `lex-fix-nonascii`* (whole-character advance over whitespace and unrecognised characters),
for any token tables satisfying `LexTables.wf` (two-char entries non-empty, one-char entries one
byte) — `LexTables.garden`, the current tables, do (`garden_tables_wf`).

The model has an explicit `panic` outcome wherever the Rust slices a `&str` (`&s[offset..]`,
`&s[0..1]`) or calls `LinePositions::from_offset`; the theorems say that outcome is unreachable.
The argument is the invariant `Lex.Inv`: the loop offset is the byte length of a prefix of the
text (a character boundary) and every iteration that continues consumes at least one character —
which also gives termination: fuel `length + 1` (what `lex` uses) is always enough.

The pinned tree (byte-wise advance) does panic; `pinned_lexer_panics_*` keep the witnesses.
The tie to the Rust is the `lex` correspondence of harness/c23.py (and harness/c01.py).
-/
set_option linter.unusedVariables false

namespace C01Lex
open Lex

theorem garden_tables_wf : LexTables.garden.wf = true := garden_wf

/-- Tie (T): the tables the model uses are the ones `tools/extract_tables.py` regenerates from
`src/parser/lex.rs` on every check run (a change of a Rust table breaks this theorem). -/
theorem garden_tables_match_source :
    LexTables.garden = ⟨Tables.twoCharOperators.map String.toList, Tables.twoCharTokens.map String.toList,
      Tables.oneCharOperators, Tables.oneCharTokens⟩ := by decide

/-- Tie (T): the four regex sources (for `STRING_RE` either the pinned one, modelled by
`strAny = false`, or the one with the C12 escape fix, `strAny = true`; the driver picks by the
same test) and the order in which `lex_between` tries tables and
regexes are the ones the scanners `scanFloat`/`scanInt`/`scanString`/`scanSymbol` and `step`
were transcribed from. -/
theorem regex_sources_and_order_match_source :
    Tables.floatRe = "^-?[0-9][0-9_]*\\.[0-9][0-9_]*" ∧ Tables.integerRe = "^-?[0-9][0-9_]*" ∧
    (Tables.stringRe = "^\"(\\\\\"|[^\"])*(\"|\\z)" ∨ Tables.stringRe = "^\"(\\\\.|[^\"])*(\"|\\z)") ∧ Tables.symbolRe = "^[a-zA-Z_][a-zA-Z0-9_]*" ∧
    Tables.lexTryOrder = ["TWO_CHAR_OPERATORS", "TWO_CHAR_TOKENS", "FLOAT_RE", "INTEGER_RE",
      "ONE_CHAR_OPERATORS", "ONE_CHAR_TOKENS", "STRING_RE", "SYMBOL_RE"] := by decide

/-- The lexer never reaches a panic site, whatever the text. -/
theorem lex_no_panic (T : LexTables) (hT : T.wf = true) (src : List Char) (strAny : Bool) :
    (lex T src strAny).isPanic = false := by
  obtain ⟨_, _, _, h, _⟩ := lex_ok hT src strAny
  rw [h]; rfl

/-- The loop terminates: fuel `src.length + 1` (used by `lex`) is never exhausted. -/
theorem lex_terminates (T : LexTables) (hT : T.wf = true) (src : List Char) (strAny : Bool) :
    (lex T src strAny).isOutOfFuel = false := by
  obtain ⟨_, _, _, h, _⟩ := lex_ok hT src strAny
  rw [h]; rfl

/-- More fuel changes nothing, and `lex_between` from any character boundary `offset`
(= byte length of a prefix `pre`) up to any `end_offset ≤ len` neither panics nor runs out. -/
theorem lex_between_total (T : LexTables) (hT : T.wf = true) (pre rest : List Char)
    (endOff fuel : Nat) (strAny : Bool) (hend : endOff ≤ bytes (pre ++ rest)) (hfuel : rest.length < fuel) :
    ∃ toks trailing errs,
      lexBetweenFuel T (Cfg.fixed strAny) fuel (pre ++ rest) (bytes pre) endOff = .ok toks trailing errs := by
  obtain ⟨t, c, e, h, _⟩ := lexBetween_ok (any := strAny) hT pre rest endOff fuel hend hfuel
  exact ⟨t, c, e, h⟩

/-- Token texts are the slices of the source between their offsets: `src = pre ++ text ++ post`
with `start = |pre|`, `stop = |pre| + |text|` (in bytes). -/
theorem lex_tokens_cover (T : LexTables) (hT : T.wf = true) (src : List Char) (strAny : Bool) :
    ∀ tok ∈ (lex T src strAny).tokens, ∃ pre post, src = pre ++ tok.text ++ post ∧
      tok.pos.start = bytes pre ∧ tok.pos.stop = bytes pre + bytes tok.text := by
  obtain ⟨toks, _, _, h, htoks, _⟩ := lex_ok hT src strAny
  rw [h]
  intro tok htok
  obtain ⟨⟨pre, post, h1, h2⟩, _⟩ := htoks tok htok
  exact ⟨pre, post, h1, by rw [h2]; simp [specPos]⟩

/-- Non-vacuity: non-ASCII whitespace (U+00A0), an unrecognised 2-byte character and a 4-byte
character are lexed to three tokens and two errors. -/
example : (lex LexTables.garden ['1', ' ', '+', ' ', '2', ' ', 'é', '😀', 'x']).tokens.map (·.text)
    = [['1'], ['+'], ['2'], ['x']] := by decide

/-- The pinned lexer (byte-wise advance, `Cfg.pinned`) panics on an unrecognised multi-byte
character: `x = é` (lex.rs:376 `&s[0..1]`). -/
theorem pinned_lexer_panics_on_unrecognised_nonascii :
    (lexOld LexTables.garden ['x', ' ', '=', ' ', 'é']).isPanic = true := by decide

/-- … and on non-ASCII whitespace: `1 +<U+00A0>2` (lex.rs:166 then :121 `&s[offset..]`). -/
theorem pinned_lexer_panics_on_nonascii_whitespace :
    (lexOld LexTables.garden ['1', ' ', '+', ' ', '2']).isPanic = true := by decide

end C01Lex
