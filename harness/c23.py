"""C23 — Reported source positions are consistent.

Proof: GardenVerif.Props.C23 over the lexer model M1 (Model/Lex.lean) and `Position::merge`.
Tie: the `lex` op of the hooked garden vs the `lex` op of the Lean driver on the same texts —
token texts, all six position fields, attached/trailing comments, lex errors, PANIC <=> PANIC.
Direct oracle on the implementation alone (Python recomputes from the text): every position
reported by `lex` (tokens, comments, errors), `astpos` (every position stored in the syntax tree
+ parse errors), `check` (diagnostics and fixes), `garden check --json` (1-based lines, byte
columns) and `garden run` (runtime exception `path:line:col`) must satisfy
  0 <= start <= end <= len, both on UTF-8 character boundaries,
  line == #'\\n' before start, column == start - (offset after the last '\\n' before start),
  end_line / end_column likewise for end.
"""
import os
import re

from . import common
from . import text_gen as G

LEAN_MODULES = ["GardenVerif.Props.C23"]

POS = r"(\d+):(\d+):(\d+):(\d+):(\d+):(\d+)"
ITEM_RE = re.compile(r"\((tok|c|trail|err|perr|diag|fix|p) ([^()]*?)" + POS + r"(?=[ )])")
FIELDS = ["start", "end", "line", "endline", "col", "endcol"]


def boundary(b, off):
    return off == len(b) or (b[off] & 0xC0) != 0x80


def line_col(b, off):
    return b.count(b"\n", 0, off), off - (b.rfind(b"\n", 0, off) + 1)


def judge(b, pos):
    """None if the six fields are consistent with the bytes `b`, else (field, explanation)."""
    s, e, l, el, c, ec = pos
    if not (0 <= s <= e <= len(b)):
        return "range", "not 0 <= start(%d) <= end(%d) <= len(%d)" % (s, e, len(b))
    if not boundary(b, s):
        return "start-boundary", "start offset %d is inside a character" % s
    if not boundary(b, e):
        return "end-boundary", "end offset %d is inside a character" % e
    xl, xc = line_col(b, s)
    if l != xl:
        return "line", "line %d but %d newlines precede offset %d" % (l, xl, s)
    if c != xc:
        return "column", "column %d but offset %d is %d bytes after its line start" % (c, s, xc)
    xl, xc = line_col(b, e)
    if el != xl:
        return "end-line", "end line %d but the line containing end offset %d is %d" % (el, e, xl)
    if ec != xc:
        return "end-column", "end column %d but end offset %d is %d bytes after its line start" % (ec, e, xc)
    return None


def items(resp):
    """[(kind, leading atoms, (six ints))] of a hook response."""
    out = []
    for m in ITEM_RE.finditer(resp):
        out.append((m.group(1), m.group(2).split(), tuple(int(x) for x in m.groups()[2:])))
    return out


def msg_class(atoms):
    """A short, stable class for a diagnostic message (first words, identifiers blanked)."""
    for a in atoms:
        if re.fullmatch(r"(?:[0-9a-f]{2})+", a) and len(a) >= 8:
            t = common.unhex(a)
            t = re.sub(r"`[^`]*`", "`_`", t)
            return re.sub(r"[^A-Za-z_`]+", "-", " ".join(t.split()[:4])).strip("-")[:40]
    return "-"


def oracle_on(ctx, op, text, resp, stats):
    """Judge every position in one hook response. Returns number of positions judged."""
    b = text.encode("utf-8")
    n = 0
    for kind, atoms, pos in items(resp):
        n += 1
        v = judge(b, pos)
        stats["positions"] = stats.get("positions", 0) + 1
        if pos[3] > pos[2]:
            stats["multi_line_positions"] = stats.get("multi_line_positions", 0) + 1
        if v:
            key = "C23/%s-%s-%s" % (op, kind, v[0])
            if kind in ("diag", "fix", "perr") and op != "lex":
                key += "/" + msg_class(atoms)
            ctx.fail(key, "%s reports a %s position %s: %s" % (op, kind, ":".join(map(str, pos)), v[1]),
                     input=text, command="printf '%s %s\\n' | garden verif" % (op, common.hexs(text)),
                     expected="start:end:line:endline:col:endcol consistent with the text",
                     observed=resp[:600])
    return n


SMOKE = bool(os.environ.get("VERIF_SMOKE"))   # tiny sizes, for trying mutations quickly


def texts_for(ctx):
    rng = ctx.rng
    streams = {}
    n_ex = 2 if SMOKE else ctx.scale(3, 4)
    streams["exhaustive"] = list(G.exhaustive(G.EXHAUSTIVE_ALPHABET, n_ex))
    streams["exhaustive_string"] = list(G.exhaustive(G.EXHAUSTIVE_STRING_ALPHABET, 4 if SMOKE else ctx.scale(6, 8)))
    n = 800 if SMOKE else ctx.scale(5000, 30000)
    streams["raw"] = [G.raw(rng) for _ in range(n)]
    streams["tokens"] = [G.tokens(rng) for _ in range(n)]
    streams["stringy"] = [G.stringy(rng) for _ in range(n)]
    streams["perturbed"] = [G.perturbed(rng, common.REPO) for _ in range(n)]
    streams["seeds"] = [t for _, t in G.seeds(common.REPO)]
    fixed = ['let x = "a\nb" // c', "let x = é", "1 + 2", '"a\\\\" b"', '"abc', '"\\"', '"',
             "#!/usr/bin/garden\nx", "// c", "//\n//", 'fun f() { "é\n\n" }\n', "\ufeffx"]
    streams["fixed"] = fixed
    return streams


def private_driver(ctx):
    """A private copy of the model driver: other checks relink the shared gvdriver concurrently
    (lake replaces the file), which would look like the model dying."""
    import shutil
    import time
    dst = os.path.join(ctx.scratch("drv"), "gvdriver")
    for _ in range(120):
        try:
            shutil.copy2(common.DRIVER, dst)
            rc, so, _ = common.run_cmd([dst], input="ping\n", timeout=20)
            if so.strip() == "OK pong":
                return dst
        except OSError:
            pass
        time.sleep(1)
    return common.DRIVER


def run(ctx):
    streams = texts_for(ctx)
    ctx.rule = ("texts from 4 generated streams (weighted raw alphabet incl. 2/3/4-byte chars and non-ASCII "
                "whitespace; whole-token sequences with independent gaps; quote/backslash/newline-dense; "
                "perturbed reftest/prelude seeds) + all seed files + exhaustive strings of length <= %d over "
                "%d symbols and <= %d over {\",\\,a,LF,space}. Non-trivial = the text contains a non-ASCII "
                "character or a newline (so byte columns / line counts are exercised)."
                % (ctx.scale(3, 4), len(G.EXHAUSTIVE_ALPHABET), ctx.scale(6, 8)))
    all_texts, origin = [], []
    seen = set()
    for name, ts in streams.items():
        for t in ts:
            if t in seen or "\x00" in t:
                continue
            seen.add(t)
            all_texts.append(t)
            origin.append(name)
    lines = ["lex " + common.hexs(t) for t in all_texts]
    impl = ctx.garden_batch(lines)
    model = common.batch([private_driver(ctx)], lines)
    stats = {}
    per_stream = {}
    feats = {}
    n_dis = 0
    n_panic = 0
    tokens_total = 0
    for t, o, i, m in zip(all_texts, origin, impl, model):
        f = G.classify(t)
        for x in f:
            feats[x] = feats.get(x, 0) + 1
        ctx.case(("lex", t), bool(f & {"nonascii", "multiline"}))
        per_stream[o] = per_stream.get(o, 0) + 1
        i = i or "DIED none"
        m = m or "DIED none"
        ipanic, mpanic = i.startswith("PANIC") or i.startswith("DIED"), m.startswith("PANIC")
        agree = (ipanic and mpanic) or (i == m)
        # direct oracle first (always), on the implementation's answer
        if ipanic:
            n_panic += 1
            ctx.fail("C23/lex-panic", "the lexer crashes, so no positions are reported: " +
                     (common.unhex(i.split(" ", 1)[1])[:200] if i.startswith("PANIC ") else i),
                     input=t, command="printf 'lex %s\\n' | garden verif" % common.hexs(t))
        elif i.startswith("OK"):
            tokens_total += oracle_on(ctx, "lex", t, i, stats)
        else:
            ctx.fail("C23/hook-error", "lex hook answered %r" % i[:100], input=t)
        if not agree:
            n_dis += 1
            if n_dis <= 20:
                ctx.disagree("lex", {"text": t, "hex": common.hexs(t), "stream": o}, m[:600], i[:600])
    for k in (7, len(all_texts) // 2, len(all_texts) - 3):
        ctx.sample({"op": "lex", "text": all_texts[k][:80], "impl": (impl[k] or "")[:200],
                    "model": (model[k] or "")[:200]})
    ctx.cov["lex_texts_compared"] = len(all_texts)
    ctx.cov["lex_disagreements"] = n_dis
    ctx.cov["lex_panics"] = n_panic
    ctx.cov["per_stream"] = per_stream
    ctx.cov["text_features"] = feats
    ctx.log("lex: %d texts, %d disagreements, %d panics, %d positions judged" % (
        len(all_texts), n_dis, n_panic, stats.get("positions", 0)))

    # ---------------- parser / checker positions (oracle only)
    rng = ctx.rng
    n_ast = 300 if SMOKE else ctx.scale(2000, 24000)
    progs = list(streams["seeds"])[:: 5 if SMOKE else 1] + streams["tokens"][:n_ast] + streams["perturbed"][:n_ast] + \
        streams["stringy"][:n_ast // 4] + streams["fixed"]
    progs = [p for p in dict.fromkeys(progs) if "\x00" not in p]
    skipped = 0
    for op in ("astpos", "check"):
        res = ctx.garden_batch(["%s %s" % (op, common.hexs(p)) for p in progs])
        judged = 0
        for p, r in zip(progs, res):
            r = r or "DIED none"
            if not r.startswith("OK"):
                skipped += 1      # parser/checker crashes are C01's business
                continue
            k = oracle_on(ctx, op, p, r, stats)
            judged += k
            ctx.case((op, p), k > 0 and bool(G.classify(p) & {"nonascii", "multiline"}))
        ctx.cov[op + "_positions"] = judged
        ctx.log("%s: %d programs, %d positions judged" % (op, len(progs), judged))
    ctx.cov["front_end_crashes_skipped"] = skipped
    ctx.cov["positions_judged"] = stats.get("positions", 0)
    ctx.cov["multi_line_positions"] = stats.get("multi_line_positions", 0)

    cli_progs = [p for p in progs if 0 < len(p) < 3000][:: max(1, len(progs) // (8 if SMOKE else ctx.scale(50, 600)))]
    # incomplete inputs whose "reached the end of the file" diagnostics are anchored on something
    # spanning several lines: every token-boundary prefix of templates with multi-line tokens and
    # multi-line argument / element / initialiser positions (found missing by a seeded change that
    # exported end_line_number = line_number for ParseError::Incomplete)
    templates = ['let greeting = shout("héllo\nwörld", 1)\n', 'let xs = [\n  "a\nb",\n  2,\n]\n',
                 'fun f(x: Int,\n      y: String): Int {\n  g(x,\n    "p\nq")\n}\n',
                 'let t = (1,\n  "é\n😀",\n  3)\n', 'match f("a\nb") {\n  Some(x) => { x }\n  None => { 0 }\n}\n',
                 'let d = Dict["k\n" => 1,\n  "v" => 2]\n', 'if g("x\ny") {\n  1\n} else {\n  2\n}\n',
                 'let p = Foo{ a: "m\nn",\n  b: 2 }\n', 'foo(\n  bar(\n    "s\nt"\n  )\n)\n']
    incomplete = []
    lexed = ctx.garden_batch(["lex " + common.hexs(t) for t in templates])
    for t, r in zip(templates, lexed):
        ends = sorted({int(m.group(1)) for m in re.finditer(r"\(tok [0-9a-f]* \d+:(\d+):", r or "")})
        b = t.encode("utf-8")
        incomplete += [b[:e].decode("utf-8", "ignore") for e in ends]
    ctx.cov["check_json_incomplete_inputs"] = len(incomplete)
    cli_check(ctx, cli_progs + incomplete)
    cli_run(ctx)
    keys = sorted({f["key"] for f in ctx.failures})
    if keys:
        ctx.log("distinct failing oracle keys (%d): %s" % (len(keys), ", ".join(keys[:40])))
    ctx.assumptions += [
        "model Lex.lex is hand-written from src/parser/lex.rs (+ line-numbers 0.4.0 from_offset, regex "
        "leftmost-first semantics of the four anchored regexes); only the `lex` correspondence ties it",
        "parser-built positions are covered by merge_consistent (every one is a token/comment position or a "
        "Position::merge of such) and checked on the implementation by the astpos oracle; hand-built "
        "positions in src/checks/*.rs are covered by the oracle only",
        "LinePositions' binary search is modelled as a linear search for the unique containing line"]


def _resolve(b, line0, col):
    """Byte offset of (zero-based line, byte column), or None if that is not inside the text."""
    starts = [0]
    for k, ch in enumerate(b):
        if ch == 10:
            starts.append(k + 1)
    if line0 < 0 or line0 >= len(starts):
        return None
    end = starts[line0 + 1] - 1 if line0 + 1 < len(starts) else len(b)
    off = starts[line0] + col
    if off > end:
        return None
    return off


def cli_check(ctx, progs):
    """`garden check --json`: 1-based lines, zero-based byte columns; each (line, column) must
    denote an offset inside the file on a character boundary, start <= end."""
    import json
    d = ctx.scratch("cli")

    def one(arg):
        k, p = arg
        path = os.path.join(d, "c%d.gdn" % k)
        with open(path, "w", encoding="utf-8") as f:
            f.write(p)
        rc, so, _ = ctx.garden(["check", "--json", path], timeout=20)
        return p, rc, so

    n = 0
    for p, rc, so in common.pmap(one, list(enumerate(progs))):
        if common.crashed(rc) or rc == -9999:
            continue
        b = p.encode("utf-8")
        for line in so.split("\n"):
            line = line.strip()
            if not line.startswith("{"):
                continue
            try:
                j = json.loads(line)
            except ValueError:
                continue
            if "line_number" not in j:
                continue
            n += 1
            s = _resolve(b, j["line_number"] - 1, j["column"])
            e = _resolve(b, j["end_line_number"] - 1, j["end_column"])
            bad = None
            if s is None or e is None:
                bad = "range", "line/column does not denote an offset inside the file"
            elif not boundary(b, s) or not boundary(b, e):
                bad = "boundary", "line/column denotes an offset inside a character"
            elif s > e:
                bad = "order", "start is after end"
            ctx.case(("check-json", p, line), bool(G.classify(p) & {"nonascii", "multiline"}))
            if bad:
                ctx.fail("C23/check-json-%s/%s" % (bad[0], msg_class([common.hexs(j.get("message", ""))])),
                         "`garden check --json` reports %s: %s" % (line[:200], bad[1]), input=p,
                         command="garden check --json <file with this text>")
    ctx.cov["check_json_diagnostics"] = n


RUN_PRELUDES = ['let s = "é\nb"\n', 'let t = "a\n\n  😀"  ', "// é中\n", 'let u = "ü" ', "", "  ",
                'fun f(x) { "a\nb" }\n', 'let w = "\\"\n" ']
RUN_FAILS = ['throw("x")', "nosuch_fn()", "nosuch_var", "1 / 0", 'assert(1 == 2)', '"é" + 1']


def cli_run(ctx):
    """Runtime exception positions of `garden run file`: `file:LINE:COL` is 1-based line and
    1-based BYTE column of the start of the failing expression (known by construction)."""
    rng = ctx.rng
    d = ctx.scratch("run")
    cases = []
    for k in range(8 if SMOKE else ctx.scale(40, 400)):
        pre = "".join(rng.choice(RUN_PRELUDES) for _ in range(rng.randint(0, 4)))
        fail = rng.choice(RUN_FAILS)
        cases.append((k, pre, fail))

    def one(c):
        k, pre, fail = c
        path = os.path.join(d, "r%d.gdn" % k)
        with open(path, "w", encoding="utf-8") as f:
            f.write(pre + fail + "\n")
        rc, so, se = ctx.garden(["run", path], timeout=20)
        return c, rc, so + se

    n = 0
    for (k, pre, fail), rc, out in common.pmap(one, cases):
        out = re.sub(r"\x1b\[[0-9;]*m", "", out)
        m = re.search(r"r%d\.gdn:(\d+):(\d+)" % k, out)
        if not m:
            continue
        n += 1
        text = pre + fail + "\n"
        b = text.encode("utf-8")
        start = len(pre.encode("utf-8"))
        # the reported expression starts at `fail` or (binary operators) somewhere inside it
        got = (int(m.group(1)) - 1, int(m.group(2)) - 1)
        off = _resolve(b, got[0], got[1])
        ctx.case(("run", text), bool(G.classify(pre) & {"nonascii", "multiline"}))
        ok = off is not None and boundary(b, off) and start <= off < start + len(fail.encode("utf-8"))
        if not ok:
            ctx.fail("C23/run-exception-position", "`garden run` reports %s:%s but the failing expression %r "
                     "starts at byte %d = line %d, byte column %d (1-based %d:%d)" % (
                         m.group(1), m.group(2), fail, start, line_col(b, start)[0], line_col(b, start)[1],
                         line_col(b, start)[0] + 1, line_col(b, start)[1] + 1),
                     input=text, command="garden run <file with this text>", observed=out[:400])
    ctx.cov["run_exception_positions"] = n
