import GardenVerif.Lemmas.AlphaClosure
/-!
# C19 — Rename changes exactly the occurrences of one variable

(V) certified validator. `Validators.renProg ⟨site, x, y⟩ p` is the program in which the binder at
`site` (if it binds `x`) and exactly the occurrences of `x` that RESOLVE to it (lexical resolver =
the `act` flag of `Validators.ren`: let / parameter / for / match-payload binders, block scoping,
shadowing, closures) are renamed to `y`; nothing else changes (ids and use flags included).
`IsAlphaRename p p' site x y := p' = renProg ⟨site, x, y⟩ p` is decided by `alphaCheck`, which the
driver evaluates on the two trees of the REAL parser (before / after `garden reftest-rename`).

Proved here, for ALL programs (closures included) and all fuel:
* `alphaCheck_sound` — the decision procedure implies the relation;
* `alpha_sound` — related programs, `y` fresh, have the same observable behaviour under the FULL reference
  semantics `RefSem` (`cl = true`: closures capture by value, as the evaluator does): the run ends the same way
  and prints the same, for every fuel. It is a corollary of
* `alpha_sound_related` — the two runs end with results and stores related by `Validators.VRel`: equal except
  that a closure value of the renamed run carries the renamed parameters / body and a captured environment
  whose entries for the renamed binder are called `y` (closure values carry code, so equality is impossible);
  `VRel`-related values display equally (`VRel.display`) and compare equally (`VRel.valueEq`), which is why
  the printed output is EQUAL;
* `alpha_sound_exact_closure_free` — for the closure-free restriction (`cl = false`) the runs are EQUAL (same
  result value, same store, same output);
* `apply_renames_spec` — exact model of `apply_renames` (src/rename.rs 87-101): on a text cut into
  (gap, token) segments, given the token positions in any order, it returns the text with exactly
  those tokens replaced and every gap untouched, and does not panic.
-/
set_option linter.unusedVariables false

namespace C19
open Validators RefSem
open Machine (Program Expr)

/-- The decision procedure the driver runs implies the relation. -/
theorem alphaCheck_sound (p p' : Program) (site : Site) (x y : String)
    (h : alphaCheck p p' site x y = true) : IsAlphaRename p p' site x y :=
  progEq_sound _ _ h

/-- Alpha-renaming one binder to a fresh name does not change the run (closure-free restriction
of the reference semantics): same result, same final store, same printed output, for every fuel. -/
theorem alpha_sound_exact_closure_free (p p' : Program) (site : Site) (x y : String)
    (h : IsAlphaRename p p' site x y) (hfresh : freshProg y p = true)
    (hx : x ≠ "_") (hy : y ≠ "_") (hxy : x ≠ y) :
    ∀ fuel, run false p' fuel = run false p fuel := by
  intro fuel
  unfold IsAlphaRename at h
  subst h
  simp only [freshProg, Bool.and_eq_true, List.all_eq_true] at hfresh
  have hc : RCtx ⟨site, x, y⟩ p (renProg ⟨site, x, y⟩ p) :=
    { hx := hx, hy := hy, hxy := hxy, funs := rfl, enums := rfl, freshFuns := hfresh.1 }
  exact (sound_all hc fuel).seq false [] [] St.init p.toplevel ER.nil hfresh.2

/-- Same observable behaviour (how the run ends, what it printed). -/
theorem alpha_sound_behaviour_closure_free (p p' : Program) (site : Site) (x y : String)
    (h : IsAlphaRename p p' site x y) (hfresh : freshProg y p = true)
    (hx : x ≠ "_") (hy : y ≠ "_") (hxy : x ≠ y) :
    ∀ fuel, behaviour false p' fuel = behaviour false p fuel := by
  intro fuel
  simp only [behaviour, alpha_sound_exact_closure_free p p' site x y h hfresh hx hy hxy fuel]

/-- What the driver's verdict gives: check passed ⇒ same behaviour. -/
theorem alphaCheck_behaviour_closure_free (p p' : Program) (site : Site) (x y : String)
    (h : alphaCheck p p' site x y = true) (hfresh : freshProg y p = true)
    (hx : x ≠ "_") (hy : y ≠ "_") (hxy : x ≠ y) :
    ∀ fuel, behaviour false p' fuel = behaviour false p fuel :=
  alpha_sound_behaviour_closure_free p p' site x y (alphaCheck_sound p p' site x y h) hfresh hx hy hxy

/-- `alpha_sound`, relational form (FULL semantics, closures included): the runs of `p` and of its
alpha-renaming end with `VRel`-related results and stores and the same printed output, for every fuel
and both settings of `cl`. -/
theorem alpha_sound_related (p p' : Program) (site : Site) (x y : String)
    (h : IsAlphaRename p p' site x y) (hfresh : freshProg y p = true)
    (hx : x ≠ "_") (hy : y ≠ "_") (hxy : x ≠ y) (cl : Bool) :
    ∀ fuel, PR ⟨site, x, y⟩ (run cl p fuel) (run cl p' fuel) := by
  intro fuel
  unfold IsAlphaRename at h
  subst h
  simp only [freshProg, Bool.and_eq_true, List.all_eq_true] at hfresh
  have hc : RCtx ⟨site, x, y⟩ p (renProg ⟨site, x, y⟩ p) :=
    { hx := hx, hy := hy, hxy := hxy, funs := rfl, enums := rfl, freshFuns := hfresh.1 }
  exact (soundC_all hc fuel).seq false [] [] St.init St.init p.toplevel ER.nil ⟨.nil, rfl⟩ hfresh.2

/-- `alpha_sound` (no closure-free hypothesis): renaming one binder, and exactly the occurrences
that resolve to it, to a fresh name leaves the observable behaviour — how the run ends and what it
prints — unchanged, for every fuel, under the full reference semantics. -/
theorem alpha_sound (p p' : Program) (site : Site) (x y : String)
    (h : IsAlphaRename p p' site x y) (hfresh : freshProg y p = true)
    (hx : x ≠ "_") (hy : y ≠ "_") (hxy : x ≠ y) :
    ∀ fuel, behaviour true p' fuel = behaviour true p fuel := by
  intro fuel
  have hr := alpha_sound_related p p' site x y h hfresh hx hy hxy true fuel
  simp only [behaviour, hr.1.outcome, hr.2.2]

/-- What the driver's verdict gives, closures included: check passed ⇒ same behaviour. -/
theorem alphaCheck_behaviour (p p' : Program) (site : Site) (x y : String)
    (h : alphaCheck p p' site x y = true) (hfresh : freshProg y p = true)
    (hx : x ≠ "_") (hy : y ≠ "_") (hxy : x ≠ y) :
    ∀ fuel, behaviour true p' fuel = behaviour true p fuel :=
  alpha_sound p p' site x y (alphaCheck_sound p p' site x y h) hfresh hx hy hxy

/-- Closure capturing the renamed variable: `let x = 1; let f = fun(a) { a + x }; let x = 2; f(x)`,
renaming the FIRST `x`: the use inside the closure follows, the second binder and its use do not. -/
example :
    let p : Program := ⟨[], [], [.letE 1 false (.sym "x") (.int 2 true 1),
      .letE 3 false (.sym "f") (.lambda 4 true ["a"] [.binop 5 true .add (.var 6 true "a") (.var 7 true "x")]),
      .letE 8 false (.sym "x") (.int 9 true 2),
      .call 10 true (.var 11 true "f") [.var 12 true "x"]]⟩
    (renProg ⟨.node 1 0 0, "x", "y"⟩ p).toplevel =
      [.letE 1 false (.sym "y") (.int 2 true 1),
       .letE 3 false (.sym "f") (.lambda 4 true ["a"] [.binop 5 true .add (.var 6 true "a") (.var 7 true "y")]),
       .letE 8 false (.sym "x") (.int 9 true 2),
       .call 10 true (.var 11 true "f") [.var 12 true "x"]] ∧
    freshProg "y" p = true := by
  simp [renProg, renSeq, renList, ren, actAfter, renDest, renName, renNames, hitNode, rn, freshProg, freshSeq,
    fresh, freshDest, freshNames]

/-- `apply_renames`: replacing the tokens at the given positions (any order; sorted first, as the
Rust does) of a segmented text yields the text with exactly those tokens replaced — no panic. -/
theorem apply_renames_spec {α} (new : List α) (segs : List (List α × List α)) (last : List α)
    (positions : List (Nat × Nat))
    (hpos : positions.mergeSort (fun a b => a.1 ≤ b.1) = positionsOf 0 segs) :
    applyRenames (buildText segs last) new positions = some (buildRenamed new segs last) := by
  unfold applyRenames
  rw [hpos]
  have := applyRenamesGo_spec new segs [] last []
  simpa using this

/-- Non-trivial instance (bytes as numbers): tokens at 1..2 and 4..6 replaced by `9 9`. -/
example : applyRenamesGo [0, 1, 2, 3, 4, 5, 6] [9, 9] 0 [(1, 2), (4, 6)] []
    = some [0, 9, 9, 2, 3, 9, 9, 6] := by decide

/-- Shadowing: renaming the outer `x` of `let x = 1; if c { let x = 2; x }; x` leaves the inner
binder and its use alone. -/
example :
    let p : Program := ⟨[], [], [.letE 1 false (.sym "x") (.int 2 true 1),
      .ifE 3 false (.var 4 true "c") [.letE 5 false (.sym "x") (.int 6 true 2), .var 7 false "x"] none,
      .var 8 true "x"]⟩
    (renProg ⟨.node 1 0 0, "x", "y"⟩ p).toplevel =
      [.letE 1 false (.sym "y") (.int 2 true 1),
       .ifE 3 false (.var 4 true "c") [.letE 5 false (.sym "x") (.int 6 true 2), .var 7 false "x"] none,
       .var 8 true "y"] := by
  simp [renProg, renSeq, ren, renOpt, actAfter, renDest, renName, hitNode, rn]

end C19
