import GardenVerif.Props.C33
/-!
C03 — Operator chains are left-associative with uniform precedence.

Model: `Parse.parseExpression` (M2) of the REPAIRED parser (`pn = false`): the infix arm of the
trailing loop parses its right operand without infix operators and the loop folds left
(/verif/patches/parser-fix-left-assoc.diff). On the pinned tree the property is violated
(`10 - 1 - 1 - 1` is parsed as `(10 - (1 - 1)) - 1`): `pinned_chain_wrong` below.

Operands ("atoms") are the expressions `e` with `ParseLemmas.WF true e`: integer literals (every
i64 value: `ParseLemmas.intTok_of_i64` proves that the decimal text of every i64 is read back by the
parser as that value, so there is no hypothesis about integer tokens), variables,
calls `f(a, …)` whose arguments are arbitrary chains, and parenthesised chains, nested to any depth.
`ParseLemmas.reach` proves the operand hypothesis (`ReachAll true e n`: from the first token of the
operand the parser gets back into the trailing loop holding exactly `e`) for all of them.
Operators: any member of `Parse.gardenBinaryOps` (the table of `token_as_binary_op`; the proofs use
only that a member is none of `( . :: = += -= {`, checked by `decide` over the table).

`chain_left_assoc_all` (end of the file) is the same statement for operands of EVERY closed kind
(`RT.WT .closed` of Props/C33.lean: also strings, floats, method calls, dot / `::` access, lists,
tuples, dictionaries, struct literals, lambdas, `assert`, `if` / `while` / `for` / `match` / `try`).
-/

namespace C03
open Parse Print ParseLemmas

/-- `((x₀ op₁ x₁) op₂ x₂) … opₙ xₙ`. -/
def chainExpr (x₀ : Expr) (rest : List (String × Expr)) : Expr :=
  rest.foldl (fun acc p => .binop acc p.1 p.2) x₀

/-- The tokens of `x₀ op₁ x₁ … opₙ xₙ` (all on line `ln`; operators surrounded by spaces). -/
def tokensOf (ln : Nat) (first : Bool) (x₀ : Expr) (rest : List (String × Expr)) : List Tok :=
  T ln first x₀ ++ rest.flatMap (fun p => ⟨p.1, false, ln, ln⟩ :: T ln false p.2)

def OpsOk (rest : List (String × Expr)) : Prop :=
  ∀ p ∈ rest, gardenBinaryOps.contains p.1 = true ∧ WF true p.2

theorem chain_wf_aux (l : Expr) (rest : List (String × Expr)) (hl : WF false l) (hr : OpsOk rest) :
    WF false (chainExpr l rest) := by
  induction rest generalizing l with
  | nil => exact hl
  | cons p rest ih =>
    have hp := hr p (List.mem_cons_self ..)
    exact ih (.binop l p.1 p.2) (WF.binop hl hp.1 hp.2) (fun q hq => hr q (List.mem_cons_of_mem _ hq))

theorem chain_tokens_aux (ln : Nat) (first : Bool) (l : Expr) (rest : List (String × Expr))
    (hl : WF false l) (hr : OpsOk rest) :
    T ln first (chainExpr l rest) = T ln first l ++ rest.flatMap (fun p => ⟨p.1, false, ln, ln⟩ :: T ln false p.2) := by
  induction rest generalizing l with
  | nil => simp [chainExpr]
  | cons p rest ih =>
    have hp := hr p (List.mem_cons_self ..)
    have := ih (.binop l p.1 p.2) (WF.binop hl hp.1 hp.2) (fun q hq => hr q (List.mem_cons_of_mem _ hq))
    simp only [chainExpr, List.foldl_cons] at this ⊢
    rw [this, T_binop ln first l p.2 p.1 (hl.allT first)]
    simp [List.append_assoc]

/-- **C03, main theorem.** For every operand `x₀`, every list of (operator, operand) pairs — any
length, any mix of the 21 operators — and every context (`pre` before, `post` after, where `post`
does not start with something that continues an expression), the parser returns the LEFT-nested
tree `((x₀ op₁ x₁) op₂ x₂) …`, consumes exactly the chain's tokens and reports no diagnostic, for
every fuel above a bound that depends only on the chain. -/
theorem chain_left_assoc (x₀ : Expr) (rest : List (String × Expr)) (h0 : WF true x₀) (hr : OpsOk rest) :
    ∃ n, ∀ (fuel ln : Nat) (first : Bool) (pre post : List Tok) (d : List DiagKind),
      n ≤ fuel → Follow post → ChainStop post →
      ∃ ln', parseExpression (pre ++ tokensOf ln first x₀ rest ++ post) false fuel ⟨pre.length, d⟩ =
        .ok ⟨rest.foldl (fun acc p => .binop acc p.1 p.2) x₀,
             ⟨ln', pre.length + (tokensOf ln first x₀ rest).length⟩⟩
            ⟨pre.length + (tokensOf ln first x₀ rest).length, d⟩ := by
  obtain ⟨n, hn⟩ := parse_print_fragment (chain_wf_aux x₀ rest (.closed h0) hr)
  refine ⟨n, ?_⟩
  intro fuel ln first pre post d hf hfo hc
  have ht := chain_tokens_aux ln first x₀ rest (.closed h0) hr
  have := hn fuel ln first pre post d hf hfo hc
  simp only [chainExpr] at ht this
  rw [ht] at this
  exact this

/-- A whole source text that is one chain: `parse_toplevel_items`' expression parser at index 0 with
nothing after it. -/
theorem chain_left_assoc_whole (x₀ : Expr) (rest : List (String × Expr)) (h0 : WF true x₀) (hr : OpsOk rest) :
    ∃ n, ∀ fuel, n ≤ fuel →
      ∃ ln', parseExpression (tokensOf 0 true x₀ rest) false fuel ⟨0, []⟩ =
        .ok ⟨rest.foldl (fun acc p => .binop acc p.1 p.2) x₀, ⟨ln', (tokensOf 0 true x₀ rest).length⟩⟩
            ⟨(tokensOf 0 true x₀ rest).length, []⟩ := by
  obtain ⟨n, hn⟩ := chain_left_assoc x₀ rest h0 hr
  refine ⟨n, fun fuel hf => ?_⟩
  have := hn fuel 0 true [] [] [] hf (by intro t h; simp at h) (by intro t h; simp at h)
  simpa using this

/-- **Explicit parentheses override the grouping** (right operand): `a op ( chain )` is the tree
`binop a op (paren chain)` — the parenthesised chain stays one operand (a `Parentheses` node), it is
not re-associated into the outer chain. -/
theorem paren_overrides_right (a inner : Expr) (op : String) (ha : WF false a) (hi : WF false inner)
    (hop : gardenBinaryOps.contains op = true) :
    ∃ n, ∀ (fuel ln : Nat) (first : Bool) (pre post : List Tok) (d : List DiagKind),
      n ≤ fuel → Follow post → ChainStop post →
      ∃ ln', parseExpression (pre ++ T ln first (.binop a op (.paren inner)) ++ post) false fuel ⟨pre.length, d⟩ =
        .ok ⟨.binop a op (.paren inner), ⟨ln', pre.length + (T ln first (.binop a op (.paren inner))).length⟩⟩
            ⟨pre.length + (T ln first (.binop a op (.paren inner))).length, d⟩ :=
  parse_print_fragment (.binop ha hop (.paren hi))

/-- **Explicit parentheses override the grouping** (left operand): `( chain ) op c` is
`binop (paren chain) op c`. -/
theorem paren_overrides_left (inner c : Expr) (op : String) (hi : WF false inner) (hc : WF true c)
    (hop : gardenBinaryOps.contains op = true) :
    ∃ n, ∀ (fuel ln : Nat) (first : Bool) (pre post : List Tok) (d : List DiagKind),
      n ≤ fuel → Follow post → ChainStop post →
      ∃ ln', parseExpression (pre ++ T ln first (.binop (.paren inner) op c) ++ post) false fuel ⟨pre.length, d⟩ =
        .ok ⟨.binop (.paren inner) op c, ⟨ln', pre.length + (T ln first (.binop (.paren inner) op c)).length⟩⟩
            ⟨pre.length + (T ln first (.binop (.paren inner) op c)).length, d⟩ :=
  parse_print_fragment (.binop (.closed (.paren hi)) hop hc)

/-- The shape of the tokens of a parenthesised right operand: `a op ( inner )`. -/
theorem paren_tokens (ln : Nat) (first : Bool) (a inner : Expr) (op : String) (ha : WF false a) (hi : WF false inner) :
    T ln first (.binop a op (.paren inner)) =
      T ln first a ++ ⟨op, false, ln, ln⟩ :: ⟨"(", false, ln, ln⟩ :: (T ln true inner ++ [⟨")", true, ln, ln⟩]) := by
  rw [T_binop ln first a _ op (ha.allT first), T_paren ln false inner (hi.allT true)]

/-! ### Hypotheses are satisfiable; the pinned parser is wrong -/

theorem intTok_10 : I64 10 := ⟨by decide, by decide⟩
theorem intTok_1 : I64 1 := ⟨by decide, by decide⟩
theorem validName_f : ValidName "f" := ⟨by decide, by decide, by decide, by decide⟩

/-- `10 - 1 - f(1 * 10) - (1 - 1)` satisfies the hypotheses of `chain_left_assoc`. -/
example : WF true (.intLit 10) ∧
    OpsOk [("-", .intLit 1), ("-", .call (.var "f") [.binop (.intLit 1) "*" (.intLit 10)]),
           ("-", .paren (.binop (.intLit 1) "-" (.intLit 1)))] := by
  refine ⟨.int intTok_10, ?_⟩
  intro p hp
  simp at hp
  rcases hp with rfl | rfl | rfl
  · exact ⟨by decide, .int intTok_1⟩
  · exact ⟨by decide, .call (.var validName_f) (by
      intro a ha; simp at ha; subst ha
      exact .binop (.closed (.int intTok_1)) (by decide) (.int intTok_10))⟩
  · exact ⟨by decide, .paren (.binop (.closed (.int intTok_1)) (by decide) (.int intTok_1))⟩

def witnessToks : List Tok :=
  [⟨"10", true, 0, 0⟩, ⟨"-", false, 0, 0⟩, ⟨"1", false, 0, 0⟩, ⟨"-", false, 0, 0⟩, ⟨"1", false, 0, 0⟩,
   ⟨"-", false, 0, 0⟩, ⟨"1", false, 0, 0⟩]

def resExpr : Res PExpr → Option Expr
  | .ok v _ => some v.e
  | _ => none

/-- Fully parenthesised rendering of integer operator trees (to state the witnesses). -/
def shapeOf : Expr → String
  | .binop l op r => "(" ++ shapeOf l ++ op ++ shapeOf r ++ ")"
  | .intLit i => toString i
  | _ => "?"

/-- The PINNED parser (`pn = true`: right-recursive call + one rotation, parser.rs:1321-1357) groups
`10 - 1 - 1 - 1` as `(10 - (1 - 1)) - 1`, which evaluates to 9: the property fails on the pinned tree. -/
theorem pinned_chain_wrong :
    (resExpr (parseExpressionT witnessToks true true 40 ⟨0, []⟩)).map shapeOf = some "((10-(1-1))-1)" := by
  decide

/-- The repaired parser on the same tokens (an instance of `chain_left_assoc`, evaluated). -/
theorem fixed_chain_witness :
    (resExpr (parseExpressionT witnessToks false true 40 ⟨0, []⟩)).map shapeOf = some "(((10-1)-1)-1)" := by
  decide

/-! ### Every operand kind

The theorems above are about the operand fragment `WF` (literals, variables, calls, parentheses). With
the whole-grammar development of Props/C33.lean the same holds for operands of EVERY closed kind
(`RT.WT .closed`: also strings, floats, method calls, dot / `::` access, lists, tuples, dictionaries,
struct literals, lambdas, `assert`, `if` / `while` / `for` / `match` / `try` expressions, `break`,
`continue`), nested to any depth. -/

/-- The canonical text of the left fold is `x₀ op₁ x₁ … opₙ xₙ`. -/
theorem chain_print (first : Bool) (x₀ : Expr) (rest : List (String × Expr)) :
    printExpr first (chainExpr x₀ rest) =
      printExpr first x₀ ++ rest.flatMap (fun p => w p.1 :: printExpr false p.2) := by
  induction rest generalizing x₀ with
  | nil => simp [chainExpr]
  | cons p r ih =>
    have := ih (.binop x₀ p.1 p.2)
    simp only [chainExpr, List.foldl_cons] at this ⊢
    rw [this]
    simp [printExpr]

theorem chain_wt (x₀ : Expr) (rest : List (String × Expr)) (h0 : RT.WT .chain x₀)
    (hr : ∀ p ∈ rest, gardenBinaryOps.contains p.1 = true ∧ RT.WT .closed p.2) :
    RT.WT .chain (chainExpr x₀ rest) := by
  induction rest generalizing x₀ with
  | nil => exact h0
  | cons p r ih =>
    have hp := hr p (List.mem_cons_self ..)
    exact ih (.binop x₀ p.1 p.2) (.binop h0 hp.1 hp.2) (fun q hq => hr q (List.mem_cons_of_mem _ hq))

/-- **C03 for every operand kind.** For every closed operand `x₀` and every list of (operator, closed
operand) pairs, in every token context whose remainder does not continue the expression (`RT.Stop`):
on the tokens of `x₀ op₁ x₁ … opₙ xₙ` the parser returns the LEFT fold `((x₀ op₁ x₁) op₂ x₂) …`,
consumes exactly those tokens and reports no diagnostic, for every fuel above a bound depending only
on the chain. -/
theorem chain_left_assoc_all (x₀ : Expr) (rest : List (String × Expr)) (h0 : RT.WT .closed x₀)
    (hr : ∀ p ∈ rest, gardenBinaryOps.contains p.1 = true ∧ RT.WT .closed p.2) :
    ∃ n, ∀ (fuel ln : Nat) (first : Bool) (i : Nat) (post : List Tok) (d : List DiagKind) (toks : Toks),
      n ≤ fuel →
      toks.drop i = lexAux false ln (printExpr first x₀ ++ rest.flatMap (fun p => w p.1 :: printExpr false p.2)) ++ post →
      RT.Stop (chainExpr x₀ rest) ln post →
      ∃ r, parseExpression toks false fuel ⟨i, d⟩ =
          .ok r ⟨i + (lexAux false ln (printExpr first x₀ ++
            rest.flatMap (fun p => w p.1 :: printExpr false p.2))).length, d⟩ ∧
        r.e = chainExpr x₀ rest := by
  obtain ⟨n, hn⟩ := C33.parse_print_stmt (RT.WT.ofChain (chain_wt x₀ rest (.ofClosed h0) hr))
  refine ⟨n, ?_⟩
  intro fuel ln first i post d toks hf hD hs
  have := hn fuel ln first i post d toks hf (by rw [chain_print]; exact hD) hs
  rw [chain_print] at this
  exact this

end C03

