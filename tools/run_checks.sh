#!/bin/sh
# usage: tools/run_checks.sh C01 C02 ...   (runs quick checks sequentially against /repo, logs under .build/logs)
cd /verif
for c in "$@"; do
  ./check $c --tier quick > .build/logs/$c.log 2>&1
  echo "$c rc=$? $(tail -1 .build/logs/$c.log)"
done
