import GardenVerif.Model.Print
/-!
Lemmas about the parser model `Parse` (M2) used by C03, C33 and C01 (parser part).
Everything is about the repaired parser (`pn = false`).
-/

namespace ParseLemmas
open Parse Print

/-! ### The monad -/

theorem bind_apply {α β} (m : P α) (f : α → P β) (s : St) : (m >>= f) s = P.bind m f s := rfl
theorem pure_apply {α} (a : α) (s : St) : (pure a : P α) s = .ok a s := rfl

theorem bind_ok {α β} {m : P α} {f : α → P β} {s s' : St} {a : α} (h : m s = .ok a s') :
    (m >>= f) s = f a s' := by
  simp [bind_apply, P.bind, h]

/-! ### Token classes -/

/-- First tokens on which `parse_expression_no_trailing` dispatches to a statement parser. -/
def stmtKeywords : List String :=
  ["let", "return", "while", "for", "break", "continue", "if", "match", "try"]

/-- A name that the grammar can express as a variable / field / method name. -/
structure ValidName (x : String) : Prop where
  sym : isSymbolTok x = true
  notKw : keywords.contains x = false
  notDict : x ≠ "Dict"
  notPh : isPlaceholderName x = false

theorem ne_of_isSymbolTok {x lit : String} (h : isSymbolTok x = true) (hl : isSymbolTok lit = false) :
    x ≠ lit := by
  intro e; subst e; simp [h] at hl

theorem ValidName.ne_kw {x k : String} (h : ValidName x) (hk : k ∈ keywords) : x ≠ k := by
  intro e; subst e
  have := h.notKw
  simp at this
  exact this hk

theorem ValidName.beq_kw {x k : String} (h : ValidName x) (hk : k ∈ keywords) : (x == k) = false := by
  simp [h.ne_kw hk]

theorem ValidName.beq_nonsym {x lit : String} (h : ValidName x) (hl : isSymbolTok lit = false) :
    (x == lit) = false := by
  simp [ne_of_isSymbolTok h.sym hl]

/-- What may follow an operand: not an assignment operator (`peek_two` would take the operand's
first token for an assignment target when the operand is a single token) and not a glued `{`
(`Name{` is a struct literal). -/
def Follow (rest : List Tok) : Prop :=
  ∀ t, rest.head? = some t →
    t.text ≠ "=" ∧ t.text ≠ "+=" ∧ t.text ≠ "-=" ∧ ¬ (t.text = "{" ∧ t.touchesPrev = true)

/-- What stops the postfix part of the trailing loop. -/
def PostfixStop (rest : List Tok) : Prop :=
  ∀ t, rest.head? = some t → t.text ≠ "(" ∧ t.text ≠ "." ∧ t.text ≠ "::"

/-- What stops the whole trailing loop. -/
def ChainStop (rest : List Tok) : Prop :=
  ∀ t, rest.head? = some t →
    t.text ≠ "(" ∧ t.text ≠ "." ∧ t.text ≠ "::" ∧ gardenBinaryOps.contains t.text = false

theorem binop_ne {op : String} (h : gardenBinaryOps.contains op = true) :
    op ≠ "(" ∧ op ≠ "." ∧ op ≠ "::" ∧ op ≠ "=" ∧ op ≠ "+=" ∧ op ≠ "-=" ∧ op ≠ "{" ∧ op ≠ ")" ∧ op ≠ "," := by
  refine ⟨?_, ?_, ?_, ?_, ?_, ?_, ?_, ?_, ?_⟩ <;> (intro e; subst e; revert h; decide)

/-! ### Indexing into `pre ++ mid ++ rest` -/

theorem get_mid {α} (pre mid rest : List α) (k : Nat) (hk : k < mid.length) :
    (pre ++ mid ++ rest)[pre.length + k]? = mid[k]? := by
  rw [List.append_assoc, List.getElem?_append_right (by omega)]
  simp [List.getElem?_append_left hk]

theorem get_rest {α} (pre mid rest : List α) (k : Nat) :
    (pre ++ mid ++ rest)[pre.length + mid.length + k]? = rest[k]? := by
  rw [List.getElem?_append_right (by simp)]
  simp

theorem head?_eq_getElem? {α} (l : List α) : l.head? = l[0]? := by
  cases l <;> simp

/-! ### One-step facts -/

/-- A token that does not dispatch to a statement parser, followed by something that is not an
assignment operator: `parse_expression_no_trailing` is `parse_simple_expression`. -/
theorem noTrailing_simple (toks : Toks) (fuel i : Nat) (d : List DiagKind) (t : Tok)
    (h1 : toks[i]? = some t) (hkw : t.text ∉ stmtKeywords)
    (h2 : ∀ t2, toks[i + 1]? = some t2 → t2.text ≠ "=" ∧ t2.text ≠ "+=" ∧ t2.text ≠ "-=") :
    parseNoTrailing toks false (fuel + 1) ⟨i, d⟩ = parseSimple toks false fuel ⟨i, d⟩ := by
  rw [parseNoTrailing]
  simp [stmtKeywords] at hkw
  obtain ⟨k1, k2, k3, k4, k5, k6, k7, k8, k9⟩ := hkw
  cases h3 : toks[i + 1]? with
  | none => simp [bind_apply, P.bind, peek, peekAt, h1, h3, TokI.text, k1, k2, k3, k4, k5, k6, k7, k8, k9]
  | some t2 =>
    obtain ⟨e1, e2, e3⟩ := h2 t2 h3
    simp [bind_apply, P.bind, peek, peekAt, h1, h3, TokI.text, e1, e2, e3, k1, k2, k3, k4, k5, k6, k7, k8, k9]

/-- A token text the parser reads as the integer literal `i`. -/
structure IntTok (s : String) (i : Int) : Prop where
  int : isIntTok s = true
  notSym : isSymbolTok s = false
  notStr : isStringTok s = false
  notFloat : isFloatTok s = false
  val : parseI64 s = some i

theorem ne_of_isIntTok {x lit : String} (h : isIntTok x = true) (hl : isIntTok lit = false) : x ≠ lit := by
  intro e; subst e; simp [h] at hl

theorem IntTok.notStmt {s : String} {i : Int} (h : IntTok s i) : s ∉ stmtKeywords := by
  intro hm
  simp [stmtKeywords] at hm
  have hs := h.notSym
  rcases hm with e | e | e | e | e | e | e | e | e <;> (subst e; revert hs; decide)

theorem digit_not_symStart' {c : Char} (h : c.isDigit = true) : Parse.isSymStart c = false := by
  simp only [Char.isDigit, Bool.and_eq_true, decide_eq_true_eq, ge_iff_le, UInt32.le_iff_toNat_le] at h
  have h0 : ('0' : Char).val.toNat = 48 := by decide
  have h9 : ('9' : Char).val.toNat = 57 := by decide
  rw [h0, h9] at h
  cases hs : Parse.isSymStart c with
  | false => rfl
  | true =>
    simp only [Parse.isSymStart, Char.isAlpha, Char.isUpper, Char.isLower, Bool.or_eq_true, decide_eq_true_eq, ge_iff_le,
      UInt32.le_iff_toNat_le, beq_iff_eq] at hs
    have hA : ('A' : Char).val.toNat = 65 := by decide
    have hZ : ('Z' : Char).val.toNat = 90 := by decide
    have ha : ('a' : Char).val.toNat = 97 := by decide
    have hz : ('z' : Char).val.toNat = 122 := by decide
    rw [hA, hZ, ha, hz] at hs
    rcases hs with (hs | hs) | hs
    · exfalso; omega
    · simp only [Bool.and_eq_true, decide_eq_true_eq] at hs; exfalso; omega
    · subst hs; revert h; decide

theorem dropDU_digits (r : List Char) (h : ∀ c ∈ r, c.isDigit = true) : dropDigitsUnderscore r = [] := by
  induction r with
  | nil => rfl
  | cons c r ih =>
    have hc := h c (List.mem_cons_self ..)
    simp [dropDigitsUnderscore, hc, ih (fun x hx => h x (List.mem_cons_of_mem _ hx))]

theorem digitsToNat_eq (ds : List Char) : digitsToNat ds = Nat.ofDigitChars 10 ds 0 := by
  unfold digitsToNat Nat.ofDigitChars
  have : (fun (a : Nat) (c : Char) => a * 10 + (c.toNat - 48)) = (fun sofar c => 10 * sofar + (c.toNat - '0'.toNat)) := by
    funext a c
    have : ('0' : Char).toNat = 48 := by decide
    rw [this, Nat.mul_comm]
  rw [this]

/-- The decimal digits of a natural number, as the parser's classification functions see them. -/
theorem digits_facts (n : Nat) :
    ∃ d r, Nat.toDigits 10 n = d :: r ∧ d.isDigit = true ∧ (∀ c ∈ r, c.isDigit = true) ∧
      (d :: r).filter (· != '_') = d :: r ∧ digitsToNat (d :: r) = n := by
  have hne := Nat.toDigits_ne_nil (n := n) (b := 10)
  cases hds : Nat.toDigits 10 n with
  | nil => exact absurd hds hne
  | cons d r =>
    have hall : ∀ c ∈ d :: r, c.isDigit = true := by
      intro c hc; rw [← hds] at hc
      exact Nat.isDigit_of_mem_toDigits (by decide) (by decide) hc
    refine ⟨d, r, rfl, hall d (List.mem_cons_self ..), fun c hc => hall c (List.mem_cons_of_mem _ hc), ?_, ?_⟩
    · rw [List.filter_eq_self]
      intro c hc
      have : c ≠ '_' := by
        intro e; subst e
        rw [← hds] at hc
        exact Nat.underscore_not_in_toDigits hc
      simpa using this
    · rw [digitsToNat_eq, ← hds]; exact Nat.ofDigitChars_ten_toDigits

theorem digit_ne {c : Char} (h : c.isDigit = true) : c ≠ '-' ∧ c ≠ '"' ∧ c ≠ '_' := by
  refine ⟨?_, ?_, ?_⟩ <;> (intro e; subst e; revert h; decide)

/-- **Every i64 value's decimal text is read back by the parser as that value**: it is classified as
an integer token (not a symbol, string or float token) and `parseI64` returns the value. -/
theorem intTok_of_i64 (i : Int) (hlo : -9223372036854775808 ≤ i) (hhi : i ≤ 9223372036854775807) :
    IntTok (toString i) i := by
  rw [Int.toString_eq_repr, Int.repr_eq_if]
  by_cases hi : 0 ≤ i
  · simp only [hi, ↓reduceIte]
    obtain ⟨d, r, hds, hd, hr, hfil, hval⟩ := digits_facts i.toNat
    have hl : (i.toNat.repr).toList = d :: r := by rw [Nat.toList_repr]; exact hds
    obtain ⟨n1, n2, n3⟩ := digit_ne hd
    have hdd := dropDU_digits r hr
    refine ⟨?_, ?_, ?_, ?_, ?_⟩
    · simp only [isIntTok, hl]
      split
      · rename_i heq; injection heq with h1 _; exact absurd h1 n1
      · rename_i heq; injection heq with h1 _; subst h1; exact hd
      · rename_i heq; cases heq
    · simp [isSymbolTok, hl, digit_not_symStart' hd]
    · simp only [isStringTok, hl]
      split
      · rename_i heq; injection heq with h1 _; exact absurd h1 n2
      · rfl
    · simp only [isFloatTok, hl, isFloatChars]
      split
      · rename_i heq
        split at heq
        · rename_i h2; injection h2 with h3 _; exact absurd h3 n1
        · cases heq; simp [hdd]
      · rfl
    · simp only [parseI64, hl, hfil]
      have hall : (d :: r).all Char.isDigit = true := by
        rw [List.all_eq_true]; intro c hc
        rcases List.mem_cons.mp hc with rfl | hc
        · exact hd
        · exact hr c hc
      have hnn : ((i.toNat : Nat) : Int) = i := Int.toNat_of_nonneg hi
      split
      · rename_i heq; injection heq with h1 _; exact absurd h1 n1
      · simp only [List.isEmpty_cons, hall, Bool.not_true, Bool.or_self, Bool.false_eq_true, ↓reduceIte, hval, hnn]
        simp [hlo, hhi]
  · simp only [hi, ↓reduceIte]
    obtain ⟨d, r, hds, hd, hr, hfil, hval⟩ := digits_facts (-i).toNat
    have hl : ("-" ++ ((-i).toNat.repr)).toList = '-' :: d :: r := by
      simp [String.toList_append, Nat.toList_repr, hds]
    obtain ⟨n1, n2, n3⟩ := digit_ne hd
    have hdd := dropDU_digits r hr
    refine ⟨?_, ?_, ?_, ?_, ?_⟩
    · simp [isIntTok, hl, hd]
    · simp [isSymbolTok, hl, isSymStart]
    · simp [isStringTok, hl]
    · simp [isFloatTok, hl, isFloatChars, hd, hdd]
    · simp only [parseI64, hl]
      have hf : ('-' :: d :: r).filter (· != '_') = '-' :: d :: r := by
        rw [List.filter_cons]; simp [hfil]
      rw [hf]
      simp only []
      have hall : (d :: r).all Char.isDigit = true := by
        rw [List.all_eq_true]; intro c hc
        rcases List.mem_cons.mp hc with rfl | hc
        · exact hd
        · exact hr c hc
      simp only [List.isEmpty_cons, hall, Bool.not_true, Bool.or_self, Bool.false_eq_true, ↓reduceIte, hval]
      have : -(((-i).toNat : Nat) : Int) = i := by
        have := Int.toNat_of_nonneg (a := -i) (by omega)
        omega
      rw [this]
      simp [hlo, hhi]


/-- The integers Garden can hold. -/
def I64 (i : Int) : Prop := -9223372036854775808 ≤ i ∧ i ≤ 9223372036854775807

theorem I64.tok {i : Int} (h : I64 i) : IntTok (toString i) i := intTok_of_i64 i h.1 h.2

theorem ValidName.notStmt {x : String} (h : ValidName x) : x ∉ stmtKeywords := by
  intro hm
  simp [stmtKeywords] at hm
  rcases hm with e | e | e | e | e | e | e | e | e <;>
    (subst e; exact absurd rfl (h.ne_kw (by decide)))

theorem ValidName.not_mem_kw {x : String} (h : ValidName x) : x ∉ keywords := by
  have := h.notKw
  simpa using this

/-- `parse_symbol` on a valid name. -/
theorem parseSymbol_ok (toks : Toks) (i : Nat) (d : List DiagKind) (t : Tok)
    (h1 : toks[i]? = some t) (hv : ValidName t.text) :
    parseSymbol toks false ⟨i, d⟩ = .ok ⟨t.text, ⟨t.line, i + 1⟩⟩ ⟨i + 1, d⟩ := by
  simp [parseSymbol, bind_apply, P.bind, pure_apply, peek, peekAt, prev, requireAToken, pop, h1, TokI.text,
    TokI.pos, hv.sym, hv.not_mem_kw]

/-- `parse_simple_expression` on a variable. -/
theorem simple_var (toks : Toks) (fuel i : Nat) (d : List DiagKind) (t : Tok)
    (h1 : toks[i]? = some t) (hv : ValidName t.text)
    (h2 : ∀ t2, toks[i + 1]? = some t2 → ¬ (t2.text = "{" ∧ t2.touchesPrev = true)) :
    parseSimple toks false (fuel + 1) ⟨i, d⟩ = .ok ⟨.var t.text, ⟨t.line, i + 1⟩⟩ ⟨i + 1, d⟩ := by
  rw [parseSimple]
  have e1 := ne_of_isSymbolTok hv.sym (lit := "(") (by decide)
  have e2 := ne_of_isSymbolTok hv.sym (lit := "[") (by decide)
  have e3 := hv.notDict
  have e4 := hv.ne_kw (k := "fun") (by decide)
  have e5 := hv.ne_kw (k := "assert") (by decide)
  have e6 := hv.sym
  have hs := parseSymbol_ok toks i d t h1 hv
  cases h3 : toks[i + 1]? with
  | none =>
    simp [bind_apply, P.bind, pure_apply, peek, peekAt, h1, h3, TokI.text, e1, e2, e3, e4, e5, e6,
      parseVariable, hs]
  | some t2 =>
    have := h2 t2 h3
    have e7 : (t2.text == "{" && t2.touchesPrev) = false := by
      cases hb : (t2.text == "{" && t2.touchesPrev) with
      | false => rfl
      | true => simp at hb; exact absurd hb this
    simp [bind_apply, P.bind, pure_apply, peek, peekAt, h1, h3, TokI.text, e1, e2, e3, e4, e5, e6, e7,
      parseVariable, hs]

/-- `parse_simple_expression` on an integer literal. -/
theorem simple_int (toks : Toks) (fuel i : Nat) (d : List DiagKind) (t : Tok) (v : Int)
    (h1 : toks[i]? = some t) (hv : IntTok t.text v) :
    parseSimple toks false (fuel + 1) ⟨i, d⟩ = .ok ⟨.intLit v, ⟨t.line, i + 1⟩⟩ ⟨i + 1, d⟩ := by
  rw [parseSimple]
  have e1 := ne_of_isIntTok hv.int (lit := "(") (by decide)
  have e2 := ne_of_isIntTok hv.int (lit := "[") (by decide)
  have e3 := ne_of_isIntTok hv.int (lit := "Dict") (by decide)
  have e4 := ne_of_isIntTok hv.int (lit := "fun") (by decide)
  have e5 := ne_of_isIntTok hv.int (lit := "assert") (by decide)
  simp [bind_apply, P.bind, pure_apply, peek, peekAt, h1, TokI.text, e1, e2, e3, e4, e5, hv.notSym, hv.notStr,
    hv.notFloat, hv.int, hv.val, parseInteger, requireAToken, pop, TokI.pos]

/-- The trailing loop stops. -/
def StopAt (b : Bool) (o : Option Tok) : Prop :=
  ∀ t, o = some t → t.text ≠ "(" ∧ t.text ≠ "." ∧ t.text ≠ "::" ∧
    (b = true → gardenBinaryOps.contains t.text = false)

theorem trailing_stop (toks : Toks) (b : Bool) (fuel i : Nat) (d : List DiagKind) (e : PExpr)
    (h : StopAt b toks[i]?) :
    trailing toks false b (fuel + 1) e ⟨i, d⟩ = .ok e ⟨i, d⟩ := by
  rw [trailing]
  cases h3 : toks[i]? with
  | none => simp [bind_apply, P.bind, pure_apply, peek, peekAt, getIdx, h3]
  | some t =>
    obtain ⟨a1, a2, a3, a4⟩ := h t h3
    cases b with
    | false => simp [bind_apply, P.bind, pure_apply, peek, peekAt, getIdx, h3, TokI.text, a1, a2, a3]
    | true =>
      have a5 : t.text ∉ gardenBinaryOps := by simpa using a4 rfl
      simp [bind_apply, P.bind, pure_apply, peek, peekAt, getIdx, h3, TokI.text, a1, a2, a3, a5]

/-! ### Printed tokens of the operator / call / parenthesis fragment -/

def allT (ps : List PTok) : Prop := ∀ p ∈ ps, p ≠ PTok.nl

theorem lexOf_append (ln : Nat) (a b : List PTok) (h : allT a) :
    lexOf ln (a ++ b) = lexOf ln a ++ lexOf ln b := by
  induction a with
  | nil => rfl
  | cons p a ih =>
    have ha : allT a := fun q hq => h q (List.mem_cons_of_mem _ hq)
    cases p with
    | t s touch =>
      have := ih ha
      simp only [lexOf] at this
      simp [lexOf, lexAux, this]
    | nl => exact absurd rfl (h .nl (List.mem_cons_self ..))

theorem lexOf_cons_t (ln : Nat) (s : String) (b : Bool) (r : List PTok) :
    lexOf ln (PTok.t s b :: r) = ⟨s, b, ln, ln⟩ :: lexOf ln r := by
  simp [lexOf, lexAux]

theorem lexOf_nil (ln : Nat) : lexOf ln [] = [] := by simp [lexOf, lexAux]

theorem allT_append {a b : List PTok} (ha : allT a) (hb : allT b) : allT (a ++ b) := by
  intro p hp
  rcases List.mem_append.mp hp with h | h
  · exact ha p h
  · exact hb p h

theorem allT_single (s : String) (b : Bool) : allT [PTok.t s b] := by
  intro p hp; simp at hp; subst hp; simp

/-- Tokens of the canonical text of `e`, all on line `ln`; `first` = touch flag of the first one. -/
def T (ln : Nat) (first : Bool) (e : Expr) : List Tok := lexOf ln (printExpr first e)
def TA (ln : Nat) (first : Bool) (args : List Expr) : List Tok := lexOf ln (printArgs first args)

/-- The fragment of the C03 theorem and of `parse_print_partial`: `WF true e` — `e` is an operand
(integer literal, variable, call, parenthesised expression); `WF false e` — `e` is a left-nested
chain of operands. A binary operator's RIGHT child must be an operand (an unparenthesised
right-nested chain is not expressible without parentheses). -/
inductive WF : Bool → Expr → Prop
  | int {i : Int} : I64 i → WF true (.intLit i)
  | var {x : String} : ValidName x → WF true (.var x)
  | call {f : Expr} {args : List Expr} : WF true f → (∀ a ∈ args, WF false a) → WF true (.call f args)
  | paren {e : Expr} : WF false e → WF true (.paren e)
  | closed {e : Expr} : WF true e → WF false e
  | binop {l r : Expr} {op : String} :
      WF false l → gardenBinaryOps.contains op = true → WF true r → WF false (.binop l op r)

theorem allT_args (first : Bool) (args : List Expr)
    (h : ∀ a ∈ args, ∀ first, allT (printExpr first a)) : allT (printArgs first args) := by
  induction args generalizing first with
  | nil => intro p hp; simp [printArgs] at hp
  | cons a rest ih =>
    cases rest with
    | nil => simpa [printArgs] using h a (List.mem_cons_self ..) first
    | cons a2 rest2 =>
      rw [printArgs]
      · exact allT_append (allT_append (h a (List.mem_cons_self ..) first) (allT_single _ _))
          (ih false (fun x hx => h x (List.mem_cons_of_mem _ hx)))
      · simp

theorem WF.allT {c : Bool} {e : Expr} (h : WF c e) : ∀ first, allT (printExpr first e) := by
  induction h with
  | int _ => intro first; simp [printExpr, allT_single]
  | var _ => intro first; simp [printExpr, allT_single]
  | call _ _ ihf iha =>
    intro first
    rw [printExpr]
    exact allT_append (allT_append (allT_append (ihf first) (allT_single _ _)) (allT_args _ _ iha)) (allT_single _ _)
  | paren _ ih =>
    intro first
    rw [printExpr]
    exact allT_append (allT_append (allT_single _ _) (ih true)) (allT_single _ _)
  | closed _ ih => exact ih
  | binop _ _ _ ihl ihr =>
    intro first
    rw [printExpr]
    exact allT_append (allT_append (ihl first) (allT_single _ _)) (ihr false)

theorem T_var (ln : Nat) (first : Bool) (x : String) : T ln first (.var x) = [⟨x, first, ln, ln⟩] := by
  simp [T, printExpr, lexOf, lexAux]

theorem T_int (ln : Nat) (first : Bool) (i : Int) : T ln first (.intLit i) = [⟨toString i, first, ln, ln⟩] := by
  simp [T, printExpr, lexOf, lexAux]

theorem T_paren (ln : Nat) (first : Bool) (e : Expr) (h : allT (printExpr true e)) :
    T ln first (.paren e) = ⟨"(", first, ln, ln⟩ :: (T ln true e ++ [⟨")", true, ln, ln⟩]) := by
  simp [T, printExpr, lexOf_append _ _ _ h, lexOf_cons_t, lexOf_nil, g]

theorem T_binop (ln : Nat) (first : Bool) (l r : Expr) (op : String) (h : allT (printExpr first l)) :
    T ln first (.binop l op r) = T ln first l ++ ⟨op, false, ln, ln⟩ :: T ln false r := by
  simp [T, printExpr, lexOf_append _ _ _ h, lexOf_cons_t, lexOf_nil, w]

theorem T_call (ln : Nat) (first : Bool) (f : Expr) (args : List Expr) (h : allT (printExpr first f))
    (ha : allT (printArgs true args)) :
    T ln first (.call f args) =
      T ln first f ++ ⟨"(", true, ln, ln⟩ :: (TA ln true args ++ [⟨")", true, ln, ln⟩]) := by
  simp [T, TA, printExpr, lexOf_append _ _ _ h, lexOf_append _ _ _ ha, lexOf_cons_t, lexOf_nil, g]

theorem TA_nil (ln : Nat) (first : Bool) : TA ln first [] = [] := by simp [TA, printArgs, lexOf, lexAux]
theorem TA_one (ln : Nat) (first : Bool) (e : Expr) : TA ln first [e] = T ln first e := by
  simp [TA, T, printArgs]
theorem TA_cons (ln : Nat) (first : Bool) (e e2 : Expr) (rest : List Expr) (h : allT (printExpr first e)) :
    TA ln first (e :: e2 :: rest) = T ln first e ++ ⟨",", true, ln, ln⟩ :: TA ln false (e2 :: rest) := by
  simp [TA, T, printArgs, lexOf_append _ _ _ h, lexOf_cons_t, lexOf_nil, g]

/-- What the first printed token of an expression is not. -/
def FirstOk (t : Tok) : Prop := t.text ≠ ")" ∧ t.text ≠ "=" ∧ t.text ≠ "+=" ∧ t.text ≠ "-="

theorem WF.first_tok {c : Bool} {e : Expr} (h : WF c e) :
    ∀ ln first, ∃ t tl, T ln first e = t :: tl ∧ FirstOk t := by
  induction h with
  | @int i hi =>
    intro ln first
    replace hi := hi.tok
    exact ⟨_, _, T_int ln first i, ne_of_isIntTok hi.int (by decide), ne_of_isIntTok hi.int (by decide),
      ne_of_isIntTok hi.int (by decide), ne_of_isIntTok hi.int (by decide)⟩
  | @var x hx =>
    intro ln first
    exact ⟨_, _, T_var ln first x, ne_of_isSymbolTok hx.sym (by decide), ne_of_isSymbolTok hx.sym (by decide),
      ne_of_isSymbolTok hx.sym (by decide), ne_of_isSymbolTok hx.sym (by decide)⟩
  | @call f args hf ha ihf _ =>
    intro ln first
    obtain ⟨t, tl, e1, e2⟩ := ihf ln first
    refine ⟨t, tl ++ ⟨"(", true, ln, ln⟩ :: (TA ln true args ++ [⟨")", true, ln, ln⟩]), ?_, e2⟩
    rw [T_call ln first f args (hf.allT first) (allT_args _ _ (fun a ha' => (ha a ha').allT)), e1]
    rfl
  | @paren e he _ =>
    intro ln first
    exact ⟨_, _, T_paren ln first e (he.allT true), by simp [FirstOk]⟩
  | closed _ ih => exact ih
  | @binop l r op hl _ _ ihl _ =>
    intro ln first
    obtain ⟨t, tl, e1, e2⟩ := ihl ln first
    refine ⟨t, tl ++ ⟨op, false, ln, ln⟩ :: T ln false r, ?_, e2⟩
    rw [T_binop ln first l r op (hl.allT first), e1]
    rfl

theorem WF.not_invalid {c : Bool} {e : Expr} (h : WF c e) : e.isInvalidOrPlaceholder = false := by
  induction h with
  | int _ => rfl
  | @var x hx => simpa [Expr.isInvalidOrPlaceholder, isPlaceholderName] using hx.notPh
  | call _ _ _ _ => rfl
  | paren _ _ => rfl
  | closed _ ih => exact ih
  | binop _ _ _ _ _ => rfl

/-! ### Getting back into the trailing loop (the compositional invariant behind C03 / C33) -/

/-- From the start of the tokens of `e` the parser gets back into the trailing loop (same flag `b`)
holding `e`, positioned just after them, having spent at most `n` fuel. -/
def Reach (toks : Toks) (b : Bool) (fuel i : Nat) (d : List DiagKind) (e : Expr) (j n : Nat) : Prop :=
  ∃ ln' fuel', fuel ≤ fuel' + n ∧
    parseExpressionT toks false b fuel ⟨i, d⟩ = trailing toks false b fuel' ⟨e, ⟨ln', j⟩⟩ ⟨j, d⟩

def ReachAll (c : Bool) (e : Expr) (n : Nat) : Prop :=
  ∀ (b : Bool) (fuel ln : Nat) (first : Bool) (pre rest : List Tok) (d : List DiagKind) (toks : Toks),
    (c = false → b = true) → n ≤ fuel → toks = pre ++ T ln first e ++ rest → Follow rest →
    (c = false → PostfixStop rest) →
    Reach toks b fuel pre.length d e (pre.length + (T ln first e).length) n

theorem ReachAll.mono {c e n m} (h : ReachAll c e n) (hnm : n ≤ m) : ReachAll c e m := by
  intro b fuel ln first pre rest d toks hb hf ht hfo hp
  obtain ⟨ln', fuel', h1, h2⟩ := h b fuel ln first pre rest d toks hb (by omega) ht hfo hp
  exact ⟨ln', fuel', by omega, h2⟩

theorem exprT_of_noTrailing (toks : Toks) (b : Bool) (fuel : Nat) (s s' : St) (pe : PExpr)
    (h : parseNoTrailing toks false fuel s = .ok pe s') :
    parseExpressionT toks false b (fuel + 1) s = trailing toks false b fuel pe s' := by
  rw [parseExpressionT]; exact bind_ok h

theorem follow_head {rest : List Tok} (h : Follow rest) (t2 : Tok) (h2 : rest[0]? = some t2) :
    (t2.text ≠ "=" ∧ t2.text ≠ "+=" ∧ t2.text ≠ "-=") ∧ ¬ (t2.text = "{" ∧ t2.touchesPrev = true) := by
  have := h t2 (by rw [head?_eq_getElem?]; exact h2)
  exact ⟨⟨this.1, this.2.1, this.2.2.1⟩, this.2.2.2⟩

theorem reach_var {x : String} (hx : ValidName x) : ReachAll true (.var x) 3 := by
  intro b fuel ln first pre rest d toks _ hf ht hfo _
  obtain ⟨f, rfl⟩ : ∃ f, fuel = f + 3 := ⟨fuel - 3, by omega⟩
  rw [T_var] at ht ⊢
  have h0 : toks[pre.length]? = some ⟨x, first, ln, ln⟩ := by
    rw [ht]; simpa using get_mid pre [⟨x, first, ln, ln⟩] rest 0 (by simp)
  have h1 : toks[pre.length + 1]? = rest[0]? := by
    rw [ht]; simpa using get_rest pre [⟨x, first, ln, ln⟩] rest 0
  refine ⟨ln, f + 2, by omega, ?_⟩
  apply exprT_of_noTrailing
  rw [noTrailing_simple toks (f + 1) pre.length d _ h0 hx.notStmt
    (fun t2 h2 => (follow_head hfo t2 (h1 ▸ h2)).1)]
  simpa using simple_var toks f pre.length d _ h0 hx (fun t2 h2 => (follow_head hfo t2 (h1 ▸ h2)).2)

theorem reach_int {i : Int} (hi : IntTok (toString i) i) : ReachAll true (.intLit i) 3 := by
  intro b fuel ln first pre rest d toks _ hf ht hfo _
  obtain ⟨f, rfl⟩ : ∃ f, fuel = f + 3 := ⟨fuel - 3, by omega⟩
  rw [T_int] at ht ⊢
  have h0 : toks[pre.length]? = some ⟨toString i, first, ln, ln⟩ := by
    rw [ht]; simpa using get_mid pre [⟨toString i, first, ln, ln⟩] rest 0 (by simp)
  have h1 : toks[pre.length + 1]? = rest[0]? := by
    rw [ht]; simpa using get_rest pre [⟨toString i, first, ln, ln⟩] rest 0
  refine ⟨ln, f + 2, by omega, ?_⟩
  apply exprT_of_noTrailing
  rw [noTrailing_simple toks (f + 1) pre.length d _ h0 hi.notStmt
    (fun t2 h2 => (follow_head hfo t2 (h1 ▸ h2)).1)]
  simpa using simple_int toks f pre.length d _ i h0 hi

theorem chainStop_stopAt {rest : List Tok} (h : ChainStop rest) (b : Bool) : StopAt b rest[0]? := by
  intro t ht
  have := h t (by rw [head?_eq_getElem?]; exact ht)
  exact ⟨this.1, this.2.1, this.2.2.1, fun _ => this.2.2.2⟩

theorem postfixStop_stopAt {rest : List Tok} (h : PostfixStop rest) : StopAt false rest[0]? := by
  intro t ht
  have := h t (by rw [head?_eq_getElem?]; exact ht)
  exact ⟨this.1, this.2.1, this.2.2, fun h => by cases h⟩

theorem ChainStop.postfix {rest : List Tok} (h : ChainStop rest) : PostfixStop rest := by
  intro t ht
  have := h t ht
  exact ⟨this.1, this.2.1, this.2.2.1⟩

/-- A chain followed by something that stops the trailing loop parses to exactly itself. -/
theorem full_of_reach {e : Expr} {n : Nat} (h : ReachAll false e n)
    (fuel ln : Nat) (first : Bool) (pre rest : List Tok) (d : List DiagKind) (toks : Toks)
    (hf : n + 1 ≤ fuel) (ht : toks = pre ++ T ln first e ++ rest) (hfo : Follow rest) (hc : ChainStop rest) :
    ∃ ln', parseExpressionT toks false true fuel ⟨pre.length, d⟩ =
      .ok ⟨e, ⟨ln', pre.length + (T ln first e).length⟩⟩ ⟨pre.length + (T ln first e).length, d⟩ := by
  obtain ⟨ln', fuel', h1, h2⟩ := h true fuel ln first pre rest d toks (fun _ => rfl) (by omega) ht hfo (fun _ => hc.postfix)
  obtain ⟨k, rfl⟩ : ∃ k, fuel' = k + 1 := ⟨fuel' - 1, by omega⟩
  refine ⟨ln', ?_⟩
  rw [h2]
  apply trailing_stop
  have : toks[pre.length + (T ln first e).length]? = rest[0]? := by
    rw [ht]; simpa using get_rest pre (T ln first e) rest 0
  rw [this]
  exact chainStop_stopAt hc true

theorem requireToken_ok (toks : Toks) (x : String) (i : Nat) (d : List DiagKind) (t : Tok)
    (h : toks[i]? = some t) (hx : t.text = x) :
    requireToken toks x ⟨i, d⟩ = .ok ⟨t, i⟩ ⟨i + 1, d⟩ := by
  simp [requireToken, checkRequiredToken, bind_apply, P.bind, pure_apply, prev, pop, h, TokI.text, hx]

theorem peekIs_some (toks : Toks) (x : String) (i : Nat) (d : List DiagKind) (t : Tok)
    (h : toks[i]? = some t) : peekIs toks x ⟨i, d⟩ = .ok (t.text == x) ⟨i, d⟩ := by
  simp [peekIs, h]

theorem simple_paren (toks : Toks) (fuel i : Nat) (d : List DiagKind) (t : Tok)
    (h1 : toks[i]? = some t) (hx : t.text = "(") :
    parseSimple toks false (fuel + 1) ⟨i, d⟩ = parseTupleOrParen toks false fuel ⟨i, d⟩ := by
  rw [parseSimple]
  simp [bind_apply, P.bind, peek, peekAt, h1, TokI.text, hx]

theorem reach_binop {l r : Expr} {op : String} {nl nr : Nat} (hl : WF false l)
    (hop : gardenBinaryOps.contains op = true)
    (h1 : ReachAll false l nl) (h2 : ReachAll true r nr) :
    ReachAll false (.binop l op r) (nl + nr + 3) := by
  intro b fuel ln first pre rest d toks hb hf ht hfo hp
  have hb' : b = true := hb rfl
  subst hb'
  obtain ⟨o1, o2, o3, o4, o5, o6, o7, _, _⟩ := binop_ne hop
  rw [T_binop ln first l r op (hl.allT first)] at ht ⊢
  -- left operand
  have ht1 : toks = pre ++ T ln first l ++ (⟨op, false, ln, ln⟩ :: T ln false r ++ rest) := by
    rw [ht]; simp [List.append_assoc]
  obtain ⟨ln1, fuel1, hf1, e1⟩ := h1 true fuel ln first pre _ d toks (fun _ => rfl) (by omega) ht1
    (by intro t h; simp at h; subst h; exact ⟨o4, o5, o6, fun hh => o7 hh.1⟩)
    (fun _ => by intro t h; simp at h; subst h; exact ⟨o1, o2, o3⟩)
  obtain ⟨k, rfl⟩ : ∃ k, fuel1 = k + 1 := ⟨fuel1 - 1, by omega⟩
  -- right operand
  have ht2 : toks = (pre ++ T ln first l ++ [⟨op, false, ln, ln⟩]) ++ T ln false r ++ rest := by
    rw [ht]; simp [List.append_assoc]
  obtain ⟨ln2, fuel2, hf2, e2⟩ := h2 false k ln false _ rest d toks (fun h => by cases h) (by omega) ht2 hfo
    (fun h => by cases h)
  obtain ⟨k2, rfl⟩ : ∃ k2, fuel2 = k2 + 1 := ⟨fuel2 - 1, by omega⟩
  have hlen : (pre ++ T ln first l ++ [(⟨op, false, ln, ln⟩ : Tok)]).length = pre.length + (T ln first l).length + 1 := by
    simp; omega
  rw [hlen] at e2
  have hrest : toks[pre.length + (T ln first l).length + 1 + (T ln false r).length]? = rest[0]? := by
    rw [ht2]
    have := get_rest (pre ++ T ln first l ++ [(⟨op, false, ln, ln⟩ : Tok)]) (T ln false r) rest 0
    rw [hlen] at this
    simpa using this
  have e3 := trailing_stop toks false k2 _ d ⟨r, ⟨ln2, pre.length + (T ln first l).length + 1 + (T ln false r).length⟩⟩
    (hrest ▸ postfixStop_stopAt (hp rfl))
  rw [e3] at e2
  have hop_tok : toks[pre.length + (T ln first l).length]? = some ⟨op, false, ln, ln⟩ := by
    rw [ht1]
    have := get_rest pre (T ln first l) (⟨op, false, ln, ln⟩ :: T ln false r ++ rest) 0
    simpa using this
  refine ⟨ln1, k, by omega, ?_⟩
  rw [e1, trailing]
  have hmem : op ∈ gardenBinaryOps := by simpa using hop
  simp [bind_apply, P.bind, getIdx, peek, peekAt, pop, hop_tok, TokI.text, o1, o2, o3, hmem, e2,
    Pos.merge]
  have hlt : pre.length + (T ln first l).length < pre.length + (T ln first l).length + 1 + (T ln false r).length := by
    omega
  have hmax : max (pre.length + (T ln first l).length) (pre.length + (T ln first l).length + 1 + (T ln false r).length)
      = pre.length + ((T ln first l).length + ((T ln false r).length + 1)) := by omega
  have hj : pre.length + (T ln first l).length + 1 + (T ln false r).length
      = pre.length + ((T ln first l).length + ((T ln false r).length + 1)) := by omega
  rw [if_pos hlt, hmax, hj]

theorem reach_paren {e : Expr} {n : Nat} (he : WF false e) (h : ReachAll false e n) :
    ReachAll true (.paren e) (n + 5) := by
  intro b fuel ln first pre rest d toks _ hf ht hfo _
  obtain ⟨f, rfl⟩ : ∃ f, fuel = f + 4 := ⟨fuel - 4, by omega⟩
  rw [T_paren ln first e (he.allT true)] at ht ⊢
  obtain ⟨t1, tl, hT, hfirst⟩ := he.first_tok ln true
  have h0 : toks[pre.length]? = some ⟨"(", first, ln, ln⟩ := by
    rw [ht]
    simpa using get_mid pre (⟨"(", first, ln, ln⟩ :: (T ln true e ++ [⟨")", true, ln, ln⟩])) rest 0 (by simp)
  have h1 : toks[pre.length + 1]? = some t1 := by
    rw [ht]
    have := get_mid pre (⟨"(", first, ln, ln⟩ :: (T ln true e ++ [⟨")", true, ln, ln⟩])) rest 1 (by simp [hT])
    simpa [hT] using this
  have ht' : toks = (pre ++ [⟨"(", first, ln, ln⟩]) ++ T ln true e ++ (⟨")", true, ln, ln⟩ :: rest) := by
    rw [ht]; simp [List.append_assoc]
  have hlen : (pre ++ [(⟨"(", first, ln, ln⟩ : Tok)]).length = pre.length + 1 := by simp
  obtain ⟨ln', hfull⟩ := full_of_reach h f ln true _ _ d toks (by omega) ht'
    (by intro t h; simp at h; subst h; simp)
    (by intro t h; simp at h; subst h; simp; decide)
  rw [hlen] at hfull
  have hclose : toks[pre.length + 1 + (T ln true e).length]? = some ⟨")", true, ln, ln⟩ := by
    rw [ht']
    have := get_rest (pre ++ [(⟨"(", first, ln, ln⟩ : Tok)]) (T ln true e) (⟨")", true, ln, ln⟩ :: rest) 0
    rw [hlen] at this
    simpa using this
  refine ⟨ln, f + 3, by omega, ?_⟩
  apply exprT_of_noTrailing
  rw [noTrailing_simple toks (f + 2) pre.length d _ h0 (by simp [stmtKeywords])
    (fun t2 h2 => by rw [h1] at h2; cases h2; exact ⟨hfirst.2.1, hfirst.2.2.1, hfirst.2.2.2⟩)]
  rw [simple_paren toks (f + 1) pre.length d _ h0 rfl, parseTupleOrParen]
  have hne : (t1.text == ")") = false := by simp [hfirst.1]
  simp [bind_apply, P.bind, pure_apply, requireToken_ok toks "(" pre.length d _ h0 rfl,
    peekIs_some toks ")" (pre.length + 1) d _ h1, hne, hfull,
    peekIs_some toks "," (pre.length + 1 + (T ln true e).length) d _ hclose,
    requireToken_ok toks ")" (pre.length + 1 + (T ln true e).length) d _ hclose rfl, TokI.pos, Pos.merge]
  constructor <;> omega

theorem commaSep_ok (args : List Expr) (hwf : ∀ a ∈ args, WF false a)
    (hr : ∀ a ∈ args, ∃ n, ReachAll false a n) :
    ∃ N, ∀ (fuel ln : Nat) (first : Bool) (pre rest : List Tok) (d : List DiagKind) (toks : Toks)
      (acc : List Expr) (openLine : Nat),
      N ≤ fuel → toks = pre ++ TA ln first args ++ (⟨")", true, ln, ln⟩ :: rest) →
      commaSep toks false fuel openLine ")" acc ⟨pre.length, d⟩ =
        .ok (acc ++ args) ⟨pre.length + (TA ln first args).length, d⟩ := by
  induction args with
  | nil =>
    refine ⟨1, ?_⟩
    intro fuel ln first pre rest d toks acc openLine hf ht
    obtain ⟨f, rfl⟩ : ∃ f, fuel = f + 1 := ⟨fuel - 1, by omega⟩
    rw [TA_nil] at ht ⊢
    have h0 : toks[pre.length]? = some ⟨")", true, ln, ln⟩ := by
      rw [ht]; simp
    rw [commaSep]
    simp [bind_apply, P.bind, pure_apply, peekIs_some toks ")" pre.length d _ h0]
  | cons a rest' ih =>
    obtain ⟨na, hna⟩ := hr a (List.mem_cons_self ..)
    have hwa := hwf a (List.mem_cons_self ..)
    obtain ⟨N', hN'⟩ := ih (fun x hx => hwf x (List.mem_cons_of_mem _ hx)) (fun x hx => hr x (List.mem_cons_of_mem _ hx))
    refine ⟨na + N' + 3, ?_⟩
    intro fuel ln first pre rest d toks acc openLine hf ht
    obtain ⟨f, rfl⟩ : ∃ f, fuel = f + 1 := ⟨fuel - 1, by omega⟩
    obtain ⟨t1, tl, hT, hfirst⟩ := hwa.first_tok ln first
    have hne : (t1.text == ")") = false := by simp [hfirst.1]
    cases rest' with
    | nil =>
      rw [TA_one] at ht ⊢
      have h0 : toks[pre.length]? = some t1 := by
        rw [ht]
        have := get_mid pre (T ln first a) (⟨")", true, ln, ln⟩ :: rest) 0 (by simp [hT])
        simpa [hT] using this
      obtain ⟨ln', hfull⟩ := full_of_reach hna f ln first pre _ d toks (by omega) ht
        (by intro t h; simp at h; subst h; simp)
        (by intro t h; simp at h; subst h; simp; decide)
      have hclose : toks[pre.length + (T ln first a).length]? = some ⟨")", true, ln, ln⟩ := by
        rw [ht]
        simpa using get_rest pre (T ln first a) (⟨")", true, ln, ln⟩ :: rest) 0
      rw [commaSep]
      have hpos : ¬ (pre.length + (T ln first a).length ≤ pre.length) := by simp [hT]
      simp [bind_apply, P.bind, pure_apply, peekIs_some toks ")" pre.length d _ h0, hne, getIdx, hfull,
        hwa.not_invalid, hpos, peek, peekAt, hclose, TokI.text]
    | cons a2 r2 =>
      rw [TA_cons ln first a a2 r2 (hwa.allT first)] at ht ⊢
      have h0 : toks[pre.length]? = some t1 := by
        rw [ht]
        have := get_mid pre (T ln first a ++ ⟨",", true, ln, ln⟩ :: TA ln false (a2 :: r2)) (⟨")", true, ln, ln⟩ :: rest) 0
          (by simp [hT])
        simpa [hT] using this
      have ht1 : toks = pre ++ T ln first a ++ (⟨",", true, ln, ln⟩ :: (TA ln false (a2 :: r2) ++ ⟨")", true, ln, ln⟩ :: rest)) := by
        rw [ht]; simp [List.append_assoc]
      obtain ⟨ln', hfull⟩ := full_of_reach hna f ln first pre _ d toks (by omega) ht1
        (by intro t h; simp at h; subst h; simp)
        (by intro t h; simp at h; subst h; simp; decide)
      have hcomma : toks[pre.length + (T ln first a).length]? = some ⟨",", true, ln, ln⟩ := by
        rw [ht1]
        simpa using get_rest pre (T ln first a) (⟨",", true, ln, ln⟩ :: (TA ln false (a2 :: r2) ++ ⟨")", true, ln, ln⟩ :: rest)) 0
      have ht2 : toks = (pre ++ T ln first a ++ [⟨",", true, ln, ln⟩]) ++ TA ln false (a2 :: r2) ++ (⟨")", true, ln, ln⟩ :: rest) := by
        rw [ht]; simp [List.append_assoc]
      have hlen : (pre ++ T ln first a ++ [(⟨",", true, ln, ln⟩ : Tok)]).length = pre.length + (T ln first a).length + 1 := by
        simp; omega
      have hrec := hN' f ln false _ rest d toks (acc ++ [a]) openLine (by omega) ht2
      rw [hlen] at hrec
      rw [commaSep]
      have hpos : ¬ (pre.length + (T ln first a).length ≤ pre.length) := by simp [hT]
      simp [bind_apply, P.bind, pure_apply, peekIs_some toks ")" pre.length d _ h0, hne, getIdx, hfull,
        hwa.not_invalid, hpos, peek, peekAt, hcomma, TokI.text, pop, hrec]
      omega

theorem reach_call {f : Expr} {args : List Expr} {nf : Nat} (hf : WF true f) (hargs : ∀ a ∈ args, WF false a)
    (h1 : ReachAll true f nf) (hr : ∀ a ∈ args, ∃ n, ReachAll false a n) :
    ∃ n, ReachAll true (.call f args) n := by
  obtain ⟨N, hN⟩ := commaSep_ok args hargs hr
  refine ⟨nf + N + 4, ?_⟩
  intro b fuel ln first pre rest d toks _ hfu ht hfo _
  have hta := allT_args true args (fun a ha => (hargs a ha).allT)
  rw [T_call ln first f args (hf.allT first) hta] at ht ⊢
  have ht1 : toks = pre ++ T ln first f ++ (⟨"(", true, ln, ln⟩ :: (TA ln true args ++ [⟨")", true, ln, ln⟩]) ++ rest) := by
    rw [ht]; simp [List.append_assoc]
  obtain ⟨ln1, fuel1, hf1, e1⟩ := h1 b fuel ln first pre _ d toks (fun h => by cases h) (by omega) ht1
    (by intro t h; simp at h; subst h; simp) (fun h => by cases h)
  obtain ⟨k, rfl⟩ : ∃ k, fuel1 = k + 2 := ⟨fuel1 - 2, by omega⟩
  have hlp : toks[pre.length + (T ln first f).length]? = some ⟨"(", true, ln, ln⟩ := by
    rw [ht1]
    simpa using get_rest pre (T ln first f) (⟨"(", true, ln, ln⟩ :: (TA ln true args ++ [⟨")", true, ln, ln⟩]) ++ rest) 0
  have ht2 : toks = (pre ++ T ln first f ++ [⟨"(", true, ln, ln⟩]) ++ TA ln true args ++ (⟨")", true, ln, ln⟩ :: rest) := by
    rw [ht]; simp [List.append_assoc]
  have hlen : (pre ++ T ln first f ++ [(⟨"(", true, ln, ln⟩ : Tok)]).length = pre.length + (T ln first f).length + 1 := by
    simp; omega
  have hargsOk := hN k ln true _ rest d toks [] ln (by omega) ht2
  rw [hlen] at hargsOk
  have hrp : toks[pre.length + (T ln first f).length + 1 + (TA ln true args).length]? = some ⟨")", true, ln, ln⟩ := by
    rw [ht2]
    have := get_rest (pre ++ T ln first f ++ [(⟨"(", true, ln, ln⟩ : Tok)]) (TA ln true args) (⟨")", true, ln, ln⟩ :: rest) 0
    rw [hlen] at this
    simpa using this
  refine ⟨ln1, k + 1, by omega, ?_⟩
  rw [e1, trailing]
  have hlt : pre.length + (T ln first f).length < pre.length + (T ln first f).length + 1 + (TA ln true args).length + 1 := by
    omega
  simp [bind_apply, P.bind, pure_apply, getIdx, peek, peekAt, hlp, TokI.text, parseCallArguments,
    requireToken_ok toks "(" _ d _ hlp rfl, hargsOk, closePos, hrp, pop, TokI.pos, Pos.merge, hlt]
  have hmax : max (pre.length + (T ln first f).length) (pre.length + (T ln first f).length + 1 + (TA ln true args).length + 1)
      = pre.length + ((T ln first f).length + ((TA ln true args).length + 1 + 1)) := by omega
  have hj : pre.length + (T ln first f).length + 1 + (TA ln true args).length + 1
      = pre.length + ((T ln first f).length + ((TA ln true args).length + 1 + 1)) := by omega
  rw [hmax, hj]

/-- Every operand / chain of the fragment gets back into the trailing loop holding itself. -/
theorem reach {c : Bool} {e : Expr} (h : WF c e) : ∃ n, ReachAll c e n := by
  induction h with
  | int hi => exact ⟨3, reach_int hi.tok⟩
  | var hx => exact ⟨3, reach_var hx⟩
  | call hf ha ihf iha =>
    obtain ⟨nf, hnf⟩ := ihf
    exact reach_call hf ha hnf iha
  | paren he ih =>
    obtain ⟨n, hn⟩ := ih
    exact ⟨n + 5, reach_paren he hn⟩
  | closed _ ih =>
    obtain ⟨n, hn⟩ := ih
    refine ⟨n, ?_⟩
    intro b fuel ln first pre rest d toks _ hf ht hfo _
    exact hn b fuel ln first pre rest d toks (fun h => by cases h) hf ht hfo (fun h => by cases h)
  | binop hl hop _ ihl ihr =>
    obtain ⟨nl, hnl⟩ := ihl
    obtain ⟨nr, hnr⟩ := ihr
    exact ⟨nl + nr + 3, reach_binop hl hop hnl hnr⟩

/-- Round trip for the fragment: the printed tokens of a well-formed chain, in any context that does
not continue the expression, parse back to exactly that chain, consuming exactly those tokens and
emitting no diagnostic — for every sufficiently large fuel. -/
theorem parse_print_fragment {e : Expr} (h : WF false e) :
    ∃ n, ∀ (fuel ln : Nat) (first : Bool) (pre rest : List Tok) (d : List DiagKind),
      n ≤ fuel → Follow rest → ChainStop rest →
      ∃ ln', parseExpression (pre ++ T ln first e ++ rest) false fuel ⟨pre.length, d⟩ =
        .ok ⟨e, ⟨ln', pre.length + (T ln first e).length⟩⟩ ⟨pre.length + (T ln first e).length, d⟩ := by
  obtain ⟨n, hn⟩ := reach h
  refine ⟨n + 1, ?_⟩
  intro fuel ln first pre rest d hf hfo hc
  exact full_of_reach hn fuel ln first pre rest d _ hf rfl hfo hc


end ParseLemmas
