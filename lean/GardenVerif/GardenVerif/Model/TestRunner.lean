import GardenVerif.Model.Machine
/-!
M12 (test runner part): `garden test` / `garden sandboxed-test` over the evaluator model M4.

* `Expression_::Assert` is not a node kind of `Machine.Expr`. It is ENCODED here as
  `call id used (unsup 0 true "assert") [inner]` (`mkAssert`; the driver produces this
  encoding from the `(assert …)` nodes of the real parser's tree) and evaluated by
  `assertDisp`, a transcription of the `Expression_::Assert` arm of `eval_expr` and of
  `eval_assert` (src/eval.rs), including the duplicated lhs/rhs values.
  `dispatchX` = `assertDisp` on encoded asserts, `Machine.dispatch` on everything else.
* `stepWith d` is `Machine.step` with the dispatch function as a parameter
  (`stepWith Machine.dispatch = Machine.step` by `rfl`, Lemmas/TestRunner.lean);
  `tstep = stepWith dispatchX` is one iteration of the loop in `eval` for test bodies.
* `AssertionFailed` is not a constructor of `Machine.Err`; it is represented by
  `assertionErr msg = Err.typeError ("assertion-failed: " ++ msg)` (no type name of the
  evaluator starts with that prefix).
* `runTests` mirrors `eval_tests` (src/eval.rs): per test `push_test_stackframe`, `eval`,
  classify, `pop_to_toplevel`; `break` on `Interrupted`. `env.ticks` is NOT reset between
  tests (it is not in the Rust), the output accumulates in `State.out`.
* `gardenTest` mirrors `run_tests_in_files` (src/test_runner.rs): selection by substring,
  `describe_tests`, exit status.

Import-free apart from the machine model (the driver links it).
-/

namespace TestRunner
open Machine

-- ---------------------------------------------------------------- assert

/-- The encoding of `assert(inner)` with syntax id `id` and use flag `used`. -/
def mkAssert (id : Nat) (used : Bool) (inner : Expr) : Expr :=
  .call id used (.unsup 0 true "assert") [inner]

def asAssert : Expr → Option Expr
  | .call _ _ (.unsup _ _ what) [inner] => if what == "assert" then some inner else none
  | _ => none

def opSym : BinOp → String
  | .add => "+" | .sub => "-" | .mul => "*" | .div => "/" | .mod => "%" | .pow => "**"
  | .bitand => "&" | .bitor => "|" | .lt => "<" | .le => "<=" | .gt => ">" | .ge => ">="
  | .eq => "==" | .ne => "!=" | .and => "&&" | .or => "||" | .concat => "^" | .floatOp => "?."

def assertionPrefix : String := "assertion-failed: "

/-- Stand-in for `EvalError::AssertionFailed(_, msg)`. -/
def assertionErr (msg : String) : Err := .typeError (assertionPrefix ++ msg)

def isAssertion : Err → Option String
  | .typeError t => if t.startsWith assertionPrefix then some (t.drop assertionPrefix.length).toString else none
  | _ => none

/-- The message of a failed assertion (`eval_assert`). -/
def assertMsg (p : Program) : Option (Value × BinOp × Value) → String
  | some (lv, .eq, rv) => "Expected `" ++ display p rv ++ "` but got `" ++ display p lv ++ "`."
  | some (lv, op, rv) => "Assertion failed: `" ++ display p lv ++ " " ++ opSym op ++ " " ++ display p rv ++ "`."
  | none => "Assertion failed."

/-- `eval_assert`: pop the condition, and (if the asserted expression is a binary operator)
the saved rhs and lhs; fail unless the condition is `True`. -/
def evalAssert (p : Program) (f : Frame) (used : Bool) (inner : Expr) : Disp :=
  match f.values with
  | [] => .panic "Popped an empty value stack for call receiver"
  | recv :: vals =>
    match inner with
    | .binop _ _ op _ _ =>
      match vals with
      | rv :: lv :: vals' =>
        let f := { f with values := vals' }
        match recv.asBool with
        | some true => .ok (f.pushVIf used vUnit)
        | some false => .err f .E [recv] (assertionErr (assertMsg p (some (lv, op, rv))))
        | none => .err f .E [recv] (.typeError "Bool")
      | _ => .panic "Popped an empty value stack in assert"
    | _ =>
      let f := { f with values := vals }
      match recv.asBool with
      | some true => .ok (f.pushVIf used vUnit)
      | some false => .err f .E [recv] (assertionErr (assertMsg p none))
      | none => .err f .E [recv] (.typeError "Bool")

/-- The `Expression_::Assert` arm of `eval_expr`. `e` is the (encoded) assert node, `f` the
current frame after the entry `(st, e)` was popped. -/
def assertDisp (p : Program) (f : Frame) (st : St) (e inner : Expr) : Disp :=
  match st with
  | .N =>
    match inner with
    | .binop _ _ _ l r => .ok (((f.pushE .PN e).pushE .N r).pushE .N l)
    | _ => .ok ((f.pushE .E e).pushE .N inner)
  | .E => evalAssert p f e.used inner
  | _ =>
    -- duplicate the lhs and rhs values, then run the operator itself
    match f.values with
    | rv :: lv :: vals =>
      .ok (({ f with values := rv :: lv :: rv :: lv :: vals }.pushE .E e).pushE .E inner)
    | _ => .panic "Popped an empty value stack for LHS/RHS of binary operator"

/-- `eval_expr` extended with `assert`. -/
def dispatchX (p : Program) (f : Frame) (st : St) (e : Expr) : Disp :=
  match asAssert e with
  | some inner => assertDisp p f st e inner
  | none => dispatch p f st e

-- ---------------------------------------------------------------- the loop

/-- `Machine.step` with the dispatch function as a parameter (verbatim copy). -/
def stepWith (d : Program → Frame → St → Expr → Disp) (s : State) : StepResult :=
  match s.frames with
  | [] => .panic "empty call stack"
  | f :: callers =>
    match f.exprs with
    | (st, e) :: restExprs =>
      let f := { f with exprs := restExprs }
      let ticks := s.ticks + 1
      let interrupted := s.interrupted || s.interruptAt.contains ticks
      let s := { s with ticks := ticks, interrupted := interrupted }
      if interrupted then
        .error (setTop { s with interrupted := false } (restore f st e [])) .interrupted
      else if limitReached s.tickLimit ticks then
        .error (setTop s (restore f st e [])) .tickLimit
      else if limitExceeded s.stackLimit s.frames.length then
        .error (setTop s (restore f st e [])) .stackLimit
      else
        match d s.prog f st e with
        | .ok f' => stopCheck (setTop s f') f' st e
        | .okOut f' o => stopCheck (setTop { s with out := s.out ++ o } f') f' st e
        | .newFrame f' callee => .cont { s with frames := callee :: f' :: callers }
        | .err f' st' vals er => .error (setTop s (restore f' st' e vals)) er
        | .panic site => .panic site
        | .unsupported w => .unsupported w
    | [] =>
      match callers with
      | [] =>
        match f.values with
        | v :: vals => .done (setTop s { f with values := vals }) v
        | [] => .panic "Should have a value from the last expression"
      | caller :: rest =>
        match f.values with
        | [] => .panic "Should have a value"
        | rv :: _ =>
          if f.callerId.isSome && s.stopAt == f.callerId then .done { s with frames := caller :: rest } rv
          else
          let caller := if f.callerUses then caller.pushV rv else caller
          .cont { s with frames := caller :: rest }

/-- One iteration of the loop in `eval`, with `assert`. -/
def tstep (s : State) : StepResult := stepWith dispatchX s

inductive RunResult where
  | done (s : State) (v : Value)
  | error (s : State) (e : Err)
  | panic (site : String)
  | unsupported (what : String)
  | outOfFuel (s : State)

/-- The loop of `eval`, fuel-bounded. -/
def runWith (d : Program → Frame → St → Expr → Disp) : Nat → State → RunResult
  | 0, s => .outOfFuel s
  | n + 1, s =>
    match stepWith d s with
    | .cont s' => runWith d n s'
    | .done s' v => .done s' v
    | .error s' e => .error s' e
    | .panic site => .panic site
    | .unsupported w => .unsupported w

/-- `eval` (including its early return at an idle toplevel). -/
def evalWith (d : Program → Frame → St → Expr → Disp) (fuel : Nat) (s : State) : RunResult :=
  match s.frames with
  | [f] => if f.exprs.isEmpty then .done s vUnit else runWith d fuel s
  | _ => runWith d fuel s

-- ---------------------------------------------------------------- eval_tests

structure TestDef where
  name : String
  body : List Expr

/-- `push_test_stackframe`. -/
def testFrame (t : TestDef) : Frame :=
  { exprs := t.body.map (fun e => (St.N, e)), values := [vUnit], blocks := [[]], nextBlock := [],
    callerUses := true, kind := .toplevel, callerId := none }

def pushTestFrame (s : State) (t : TestDef) : State := { s with frames := testFrame t :: s.frames }

/-- `Vec::truncate(1)` on a stack kept head-first: keep the bottom element. -/
def keepBottom {α : Type} (l : List α) : List α :=
  match l.getLast? with
  | some x => [x]
  | none => []

/-- `Stack::pop_to_toplevel` (src/env.rs): keep the toplevel frame only, clear its pending
entries, keep its first value and its first binding block. -/
def popToToplevel (s : State) : State :=
  match s.frames.getLast? with
  | none => s
  | some f0 =>
    { s with frames := [{ f0 with exprs := [], values := keepBottom f0.values, blocks := keepBottom f0.blocks }] }

/-- What `eval_tests` records for a test: `None` or `Some(EvalError)`. -/
inductive Verdict where
  | pass
  | failed (msg : String)
  | errored (e : Err)
  | tickLimit
  | stackLimit
  | interrupted
  deriving DecidableEq, Repr

def classifyErr (e : Err) : Verdict :=
  match e with
  | .interrupted => .interrupted
  | .tickLimit => .tickLimit
  | .stackLimit => .stackLimit
  | e => match isAssertion e with
    | some msg => .failed msg
    | none => .errored e

inductive Outcome where
  /-- `eval_tests` returned these `(test, verdict)` pairs, leaving the environment `s` -/
  | finished (vs : List (String × Verdict)) (s : State)
  /-- the Rust would panic while running the test after those listed -/
  | crashed (vs : List (String × Verdict)) (site : String)
  /-- the model cannot tell (left the fragment / out of fuel) -/
  | unknown (vs : List (String × Verdict)) (why : String)

def Outcome.cons (x : String × Verdict) : Outcome → Outcome
  | .finished vs s => .finished (x :: vs) s
  | .crashed vs site => .crashed (x :: vs) site
  | .unknown vs why => .unknown (x :: vs) why

/-- The loop of `eval_tests` over the selected tests. Tests are NOT keyed by name: `eval_tests`
collects `test_defs` from the items in order, duplicates included, and runs every definition with
its own body (only `env.tests`, which the runner does not read, is keyed by name — the last
definition wins there). Two tests with the same name (in one file, or in two files of one
invocation) are two entries of the list, two verdicts and two units of the summary count. -/
def runTestsWith (d : Program → Frame → St → Expr → Disp) (fuel : Nat) : State → List TestDef → Outcome
  | s, [] => .finished [] s
  | s, t :: ts =>
    match evalWith d fuel (pushTestFrame s t) with
    | .done s' _ => (runTestsWith d fuel (popToToplevel s') ts).cons (t.name, .pass)
    | .error s' e =>
      match classifyErr e with
      | .interrupted => .finished [(t.name, .interrupted)] s'     -- `break`, no `pop_to_toplevel`
      | v => (runTestsWith d fuel (popToToplevel s') ts).cons (t.name, v)
    | .panic site => .crashed [] site
    | .unsupported w => .unknown [] ("unsupported " ++ w)
    | .outOfFuel _ => .unknown [] "out-of-fuel"

def runTests (fuel : Nat) (s : State) (ts : List TestDef) : Outcome := runTestsWith dispatchX fuel s ts

-- ---------------------------------------------------------------- run_tests_in_files

def infixB (p : List Char) : List Char → Bool
  | [] => p.isEmpty
  | c :: tl => p.isPrefixOf (c :: tl) || infixB p tl

/-- `ti.name_sym.name.text.contains(&name_contains)`. -/
def selected (filter : String) (ts : List TestDef) : List TestDef :=
  ts.filter fun t => infixB filter.toList t.name.toList

/-- The environment `run_tests_in_files` builds before it runs anything: definitions loaded,
an idle toplevel frame, no limits (`sandboxed-test` sets both). -/
def baseState (p : Program) (tickLimit stackLimit : Option Nat) : State :=
  { prog := p, frames := [initFrame []], ticks := 0, out := "", interrupted := false,
    tickLimit := tickLimit, stackLimit := stackLimit, interruptAt := [] }

def numFailed (vs : List (String × Verdict)) : Nat := (vs.filter fun x => x.2 != Verdict.pass).length
def numPassed (vs : List (String × Verdict)) : Nat := vs.length - numFailed vs

/-- The last line `describe_tests` prints. -/
def summaryLine (vs : List (String × Verdict)) : String :=
  let total := numPassed vs + numFailed vs
  let pl := if total == 1 then "" else "s"
  if numPassed vs == 0 && numFailed vs == 0 then "No tests found."
  else if numFailed vs == 0 && total == 1 then "Ran 1 test: it passed."
  else if numFailed vs == 0 then s!"Ran {total} test{pl}: they all passed."
  else s!"Ran {total} test{pl}: {numPassed vs} passed and {numFailed vs} failed."

/-- Exit status of `garden test`: `std::process::exit(1)` iff `tests_failed > 0`; a Rust panic
is status 101. -/
def exitCode : Outcome → Option Nat
  | .finished vs _ => some (if numFailed vs > 0 then 1 else 0)
  | .crashed _ _ => some 101
  | .unknown _ _ => none

/-- `garden test -n filter file` (`filter = ""` when `-n` is absent). -/
def gardenTest (fuel : Nat) (p : Program) (tests : List TestDef) (filter : String) : Outcome :=
  runTests fuel (baseState p none none) (selected filter tests)

/-- The runner of `garden sandboxed-test file` (all tests, limits 100000 / 1000). -/
def sandboxedTest (fuel : Nat) (p : Program) (tests : List TestDef) : Outcome :=
  runTests fuel (baseState p (some 100000) (some 1000)) tests

end TestRunner
