#!/bin/sh
# Build the framework from files on disk only (offline): Lean library + model driver,
# and the hooked garden binary from /repo's working tree.
set -e
cd "$(dirname "$0")"
export CARGO_NET_OFFLINE=true
mkdir -p .build evidence
python3 tools/extract_tables.py /repo lean/GardenVerif 2>/dev/null || true
(cd lean/GardenVerif && lake build GardenVerif gvdriver)
(cd /repo && CARGO_TARGET_DIR=/verif/.build/garden-target RUSTFLAGS="--cfg wilfred_garden_verif" cargo build --offline --bin garden)
echo setup done
