"""C30 — nREPL delivers one final `done` per request, after all its output.

Proof: GardenVerif.Props.C30 — `Nrepl.Inv` is an inductive invariant of the interleaving model M10
(Model/Nrepl.lean) over all interleavings; corollaries one_done_last, output_complete_before_done,
done_quiescent, sessions_isolated.
Tie: the real server (`garden nrepl --port 0`, hook H4 delay points) is driven over TCP by scripted
clients; every observed per-connection trace must be produced by some run of the model
(driver op `nrepl_accept`, a search used only to validate the model).
Direct oracle on the raw traces (no model): per id exactly one `done`, it is the last message with
that id, the `out` / `err` payloads received before it concatenate byte-for-byte (length included) to the
script's known output (up to 1 MiB per eval, multi-byte text), statuses and values as
expected (same variable name in two sessions evaluated concurrently = isolation).
"""
from . import nrepl_client as N

LEAN_MODULES = ["GardenVerif.Props.C30"]

CONFIGS = [
    ("last_print", {}), ("last_print", {"before_drain": 40, "after_join": 20}),
    ("last_print", {"before_done": 60}),
    ("flusher_gap", {}), ("flusher_gap", {"flusher_take_send": 300}),
    ("flusher_gap", {"before_stop": 120, "before_join": 30}),
    ("two_sessions", {}), ("two_sessions", {"after_reset": 30, "after_dequeue": 20}),
    ("closed_session", {}),
    ("idle_interrupt", {}), ("loop_interrupt", {}), ("loop_interrupt", {"flusher_take_send": 150}),
    ("interrupt_queued", {}), ("interrupt_queued", {"before_done": 80}),
    ("close_loop", {}), ("close_loop", {"drain_take_send": 80}),
    # large outputs (4 KiB .. 1 MiB, sizes around 64 KiB / 128 KiB / 256 KiB and their neighbours, ASCII and
    # multi-byte units, stdout and stderr, single print and fast print loops): everything, or all but what
    # few flusher passes took, is left to the final drain
    ("big_output", {}), ("big_output", {"flusher_take_send": 400}), ("big_output", {"before_stop": 150}),
    # pipelining client: evals + close (+ later requests) sent back to back; every request sent gets exactly one
    # final `done`, also those still queued (before_done holds the worker on the first request so that the
    # rest is queued when the close is handled) or just dequeued (after_dequeue) at that moment
    ("pipelined_close", {}), ("pipelined_close", {"before_done": 300}), ("pipelined_close", {"after_dequeue": 200}),
]


def run(ctx):
    n = ctx.scale(10, 100)
    configs = list(CONFIGS)
    if not ctx.quick():
        pts = ["after_dequeue", "after_reset", "flusher_take_send", "drain_take_send", "before_stop",
               "before_join", "after_join", "before_drain", "before_done", "interrupt_after_store",
               "close_after_store"]
        kinds = sorted({k for k, _ in CONFIGS})
        for _ in range(24):
            d = {p: ctx.rng.randint(1, 250) for p in ctx.rng.sample(pts, ctx.rng.randint(1, 3))}
            configs.append((ctx.rng.choice(kinds), d))
    ctx.rule = ("scripted nREPL clients: %d schedules (schedule kind x H4 delay setting) x %d randomised scripts each "
                "(random tokens, print counts, busy-loop lengths around the 100 ms flusher period, interrupt timing); "
                "one server per schedule on an OS-chosen port, parallel connections. Non-trivial = an eval "
                "streamed >=2 out chunks, or ended interrupted, or the script involves two sessions / a closed "
                "session / the flusher gap." % (len(configs), n))
    ctx.assumptions += [
        "request ids are unique per connection (the model numbers requests by arrival)",
        "mpsc channels are FIFO and thread join is a happens-before edge (Rust std)",
        "real scheduling is only nudged by the H4 delay points; the proof covers all interleavings of the model",
        "a worker that panics mid-request sends no `done` (C02 is a premise); SIGINT watchdog and connection teardown are not modelled",
        "liveness is checked only as: every scripted request gets its `done` within the script's time bound",
    ]
    N.run_configs(ctx, "C30", configs, n)
