"""C33 — Printing a syntax tree and parsing it gives the same tree.

Proof: GardenVerif.Props.C33 (`parse_print`: whole files, every node kind; `parse_print_stmt`, `parse_print_block`).
Correspondence + direct oracle over the WHOLE grammar (every node kind, definitions included):
generated well-formed trees (harness/tree_gen.py) -> canonical text (`Print.printItems`/`render` through
the driver op `print_tree`) -> REAL lexer and parser (hook ops `lex`, `ast`):
  * oracle (no model of the parser involved): the real parser's position-free tree equals the
    generated tree and there are no parse errors;
  * tie for `Print.lexOf`: the real lexer's tokens (text, touching, line) equal `print_tokens`;
  * correspondence: the Lean parser model on the real token list gives the same tree and diagnostics.
"""
import re
from . import ast_dump as A
from . import tree_gen as G

LEAN_MODULES = ["GardenVerif.Props.C33"]

_TOK = re.compile(r"\(tok ([0-9a-f]*) (\d+):(\d+):(\d+):(\d+):\d+:\d+")


def real_tokens(lex_line):
    """[(text, touchesPrev, line)] from the hook's lex answer (token 0 touches iff it starts at 0)."""
    out, prev_end = [], 0
    for h, s, e, l, _el in _TOK.findall(lex_line or ""):
        out.append((bytes.fromhex(h).decode("utf-8"), int(s) == prev_end, int(l)))
        prev_end = int(e)
    return out


_MTOK = re.compile(r"\(tok ([0-9a-f]*) (touch|sep) (\d+)\)")


def model_tokens(line):
    return [(bytes.fromhex(h).decode("utf-8"), t == "touch", int(l)) for h, t, l in _MTOK.findall(line or "")]


def string_trees():
    """Deterministic trees around every boundary string value: the literal alone, in a block between two
    other literals, as call / method-call argument, list and tuple element, dict key and value, struct field,
    operand of `^` and `==`, let / assignment value, return value, match scrutinee and arm body, condition."""
    out = []
    for v in G.STRINGS:
        S = ("str", v)
        b = ("str", "b")
        out.append([("expr", S)])
        out.append([("blockitem", ("block", [("str", "x\\y"), S, b]))])
        out.append([("expr", ("call", ("var", "f"), [S, b]))])
        out.append([("expr", ("mcall", S, "len", []))])
        out.append([("expr", ("mcall", ("var", "x"), "m", [b, S]))])
        out.append([("expr", ("list", [S, S]))])
        out.append([("expr", ("tuple", [S]))])
        out.append([("expr", ("dict", [(S, b), (b, S)]))])
        out.append([("expr", ("structlit", "Foo", [("a", S), ("b2", b)]))])
        out.append([("expr", ("binop", "^", ("binop", "==", S, b), S))])
        out.append([("expr", ("let", ("sym", "x"), None, S))])
        out.append([("expr", ("assign", "x", S)), ("expr", ("return", S))])
        out.append([("expr", ("match", S, [("Some", ("sym", "y"), ("block", [S])), ("None", None, ("block", [b]))]))])
        out.append([("expr", ("if", ("binop", "==", ("var", "x"), S), ("block", [S]), ("block", [S, b])))])
        out.append([("fun", False, "foo", ([], [("p", "x", None)], None, ("block", [S]))), ("test", "t1", ("block", [("assert", S)]))])
        out.append([("import", v if v else "x.gdn", None)])
    return out


def exotic_trees():
    """Deterministic trees at the edge of what the grammar can express (all inside `RT.WT` of Props/C33.lean):
    a statement form (`let`, assignment, `+=`, `return`) as the right operand of the LAST operator of a chain,
    and a bare `return` ending an argument / element / condition (the printer then breaks the line before the
    separator)."""
    x, y, one = ("var", "x"), ("var", "y"), ("int", 1)
    r0 = ("return", None)
    stmts = [("assign", "y", one), ("update", "+=", "y", one), ("let", ("sym", "z"), None, one), ("return", one), r0,
             ("let", ("destr", ["a", "b"]), ("hint", "Foo", []), ("binop", "*", x, one))]
    out = []
    for st in stmts:
        out.append([("expr", ("binop", "+", x, st))])
        out.append([("expr", ("binop", "-", ("binop", "*", x, y), st))])
        out.append([("expr", ("paren", ("binop", "==", ("call", ("var", "f"), [x]), st))), ("expr", y)])
        out.append([("expr", ("call", ("var", "f"), [("binop", "+", x, st), y]))])
        out.append([("expr", ("binop", "+", x, ("assign", "y", ("binop", "*", y, st))))])
    for holder in [lambda e: ("call", ("var", "f"), [e]), lambda e: ("call", ("var", "f"), [e, one]),
                   lambda e: ("call", ("var", "f"), [one, e]), lambda e: ("mcall", x, "m", [e]),
                   lambda e: ("list", [e]), lambda e: ("list", [e, one]), lambda e: ("tuple", [e]),
                   lambda e: ("tuple", [e, one]), lambda e: ("tuple", [one, e]), lambda e: ("paren", e),
                   lambda e: ("assert", e), lambda e: ("dict", [(e, one)]), lambda e: ("dict", [(one, e), (x, y)]),
                   lambda e: ("structlit", "Foo", [("a", e), ("b2", one)]),
                   lambda e: ("if", e, ("block", [one]), None), lambda e: ("while", e, ("block", [])),
                   lambda e: ("for", ("sym", "i"), e, ("block", [("continue",)])),
                   lambda e: ("match", e, [("Some", ("sym", "v"), ("block", [("var", "v")]))])]:
        for e in [r0, ("let", ("sym", "z"), None, r0), ("assign", "y", r0), ("return", r0),
                  ("binop", "+", x, r0)]:
            out.append([("expr", holder(e)), ("expr", y)])
            out.append([("fun", False, "foo", ([], [], None, ("block", [holder(e), x])))])
    return out


def run(ctx):
    rng = ctx.rng
    cases = string_trees()
    knobs = [dict(stream="string-boundaries") for _ in cases]
    ex = exotic_trees()
    cases += ex
    knobs += [dict(stream="grammar-edge") for _ in ex]
    n = ctx.scale(2500, 40000)
    max_depth = ctx.scale(4, 6)
    for i in range(n):
        d = 1 + i % max_depth
        g = G.Gen(rng, max_depth=d, max_items=rng.choice([1, 2, 3]), p_stmt=rng.choice([0.1, 0.35, 0.6]),
                  p_leaf=rng.choice([0.15, 0.3]))
        items = g.items(d, rng.randint(1, 3))
        cases.append(items)
        knobs.append(dict(depth=d, max_items=g.max_items, p_stmt=g.p_stmt, p_leaf=g.p_leaf))
    # a few hand-picked ones: every node kind at least once, boundary literals
    ctx.rule = ("top-level item lists generated from the grammar by tree_gen.Gen (knobs: depth 1..%d, list length <=3, "
                "statement weight 0.1/0.35/0.6, leaf weight 0.15/0.3; every expression, statement and definition kind); "
                "non-trivial = the tree has >= 6 nodes and >= 3 distinct node kinds." % max_depth)
    want = [[G.item_sexpr(it) for it in items] for items in cases]
    to_model = [" ".join(G.item_sexpr(it, float_canon=False) for it in items) for items in cases]
    printed = A.model_batch(ctx, ["print_tree " + s for s in to_model])
    ptoks = A.model_batch(ctx, ["print_tokens " + s for s in to_model])
    srcs, ok_idx = [], []
    for i, p in enumerate(printed):
        if p and p.startswith("OK s:"):
            srcs.append(bytes.fromhex(p[5:]).decode("utf-8"))
            ok_idx.append(i)
        else:
            ctx.broken.append({"kind": "harness", "what": "driver print_tree failed", "input": to_model[i], "answer": p})
    res = A.parse_both(ctx, srcs)
    hist = {}
    n_tok_checked = 0
    for i, r in zip(ok_idx, res):
        kinds = G.kinds_of(cases[i], {})
        for k, v in kinds.items():
            hist[k] = hist.get(k, 0) + v
        ctx.case(want[i], sum(kinds.values()) >= 6 and len(kinds) >= 3)
        impl = r["impl"]
        # ---- direct oracle on the implementation
        if "panic" in impl:
            ctx.fail("C33/panic", "the parser panicked on the canonical text of a well-formed tree",
                     src=r["src"], tree=want[i], observed=impl["panic"], knobs=knobs[i])
        elif "error" in impl:
            ctx.fail("C33/hook-error", "ast hook did not answer / dump not understood", src=r["src"], observed=impl["error"])
        else:
            if impl["diags"] or A.count_lex_errors(r["lex"]):
                ctx.fail("C33/parse-errors", "the canonical text of a well-formed tree has parse errors",
                         src=r["src"], tree=want[i], observed=impl["diags"], knobs=knobs[i])
            elif impl["items"] != want[i]:
                ctx.fail("C33/different-tree", "parse(print(t)) differs from t",
                         src=r["src"], expected=want[i], observed=impl["items"], knobs=knobs[i])
        # ---- tie for lexOf
        rt, mt = real_tokens(r["lex"]), model_tokens(ptoks[i])
        n_tok_checked += len(rt)
        if rt != mt:
            ctx.disagree("print_tokens (Print.lexOf) vs real lexer", r["src"], mt[:40], rt[:40])
        # ---- correspondence of the parser model on the real tokens
        if not A.same_outcome(r):
            ctx.disagree("parse_tokens", r["src"], r["model"], impl)
        if i < 3:
            ctx.sample({"tree": want[i], "text": r["src"], "impl_tree_equal": impl.get("items") == want[i]})
    ctx.cov["node_kind_histogram"] = dict(sorted(hist.items()))
    ctx.cov["trees"] = len(cases)
    ctx.cov["tokens_compared_with_real_lexer"] = n_tok_checked
    ctx.cov["max_depth"] = max_depth
    missing = [k for k in ["int", "float", "str", "var", "binop", "call", "mcall", "dot", "ns", "let", "assign", "update",
                           "if", "while", "for", "match", "try", "return", "break", "continue", "list", "tuple", "dict",
                           "structlit", "lambda", "assert", "paren", "fun", "method", "test", "enum", "struct", "import",
                           "expr", "blockitem"] if k not in hist]
    ctx.cov["node_kinds_never_generated"] = missing
    if missing:
        ctx.broken.append({"kind": "harness", "what": "generator never produced node kinds", "detail": missing})
    ctx.assumptions += [
        "the Lean theorem (C33.parse_print) is about the parser MODEL on Print.lexOf; it quantifies over the trees RT.WT / "
        "RT.WTI (every node kind; side conditions listed in Props/C33.lean), which include every tree generated here",
        "value_is_used flags, syntax ids and positions are not part of the compared tree",
        "Print.lexOf is tied to the real lexer by the token comparison in this run"]
