"""C22 — `check --fix` edits are safe.

Level: translation validation.
Proof (GardenVerif.Props.C22): `apply_fixes_disjoint` / `apply_fixes_skip_disjoint` (exact models of `apply_fixes`, original
and overlap-skipping: for pairwise-disjoint in-bounds fixes in any order the result is the simultaneous substitution, no
slicing panic), `fixesOf_disjoint`; local schema lemmas (`unused_literal_stmt_sound`, `unused_string_stmt_sound`,
`unnecessary_let_sound`, `repeated_bool_sound`); WHOLE-PROGRAM schema theorems on the closure-free reference semantics:
`unused_literal_fix_sound_partial` (deleting non-last int / string literal statements anywhere preserves the run) and
`repeated_bool_fix_sound_partial` (`x op d` -> `x` for a call-free pure chain preserves the run unless the original ends
with a type error), with sound checkers `unusedLiteralCheck` / `repeatedBoolCheck` evaluated per input (driver ops
`litfix_check`, `rbfix_check`) on the original and the program after ONLY those fixes.
Per input (programs that trigger the fixable lints: unused literal statements — alone on a line, sharing a line with
other code, with effectful items —, unused variables / parameters, `let x = e; x`, trailing `return`, repeated
`&&` / `||` operands (plain and effectful), `len() == 0`, arms after `_`):
* tie: the real fix list (hook op `check`) is fed to the Lean model `applyFixes` (op `fixes_check`), whose output must
  equal the real `check --fix` output (hook op `fix` = `apply_fixes`; a sample through the CLI), and the driver
  evaluates the precondition of `apply_fixes_disjoint` (disjoint, in bounds) on it;
* `FixCoversOnly`: a deletion may not touch any statement other than the one its diagnostic names (node spans
  from the real parser);
* direct oracle: the fixed program parses; when the original ran without error the fixed one prints the same and
  ends without error (real evaluator; differences re-run through `garden run`); repeating --fix reaches a fixed
  point: no text of an earlier round comes back (cycle) and at most 12 rounds are needed (cascades of dependent
  fixes legitimately take several).

FAILURE KEYS (closed set; every observable failure maps to exactly one of them, deterministically):
  lint names L = slug of the fix description with the back-quoted part removed:
    remove-unused-value (unused literal), remove-this-let-binding (unused variable), rename-to (unused binder → `_x`),
    remove-unnecessary-binding (`let x = e; x`), remove-unnecessary (trailing return), remove-this-duplicate
    (repeated && / ||), use (len() compare → is_empty), remove-unreachable-case, replace-with (operator for the
    operand types); a fix description outside this list yields its own slug (a new lint is a new mechanism).
  C22/overlapping-fixes/<L1>+<L2>      two offered fixes overlap (one failure per overlapping pair of lints). ANY symptom
                                       (panic of apply_fixes, unparseable or misbehaving output) of a program that
                                       disappears when only the non-overlapping fixes are applied is attributed to
                                       these keys and to C22/crash/overlapping-fixes (panic), never to a new key.
  C22/crash/overlapping-fixes          `check --fix` panics in apply_fixes on overlapping fixes
  C22/crash/<L>                        applying the fixes of ONE diagnostic of lint L panics;  C22/crash/check: `check` itself
  C22/<S>/<L>   S ∈ {fixed-does-not-parse, behaviour-changed}: the fixes of ONE diagnostic of lint L, applied alone,
                                       already show symptom S (one failure per such lint)
  C22/<S>/combination/<L1>+…+<Lk>      no single diagnostic does, after removing the overlapping ones and the
                                       single-diagnostic culprits; the key lists the lints of a 1-minimal failing SUBSET of
                                       diagnostics found by delta debugging (deterministic order), i.e. the set of lints
                                       whose fixes must be applied together to see S
  For L = remove-this-duplicate the lint name is refined by WHAT was removed (node kinds from the real parser):
    remove-this-duplicate/pure-duplicate (variables, literals, operators, parentheses, list / tuple literals) or
    remove-this-duplicate/effectful-duplicate-<kind> (kind of the removed operand: call, mcall, if, match, …): a fix
    that removes an expression containing a call, method call, assignment, block or closure is outside the proved
    schema `repeated_bool_fix_sound_partial` (the failure report carries the verdict of `rbfix_check`).
  C22/no-fixed-point/<L>               repeating --fix cycles (an earlier text comes back) or needs more than 12 rounds; L = a lint
                                       still offering a fix at that point (one failure per such lint)
  C22/fix-covers-other-code/remove-unused-value   the unused-literal deletion touches another statement
  C22/generator                        harness: a generated program does not parse
"""
import os
import re
from . import common
from . import refactor_common as RC
from .common import hexs, unhex

LEAN_MODULES = ["GardenVerif.Props.C22"]
LEVEL = "translation_validation"


EFFECT_PRELUDE = (
    "struct Sensor {\n  name: String,\n}\n"
    "method poll(this: Sensor): Bool {\n  println(this.name ^ \" polled\")\n  False\n}\n"
    "method ready(this: Sensor): Bool {\n  println(this.name ^ \" ready\")\n  True\n}\n"
    "method quiet(this: Sensor): Bool {\n  this.name == \"\"\n}")


def effectful_duplicate(rng, k):
    """(statements, kind): a `&&` / `||` chain whose REPEATED operand is an expression with an effect (or a call
    that only the callee's body can tell to be effect-free), one syntactic kind per variant. The first occurrence
    never short-circuits (garden's operators are strict anyway), so dropping the second changes the output. The
    lint must not offer 'Remove this duplicate' for any of them; if a widened purity test does, the run before /
    after shows it."""
    v = "e%d" % k
    op, first = rng.choice([("||", "poll"), ("&&", "ready")])
    variants = [
        ("user-method", ["let %s = Sensor{ name: \"s%d\" }" % (v, k)], "%s.%s()" % (v, first)),
        ("user-method-arg", ["let %s = Sensor{ name: \"t%d\" }" % (v, k)], "%s.%s()" % (v, first)),
        ("pure-user-method", ["let %s = Sensor{ name: \"\" }" % v], "%s.quiet()" % v),
        ("user-function", [], "pr(%d)" % rng.randrange(0, 6)),
        ("closure-call", ["let %s = fun(z) {\n    println(\"clo\")\n    z > 2\n  }" % v], "%s(%d)" % (v, rng.randrange(0, 6))),
        ("dbg", [], "dbg(%s)" % rng.choice(["True", "False"])),
        ("builtin-method", ["let %s = [%d]" % (v, k)], "%s.is_empty()" % v),
        ("block-assign", ["let %s = True" % v], "(if %s { %s = False  True } else { False })" % (v, v)),
        ("match-effect", [], "(match Some(%d) { Some(w) => { println(string_repr(w))  w > 2 } None => { False } })" % k),
    ]
    kind, pre, e = rng.choice(variants)
    shape = rng.randrange(3)
    if shape == 0:
        chain = "%s %s %s" % (e, op, e)
    elif shape == 1:
        chain = "%s %s %s %s %s" % (e, op, rng.choice(["True", "False"]), op, e)
    else:
        chain = "(%s %s %s) %s %s" % (e, op, rng.choice(["True", "False"]), op, e)
    return pre + ["println(string_repr(%s))" % chain], kind


def gen_lint_program(rng, idx):
    """Functions whose bodies mix ordinary statements with lint triggers; every function is called and its
    result printed, and effectful helpers print, so a fix that drops or duplicates code is observable."""
    g = RC.RGen(rng, size=rng.choice([10, 18, 26]), assign=True, closures=rng.random() < 0.5)
    kinds = []
    parts = ["fun pr(k) {\n  println(string_repr(k))\n  k > 2\n}", "fun eff(k) {\n  println(string_repr(k + 100))\n  k\n}"]
    with_effects = rng.random() < 0.6
    if with_effects:
        parts.insert(0, EFFECT_PRELUDE)
    g.funs += []
    nfun = rng.randrange(1, 4)
    calls = []
    for fi in range(nfun):
        name = "g%d" % fi
        ps = rng.sample(RC.POOL, rng.randrange(0, 3))
        g.scopes = [{p: RC.INT for p in ps}, {}]
        g.loop = 0
        body = []
        for _ in range(rng.randrange(2, 6)):
            k = rng.randrange(14)
            if with_effects and rng.random() < 0.25:
                stmts, ek = effectful_duplicate(rng, len(kinds))
                kinds.append("effectful-duplicate:" + ek)
                body += stmts
            elif k == 0:
                kinds.append("literal-line")
                body.append(rng.choice(["1", '"s"', "[1, 2]", "(1, 2)", "[%s]" % g.int_expr(2)]))
            elif k == 1:
                kinds.append("literal-shared-line")
                body.append("%s println(string_repr(%s))" % (rng.choice(["1", '"s"', "[1, 2]"]), g.int_expr(2)))
            elif k == 2:
                kinds.append("literal-shared-line-after")
                body.append("println(string_repr(%s)) %s" % (g.int_expr(2), rng.choice(["1", '"s"', "[3]"])))
            elif k == 3 and rng.random() < 0.12:
                kinds.append("literal-effectful")
                body.append(rng.choice(["[eff(%s)]", "(eff(%s), 2)", "[1, eff(%s)]"]) % g.int_expr(2))
            elif k == 4:
                kinds.append("unused-var")
                body.append("let u%d = %s" % (len(kinds), rng.choice([g.int_expr(1), "eff(%s)" % g.int_expr(2)])))
            elif k == 5:
                kinds.append("repeated-bool")
                bs = g.vars_of(RC.BOOL)
                a = rng.choice(bs) if bs else "(%s)" % g.bool_expr(1) if rng.random() < 0.1 else rng.choice(["True", "False"])
                op = rng.choice(["||", "&&"])
                body.append("println(string_repr(%s %s %s %s %s))" % (a, op, g.bool_expr(1) if rng.random() < 0.5 else "True", op, a))
            elif k == 6 and rng.random() < 0.08:
                kinds.append("repeated-bool-assigning-middle")
                q = "q%d" % len(kinds)
                body.append("let %s = True" % q)
                body.append("println(string_repr(%s && (if True { %s = False  True } else { True }) && %s))" % (q, q, q))
            elif k == 6:
                kinds.append("repeated-bool-effectful")
                op = rng.choice(["||", "&&"])
                body.append("println(string_repr((pr(%d) %s False) %s pr(%d)))" % (fi, op, op, fi))
            elif k == 7:
                kinds.append("len-compare")
                body.append("let l%d = %s" % (len(kinds), g.list_expr(1)))
                body.append("if l%d.len() %s 0 { println(\"e\") }" % (len(kinds), rng.choice(["==", "!="])))
            elif k == 8:
                kinds.append("unreachable-arm")
                body.append("match %s { Some(q) => { println(string_repr(q)) } _ => { println(\"o\") } None => { println(\"n\") } }" % g.opt_expr(1))
            else:
                body.append(g.stmt(1))
        tail = rng.randrange(4)
        if tail == 0:
            kinds.append("unnecessary-let")
            body.append("let r = %s" % g.int_expr(1))
            body.append("r")
        elif tail == 1:
            kinds.append("unnecessary-return")
            body.append("return %s" % g.int_expr(1))
        else:
            body.append(g.int_expr(1))
        used = set(re.findall(r"\w+", "\n".join(body)))
        for p in ps:
            if p not in used:
                kinds.append("unused-param")
        parts.append("fun %s(%s) %s" % (name, ", ".join(ps), g.render(body, 0)))
        calls.append("println(string_repr(%s(%s)))" % (name, ", ".join(str(rng.randrange(0, 6)) for _ in ps)))
    src = "\n".join(parts + calls) + "\n"
    return src, kinds


def parse_check(resp):
    """-> (n_parse_errors, [(severity, message, (start, end), [(desc, start, end, new)])])"""
    if not resp or not resp.startswith("OK"):
        return None
    diags = []
    nerr = len(re.findall(r"\((?:invalid|incomplete) ", resp))
    for m in re.finditer(r"\(diag (\w+) ([0-9a-f]*) (\d+):(\d+):[\d:]+((?: \(fix [0-9a-f]* [\d:]+ [0-9a-f]*\))*)\)", resp):
        fixes = [(unhex(f.group(1)), int(f.group(2)), int(f.group(3)), unhex(f.group(4)))
                 for f in re.finditer(r"\(fix ([0-9a-f]*) (\d+):(\d+):[\d:]+ ([0-9a-f]*)\)", m.group(5))]
        diags.append((m.group(1), unhex(m.group(2)), (int(m.group(3)), int(m.group(4))), fixes))
    return nerr, diags


def fix_result(resp):
    m = re.match(r"^OK \(fixed ([0-9a-f]*) (\d+)\)$", resp or "")
    if m:
        return unhex(m.group(1)), int(m.group(2))
    return None


def statements(tree):
    """(start, end) of every block-level statement and toplevel expression."""
    out = []

    def block(b):
        for e in b[3:]:
            out.append((int(e[3]), int(e[4])))
            walk(e)

    def walk(e):
        for x in e[5:]:
            if isinstance(x, list):
                if x and x[0] == "block":
                    block(x)
                elif RC.is_expr(x):
                    walk(x)
                elif x and x[0] == "case":
                    block(x[3])
    for it in tree.items:
        if it[0] == "fun":
            block(it[4])
        elif it[0] == "expr":
            out.append((int(it[1][3]), int(it[1][4])))
            walk(it[1])
        elif it[0] == "blockitem":
            block(it[1])
    return out


def blocks(tree):
    """Every statement sequence (function body, nested block, match arm, closure body) as a list of nodes."""
    out = []

    def block(b):
        out.append(list(b[3:]))
        for e in b[3:]:
            walk(e)

    def walk(e):
        for x in e[5:]:
            if isinstance(x, list):
                if x and x[0] == "block":
                    block(x)
                elif RC.is_expr(x):
                    walk(x)
                elif x and x[0] == "case":
                    block(x[3])
                elif x and x[0] not in ("params", "sym", "destr", "s", "hint"):
                    for y in x:
                        if RC.is_expr(y):
                            walk(y)
    for it in tree.items:
        if it[0] == "fun":
            block(it[4])
        elif it[0] == "expr":
            walk(it[1])
        elif it[0] == "blockitem":
            block(it[1])
    return out


SEEDS = [
    'fun f() {\n  1 println("x")\n  2\n}\nprintln(string_repr(f()))\n',
    'fun f() {\n  println("a") "s"\n  2\n}\nprintln(string_repr(f()))\n',
    'fun f() {\n  [1, 2]\n  [3, 4]\n}\nprintln(string_repr(f()))\n',
    'fun f(x) {\n  let y = 1\n  y\n}\nprintln(string_repr(f(3)))\n',
]


def corpus():
    """Minimised past failures (corpus/C22/*.json, field `input`), replayed first."""
    import glob
    import json
    out = []
    for f in sorted(glob.glob(os.path.join(common.ROOT, "corpus", "C22", "*.json"))):
        try:
            out.append(json.load(open(f))["input"])
        except (OSError, ValueError, KeyError):
            pass
    return out


EFFECT_KINDS = {"call", "mcall", "assign", "update", "if", "while", "for", "match", "lambda", "let", "return", "assert",
                "break", "continue", "unsup", "invalid"}


def duplicate_detail(tree, pos):
    """Refinement of the `remove-this-duplicate` lint name by WHAT was removed: `/pure-duplicate` (variables, literals,
    operators, parentheses, list / tuple literals only — what the lint is meant for) or
    `/effectful-duplicate-<kind of the removed operand>`."""
    node = None
    for e in tree.exprs:
        if (int(e[3]), int(e[4])) == pos:
            node = e
            break
    if node is None:
        return "/unlocated-duplicate"

    def effectful(e):
        if e[0] in EFFECT_KINDS:
            return True
        return any(effectful(x) for x in e[5:] if RC.is_expr(x))
    return "/effectful-duplicate-" + node[0] if effectful(node) else "/pure-duplicate"


def group_details(tree, diags):
    """{group index: key suffix} for the diagnostics that offer fixes (same order as `groups`)."""
    out = {}
    g = 0
    for d in diags:
        if not d[3]:
            continue
        if d[3][0][0] == "Remove this duplicate" and tree is not None:
            out[g] = duplicate_detail(tree, d[2])
        g += 1
    return out


def slug(desc):
    return re.sub(r"[^a-z]+", "-", re.sub(r"`[^`]*`", "", desc).lower()).strip("-")


def apply_subset(src, fixes, skip):
    """`apply_fixes` on a list of (desc, start, end, new): stable sort by start descending, sequential splice.
    Original variant: None where the Rust would panic (slice bound beyond the current text). Repaired variant
    (`skip`): a fix overlapping an already applied one (or out of range) is skipped."""
    bs = src.encode()
    bound = len(bs)
    for (desc, a, b, new) in sorted(fixes, key=lambda f: -f[1]):
        if skip:
            if a > b or b > bound:
                continue
            bound = a
        elif a > len(bs) or b > len(bs):
            return None
        bs = bs[:a] + new.encode() + bs[b:]
    return bs.decode("utf-8", "replace")


def overlaps(x, y):
    """Do the ranges of two fixes (desc, start, end, new) overlap? Touching ranges do not."""
    return x[1] < y[2] and y[1] < x[2]


def overlapping_pairs(fixes):
    return [(u, v) for u in range(len(fixes)) for v in range(u + 1, len(fixes)) if overlaps(fixes[u], fixes[v])]


class Classifier:
    """Attributes a symptom (crash / fixed-does-not-parse / behaviour-changed) of one program to keys of the closed
    set described in the module docstring. `groups` = the diagnostics that offer fixes, each a list of fixes."""

    def __init__(self, ctx, src, groups, before, skip, detail=None):
        self.ctx, self.src, self.groups, self.before, self.skip = ctx, src, groups, before, skip
        self.detail = detail or {}
        self.cache = {}

    def judge(self, a):
        sy = set()
        if a[0] == "parse-error":
            sy.add("fixed-does-not-parse")
        elif self.before[0] == "ok" and (a[0] != "ok" or a[2] != self.before[2]):
            sy.add("behaviour-changed")
        return sy

    def pending_texts(self, subsets):
        """Texts that have to be run to know the symptoms of these subsets (fills the cache for panics)."""
        out = {}
        for ss in subsets:
            if ss in self.cache:
                continue
            t = apply_subset(self.src, [f for g in ss for f in self.groups[g]], self.skip)
            if t is None:
                self.cache[ss] = {"crash"}
            else:
                out[ss] = t
        return out

    def plan(self):
        """Overlap analysis: (all groups, groups in overlaps, the others)."""
        n = len(self.groups)
        flat = [(g, f) for g in range(n) for f in self.groups[g]]
        ov = [] if self.skip else overlapping_pairs([f for _, f in flat])
        ogroups = sorted({flat[a][0] for a, b in ov} | {flat[b][0] for a, b in ov})
        return tuple(range(n)), ogroups, tuple(g for g in range(n) if g not in ogroups)

    def symptoms(self, subsets):
        """For each subset (tuple of group indices): set of symptoms its application shows."""
        todo = [ss for ss in subsets if ss not in self.cache]
        texts = {}
        for ss in todo:
            t = apply_subset(self.src, [f for g in ss for f in self.groups[g]], self.skip)
            if t is None:
                self.cache[ss] = {"crash"}
            else:
                texts[ss] = t
        keys = list(texts)
        if keys:
            rr = self.ctx.garden_batch([RC.run_line(texts[k]) for k in keys], shards=min(8, max(1, len(keys) // 4)))
            for k, x in zip(keys, rr):
                a = RC.run_result(x)
                sy = set()
                if a[0] == "parse-error":
                    sy.add("fixed-does-not-parse")
                elif self.before[0] == "ok" and (a[0] != "ok" or a[2] != self.before[2]):
                    sy.add("behaviour-changed")
                self.cache[k] = sy
        return [self.cache[ss] for ss in subsets]

    def lint(self, g):
        return slug(self.groups[g][0][0]) + self.detail.get(g, "")

    def classify(self, symptom):
        """-> list of keys (without the C22/ prefix) explaining `symptom` of the full fix list."""
        n = len(self.groups)
        flat = [(g, f) for g in range(n) for f in self.groups[g]]
        if symptom not in self.symptoms([tuple(range(n))])[0]:
            self.ctx.disagree("classifier-replay", {"src": self.src, "symptom": symptom},
                              "python replay of apply_fixes shows no " + symptom, "real check --fix does")
            return []
        # with the repaired apply_fixes an overlap is harmless (the stale fix is skipped), so it explains nothing
        ov = [] if self.skip else overlapping_pairs([f for _, f in flat])
        ogroups = sorted({flat[a][0] for a, b in ov} | {flat[b][0] for a, b in ov})
        clean = tuple(g for g in range(n) if g not in ogroups)
        keys = []
        if ogroups:
            if symptom not in self.symptoms([clean])[0]:
                return ["crash/overlapping-fixes"] if symptom == "crash" else []   # explained by the overlap keys
        singles = [(g,) for g in clean]
        bad = [g for g, sy in zip(clean, self.symptoms(singles)) if symptom in sy]
        for l in sorted({self.lint(g) for g in bad}):
            keys.append("%s/%s" % (symptom, l))
        rest = tuple(g for g in clean if g not in bad)
        if symptom in self.symptoms([rest])[0]:
            sub = self.ddmin(list(rest), symptom)
            keys.append("%s/combination/%s" % (symptom, "+".join(sorted({self.lint(g) for g in sub}))))
        return keys

    def ddmin(self, items, symptom):
        """1-minimal subset of `items` (diagnostic indices) whose joint application shows `symptom`."""
        n = 2
        while len(items) >= 2:
            size = max(1, len(items) // n)
            chunks = [items[k:k + size] for k in range(0, len(items), size)]
            reduced = False
            for c in chunks:                      # try a chunk, then a complement, in a fixed order
                if len(c) < len(items) and symptom in self.symptoms([tuple(c)])[0]:
                    items, n, reduced = c, 2, True
                    break
            if not reduced:
                for c in chunks:
                    comp = [x for x in items if x not in c]
                    if comp and len(comp) < len(items) and symptom in self.symptoms([tuple(comp)])[0]:
                        items, n, reduced = comp, max(n - 1, 2), True
                        break
            if not reduced:
                if n >= len(items):
                    break
                n = min(len(items), n * 2)
        return items


def run(ctx):
    rng = ctx.rng
    nprog = ctx.scale(300, 3000)
    skip_variant = "applied_start" in open(os.path.join(common.REPO, "src", "syntax_check.rs")).read()
    fixed_inputs = [(s, ["seed"]) for s in SEEDS] + [(s, ["corpus"]) for s in corpus()]
    progs = fixed_inputs + [gen_lint_program(rng, i) for i in range(nprog)]
    srcs = [p for p, _ in progs]
    n = len(srcs)
    ctx.rule = ("%d generated programs whose functions mix ordinary statements with triggers of the fixable lints (unused "
                "literal alone on a line / sharing a line with code before or after it / with effectful items, unused "
                "variable with pure or effectful value, unused parameter, `let r = e; r`, trailing return, repeated && / || "
                "operand plain or effectful, len() == 0, match arm after `_`) + %d fixed seeds / corpus entries; every "
                "function is called and its result printed. Non-trivial = at least one autofix is offered."
                % (nprog, len(fixed_inputs)))
    ctx.cov["apply_fixes_variant"] = "skip-overlapping" if skip_variant else "original"
    r = ctx.garden_batch(["check " + hexs(s) for s in srcs] + ["fix " + hexs(s) for s in srcs] +
                         ["astq " + hexs(s) for s in srcs] + [RC.run_line(s) for s in srcs] +
                         ["astx " + hexs(s) for s in srcs])
    chk, fx, astq, runs, astx = r[:n], r[n:2 * n], r[2 * n:3 * n], r[3 * n:4 * n], r[4 * n:]
    schema_jobs = []          # (program, "lit" | "rb", text after applying only those fixes, ids)
    details = {}              # program -> {group index: key suffix}
    rb_verdict = {}           # (program, diagnostic position) -> verdict of the Lean relation
    model_lines, model_idx = [], []
    hist, nfix_total, lint_hist = {}, 0, {}
    stage = {}
    symptomatic = []          # (program index, symptom)

    def rep_of(i):
        return dict(src=srcs[i], cmd="garden check --fix --stdout f.gdn")
    for i, s in enumerate(srcs):
        for k in progs[i][1]:
            hist[k] = hist.get(k, 0) + 1
        rep = rep_of(i)
        if chk[i] and chk[i].startswith("PANIC"):
            ctx.fail("C22/crash/check", "check panicked: %s" % unhex(chk[i][6:])[:200], **rep)
            continue
        pc = parse_check(chk[i])
        if pc is None:
            ctx.disagree("hook", {"src": s}, None, (chk[i] or "")[:200])
            continue
        nerr, diags = pc
        if nerr or (fx[i] and "parse-error" in fx[i]):
            ctx.fail("C22/generator", "generated program does not parse", **rep)
            continue
        groups = [d[3] for d in diags if d[3]]
        details[i] = {}
        fixes = [f for g in groups for f in g]
        ctx.case(s, bool(fixes))
        nfix_total += len(fixes)
        for f in fixes:
            lint_hist[slug(f[0])] = lint_hist.get(slug(f[0]), 0) + 1
        for a, b in ([] if skip_variant else overlapping_pairs(fixes)):
            x, y = fixes[a], fixes[b]
            ctx.fail("C22/overlapping-fixes/" + "+".join(sorted({slug(x[0]), slug(y[0])})),
                     "two offered fixes overlap: %r and %r" % (x, y), **rep)
        model_lines.append("fixes_check %s %s" % (hexs(s), " ".join("%d:%d:%s" % (f[1], f[2], hexs(f[3])) for f in fixes)))
        model_idx.append(i)
        if fx[i] and fx[i].startswith("PANIC"):
            stage[i] = (groups, None)
            symptomatic.append((i, "crash"))
            continue
        fr = fix_result(fx[i])
        if fr is None:
            ctx.disagree("hook", {"src": s}, None, (fx[i] or "")[:200])
            continue
        if fr[1] != len(fixes):
            ctx.disagree("fix-count", {"src": s}, len(fixes), fr[1])
        stage[i] = (groups, fr[0])
        # FixCoversOnly for the unused-literal deletion: it touches no statement but the literal's own
        if astq[i] and astq[i].startswith("OK (astq 0"):
            tree_i = RC.Tree(astq[i])
            details[i] = group_details(tree_i, diags)
            # the program-level schema relations (Props/C22 whole-program theorems), one schema at a time
            stmt = {}
            for b in blocks(tree_i):
                for k, e in enumerate(b):
                    stmt[(int(e[3]), int(e[4]))] = (int(e[1]), e[0], k + 1 == len(b))
            lit_ids, lit_fixes, lit_last = [], [], 0
            for d in diags:
                if d[3] and d[3][0][0] == "Remove unused value" and d[2] in stmt and stmt[d[2]][1] in ("int", "str"):
                    if stmt[d[2]][2]:
                        lit_last += 1        # last statement of a loop body: outside the relation
                    else:
                        lit_ids.append(stmt[d[2]][0])
                        lit_fixes += d[3]
            if lit_ids:
                t = apply_subset(s, lit_fixes, True)
                schema_jobs.append((i, "lit", t, lit_ids))
            rbd = [d for d in diags if d[3] and d[3][0][0] == "Remove this duplicate"]
            for d in rbd[:6]:
                schema_jobs.append((i, "rb", apply_subset(s, d[3], True), d[2]))
            st = statements(tree_i)
            for d in diags:
                (ds, de) = d[2]
                for (desc, a, b, new) in d[3]:
                    if desc != "Remove unused value":
                        continue
                    own = [x for x in st if x[0] <= ds and de <= x[1]]
                    for (x0, x1) in st:
                        if x0 < b and a < x1 and not any(o[0] <= x0 and x1 <= o[1] for o in own) \
                                and not any(x0 <= o[0] and o[1] <= x1 for o in own):
                            ctx.fail("C22/fix-covers-other-code/remove-unused-value",
                                     "the range of the deleting fix (%d..%d) covers another statement (%d..%d: %r)" % (
                                         a, b, x0, x1, s.encode()[x0:x1].decode()), fix_range=[a, b], **rep)
                            break
    # ---- the whole-program schema theorems, per input: the driver evaluates the relations
    sj = [j for j in schema_jobs if j[2] is not None]
    ax2 = ctx.garden_batch(["astx " + hexs(j[2]) for j in sj])
    lines = []
    for (i, kind, t, ids), a2 in zip(sj, ax2):
        a1 = astx[i]
        if not (a1 and a1.startswith("OK (astx") and a2 and a2.startswith("OK (astx")):
            lines.append("ping")
        elif kind == "lit":
            lines.append("litfix_check %d %s %s %s" % (len(ids), ",".join(str(x) for x in ids), a1[3:], a2[3:]))
        else:
            lines.append("rbfix_check %s %s" % (a1[3:], a2[3:]))
    sr = ctx.model_batch(lines)
    sch = {"lit_accepted": 0, "lit_closure_free": 0, "rb_accepted": 0, "rb_closure_free": 0,
           "rb_shape_only_impure_chain": 0, "skipped_unparseable": 0}
    for (i, kind, t, ids), x in zip(sj, sr):
        if not x or "parse-error" in x or x == "OK pong":
            sch["skipped_unparseable"] += 1
            continue
        if kind == "lit":
            mm = re.match(r"^OK \(litfix (\d) (\d) (\d)\)$", x)
            if mm and mm.group(1) == "1" and mm.group(2) == "1":
                sch["lit_accepted"] += 1
                sch["lit_closure_free"] += mm.group(3) == "1"
            else:
                ctx.disagree("litfix_check", {"src": srcs[i], "literal_nodes": ids, "after": t}, x,
                             "unused-literal fixes applied")
        else:
            mm = re.match(r"^OK \(rbfix (1|0|shape-only) (\S+) (\d+) (\d+) (\d)\)$", x)
            rb_verdict[(i, ids)] = {"1": "inside the proved schema (repeatedBoolCheck accepts)",
                                    "shape-only": "OUTSIDE the proved schema: the chain is not call-free pure "
                                                  "(repeatedBoolCheck rejects)",
                                    "0": "OUTSIDE the proved schema: not of the shape `x op d -> x`"}.get(
                mm.group(1) if mm else "", "not evaluated")
            if mm and mm.group(1) == "1":
                sch["rb_accepted"] += 1
                sch["rb_closure_free"] += mm.group(5) == "1"
            elif mm and mm.group(1) == "shape-only":
                sch["rb_shape_only_impure_chain"] += 1
            else:
                ctx.disagree("rbfix_check", {"src": srcs[i], "after": t}, x, "repeated-operand fix applied")
    ctx.cov["schema_validators"] = sch
    ctx.log("schema validators: %s" % sch)
    # ---- the exact model of apply_fixes on the real fix lists
    mr = ctx.model_batch(model_lines)
    disj_bad = 0
    for i, x in zip(model_idx, mr):
        groups, real = stage.get(i, (None, None))
        m = re.match(r"^OK \(fixes (\d) (PANIC|[0-9a-f]*) ([0-9a-f]*)\)$", x or "")
        if not m:
            ctx.disagree("fixes_check", {"src": srcs[i]}, x, "ok")
            continue
        model = unhex(m.group(3)) if skip_variant else (None if m.group(2) == "PANIC" else unhex(m.group(2)))
        if model != real:
            ctx.disagree("apply_fixes", {"src": srcs[i], "fixes": [f for g in groups or [] for f in g]},
                         "PANIC" if model is None else model, "PANIC" if real is None else real)
        if m.group(1) != "1":
            disj_bad += 1
    # ---- fixed programs: parse, run, fixed point
    idxs = sorted(i for i in stage if stage[i][0] and stage[i][1] is not None)
    texts = [stage[i][1] for i in idxs]
    r1 = ctx.garden_batch([RC.run_line(t) for t in texts] + ["fix " + hexs(t) for t in texts])
    m = len(texts)
    scratch = ctx.scratch("c22")
    rounds_hist = {}
    pending = []
    before = {i: RC.run_result(runs[i]) for i in stage}
    for k, i in enumerate(idxs):
        t = texts[k]
        b, a = before[i], RC.run_result(r1[k])
        if a[0] == "parse-error" or "parse-error" in (r1[m + k] or ""):
            symptomatic.append((i, "fixed-does-not-parse"))
            continue
        if a[0] in ("panic", "died"):
            ctx.fail("C22/crash/evaluator", "the evaluator crashed on the fixed program: %s" % a[1], fixed=t, **rep_of(i))
            continue
        if b[0] == "ok" and (a[0] != "ok" or a[2] != b[2]):
            c1, c2 = RC.cli_run(ctx, srcs[i], scratch, "b%d" % i), RC.cli_run(ctx, t, scratch, "a%d" % i)
            if c1[1] != c2[1] or c1[0] != c2[0]:
                symptomatic.append((i, "behaviour-changed"))
        f2 = fix_result(r1[m + k])
        if f2 is None:
            ctx.fail("C22/crash/check", "second --fix round failed: %s" % (r1[m + k] or "")[:200], fixed=t, **rep_of(i))
            continue
        if f2[0] == t:
            rounds_hist[1] = rounds_hist.get(1, 0) + 1
        else:
            pending.append((i, f2[0], 2, [srcs[i], t]))
    # A fix may legitimately enable the next one (unused `let` -> unused literal -> the previous `let` becomes
    # unused …), so a cascade can need several rounds; what must not happen is a text that comes back (a cycle:
    # --fix never terminates) or no fixed point within MAX_ROUNDS.
    MAX_ROUNDS = 12
    later = []
    while pending:
        rr = ctx.garden_batch(["fix " + hexs(t) for _, t, _, _ in pending])
        nxt, stuck = [], []
        for (i, t, k, seen), x in zip(pending, rr):
            f = fix_result(x)
            if f is None:
                # the output of the previous round (`t`) does not parse, or `check --fix` panics on it: the
                # program to classify is the text that round started from
                if x and x.startswith("PANIC"):
                    later.append((i, t, "crash"))
                else:
                    later.append((i, seen[-1], "fixed-does-not-parse"))
            elif f[0] == t:
                rounds_hist[k] = rounds_hist.get(k, 0) + 1
            elif f[0] in seen or k >= MAX_ROUNDS:
                stuck.append((i, t, f[0], "the text of an earlier round comes back (cycle)" if f[0] in seen
                              else "no fixed point after %d rounds" % MAX_ROUNDS))
            else:
                nxt.append((i, f[0], k + 1, seen + [t]))
        if stuck:
            cc = ctx.garden_batch(["check " + hexs(t) for _, t, _, _ in stuck], shards=1)
            for (i, t, t4, why), x in zip(stuck, cc):
                pc = parse_check(x)
                for l in sorted({slug(f[0]) for d in (pc[1] if pc else []) for f in d[3]}) or ["none"]:
                    ctx.fail("C22/no-fixed-point/" + l, "repeating --fix does not reach a fixed point: %s (lint still "
                             "offering a fix: %s)" % (why, l), round_k=t, round_k_plus_1=t4, **rep_of(i))
        pending = nxt
    # ---- attribute every symptom to keys of the closed set (the replays of all programs are batched)
    attributed = {}
    entries = [dict(i=i, src=srcs[i], groups=stage[i][0], before=before[i], fixed=stage[i][1], sym=sym, round=1,
                    detail=details.get(i, {})) for i, sym in symptomatic]
    if later:
        lr = ctx.garden_batch(["check " + hexs(t) for _, t, _ in later] + [RC.run_line(t) for _, t, _ in later] +
                              ["astq " + hexs(t) for _, t, _ in later])
        for k, (i, t, sym) in enumerate(later):
            pc = parse_check(lr[k])
            groups = [d[3] for d in (pc[1] if pc else []) if d[3]]
            aq = lr[2 * len(later) + k]
            tr = RC.Tree(aq) if aq and aq.startswith("OK (astq 0") else None
            entries.append(dict(i=i, src=t, groups=groups, before=RC.run_result(lr[len(later) + k]), fixed=None,
                                detail=group_details(tr, pc[1] if pc else []),
                                sym=sym, round=2))
    for e in entries:
        e["cl"] = Classifier(ctx, e["src"], e["groups"], e["before"], skip_variant, e["detail"])
        e["plan"] = e["cl"].plan()

    def prefetch(wanted):
        jobs = [(c, ss, t) for c, subsets in wanted for ss, t in c.pending_texts(subsets).items()]
        if jobs:
            rr = ctx.garden_batch([RC.run_line(t) for _, _, t in jobs])
            for (c, ss, _), x in zip(jobs, rr):
                c.cache[ss] = c.judge(RC.run_result(x))
    prefetch([(e["cl"], [e["plan"][0], e["plan"][2]] + [(g,) for g in e["plan"][2]]) for e in entries])
    for e in entries:
        sym = e["sym"]
        keys = e["cl"].classify(sym)
        attributed[sym] = attributed.get(sym, 0) + 1
        for key in keys:
            ctx.fail("C22/" + key, "%s: after `check --fix` the program %s" % (key, {
                "crash": "is not produced: apply_fixes panics",
                "fixed-does-not-parse": "has parse errors",
                "behaviour-changed": "prints or ends differently although the original ran without error"}[sym]),
                fixed=e["fixed"], before_run=e["before"], src=e["src"], original=srcs[e["i"]], fix_round=e["round"],
                schema_relation={str(pos): v for (pi, pos), v in rb_verdict.items() if pi == e["i"]},
                cmd="garden check --fix --stdout f.gdn")
    # ---- the CLI on a sample
    def cli_job(i):
        path = os.path.join(scratch, "c%d.gdn" % i)
        with open(path, "w") as f:
            f.write(srcs[i])
        rc, so, se = ctx.garden(["check", "--fix", "--stdout", path], timeout=120)
        return i, rc, so
    sample = idxs[::max(1, len(idxs) // ctx.scale(25, 400))]
    for i, rc, so in common.pmap(cli_job, sample):
        if common.crashed(rc):
            ctx.fail("C22/crash/cli", "garden check --fix crashed rc=%d where the hook did not" % rc, **rep_of(i))
        elif rc != -9999 and so != stage[i][1]:
            ctx.disagree("hook-vs-cli", {"src": srcs[i]}, stage[i][1], so)
    # a panic seen through the hook is confirmed through the CLI (oracle of record)
    for i, sym in symptomatic:
        if sym == "crash":
            _, rc, so = cli_job(i)
            if not common.crashed(rc):
                ctx.disagree("hook-vs-cli", {"src": srcs[i]}, "PANIC", {"rc": rc})
    RC.cleanup(scratch)
    for i in idxs[:6]:
        ctx.sample(dict(src=srcs[i], fixed=stage[i][1], fixes=[list(f) for g in stage[i][0] for f in g]))
    ctx.cov["failure_keys"] = sorted({f["key"] for f in ctx.failures})
    ctx.cov["known_keys_hit"] = sorted({k["key"] for k in ctx.known_hit})
    ctx.log("failure keys: %s; known: %s" % (ctx.cov["failure_keys"], ctx.cov["known_keys_hit"]))
    ctx.cov.update(programs=n, disagreements_checked=len(model_idx), programs_with_fixes=len(idxs), fixes=nfix_total,
                   fixes_by_lint=lint_hist, triggers_generated=hist, rounds_to_fixed_point=rounds_hist,
                   fix_lists_not_disjoint=disj_bad, symptoms_attributed=attributed, cli_compared=len(sample))
    ctx.assumptions += [
        "schema soundness lemmas are local (statement level, exact in fuel); their lift through arbitrary contexts is not "
        "proved — the per-input oracle runs the real evaluator before / after",
        "sources are ASCII (every byte offset is a char boundary)",
    ]
    ctx.log("programs %d with fixes %d, fixes %d by lint %s; rounds %s; symptoms %s" % (
        n, len(idxs), nfix_total, lint_hist, rounds_hist, attributed))
