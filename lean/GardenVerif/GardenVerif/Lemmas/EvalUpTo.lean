import GardenVerif.Lemmas.TestRunner
import GardenVerif.Model.EvalUpTo
/-! Lemmas for C27: the run with `stopAt = some id` against the run with `stopAt = none`. -/

set_option linter.unusedVariables false
namespace EvalUpTo
open Machine TestRunner

/-- The same state without the request to stop. -/
def clr (s : State) : State := { s with stopAt := none }

def isForPartial (st : St) (e : Expr) : Bool :=
  (match e with | .forE .. => true | _ => false) && (st == St.PW || st == St.PD || st == St.PN)

/-- What the stop test reports after the entry `(st, e)` was dispatched into frame `f'`. -/
def report (st : St) (e : Expr) (f' : Frame) : Option Value :=
  if doneSub st e then
    some (match f'.values with
      | v :: _ => v
      | [] => .str "__ERROR: no expressions evaluated. This is a bug.")
  else if isForPartial st e then some vUnit
  else none

/-- **Completion of the observed node at this step**: the step from `s` is a tick on the node
`s.stopAt` that is not cut short by an interrupt or a limit, whose dispatch succeeds and leaves
the node with its subexpressions done (`doneSub`; a `for` loop: as soon as it has entered its
body) — then the value is the top of the value stack; or it is the return of the frame created
by the call expression `s.stopAt` — then the value is the frame's result. -/
def fires (d : Program → Frame → St → Expr → Disp) (s : State) : Option Value :=
  match s.frames with
  | [] => none
  | f :: callers =>
    match f.exprs with
    | (st, e) :: rest =>
      if (s.interrupted || s.interruptAt.contains (s.ticks + 1)) then none
      else if limitReached s.tickLimit (s.ticks + 1) then none
      else if limitExceeded s.stackLimit s.frames.length then none
      else if s.stopAt == some e.id then
        match d s.prog { f with exprs := rest } st e with
        | .ok f' => report st e f'
        | .okOut f' _ => report st e f'
        | _ => none
      else none
    | [] =>
      match callers with
      | [] => none
      | _ :: _ =>
        match f.values with
        | [] => none
        | rv :: _ => if f.callerId.isSome && s.stopAt == f.callerId then some rv else none

theorem stopCheck_report (a : State) (f' : Frame) (st : St) (e : Expr) :
    stopCheck a f' st e =
      if a.stopAt == some e.id then
        match report st e f' with
        | some v => .done a v
        | none => .cont a
      else .cont a := by
  unfold stopCheck report isForPartial
  by_cases h1 : (a.stopAt == some e.id) = true
  · simp only [h1, if_true]
    by_cases h2 : doneSub st e = true
    · simp only [h2, if_true]; cases hv : f'.values <;> simp
    · simp only [h2, Bool.false_eq_true, if_false]
      have hb : ∀ c : Bool, (if c = true then StepResult.done a vUnit else StepResult.cont a) =
          (match (if c = true then some vUnit else (none : Option Value)) with
            | some v => StepResult.done a v
            | none => StepResult.cont a) := by
        intro c; cases c <;> rfl
      exact hb _
  · simp [h1]

/-- **No completion at this step: the two runs take the same step** (up to the `stopAt` field). -/
theorem step_free (d : Program → Frame → St → Expr → Disp) (s : State) (h : fires d s = none) :
    mapState clr (stepWith d s) = stepWith d (clr s) := by
  unfold fires at h
  unfold stepWith
  match hf : s.frames with
  | [] => simp [clr, hf, mapState]
  | f :: callers =>
    simp only [hf] at h
    match he : f.exprs with
    | [] =>
      simp only [he] at h
      simp only [clr, hf, he]
      cases callers with
      | nil => cases hv : f.values <;> simp [mapState, clr, setTop, hf]
      | cons caller rest =>
        cases hv : f.values with
        | nil => simp [mapState]
        | cons v vs =>
          simp only [hv] at h
          have hc : (f.callerId.isSome && s.stopAt == f.callerId) = false := by
            cases hb : (f.callerId.isSome && s.stopAt == f.callerId)
            · rfl
            · simp [hb] at h
          have hc2 : (f.callerId.isSome && (none : Option Nat) == f.callerId) = false := by
            cases f.callerId <;> simp
          simp [hc, hc2, mapState, clr]
    | (st, e) :: rest =>
      simp only [he] at h
      simp only [clr, hf, he]
      split
      · simp [mapState, clr, setTop, hf]
      · rename_i hi
        split
        · simp [mapState, clr, setTop, hf]
        · rename_i hl
          split
          · simp [mapState, clr, setTop, hf]
          · rename_i hsl
            simp only [hi, hl, hsl, if_false, Bool.false_eq_true, hf] at h
            have hnone : ∀ (a : State) (f' : Frame), a.stopAt = none → stopCheck a f' st e = .cont a :=
              fun a f' ha => stopCheck_none a f' st e ha
            cases hd : d s.prog { f with exprs := rest } st e with
            | ok f' =>
              simp only [hd] at h
              dsimp only
              rw [stopCheck_report, hnone _ _ (by simp [setTop, hf])]
              by_cases hs : (s.stopAt == some e.id) = true
              · simp only [hs, if_true] at h
                simp [setTop, hf, hs, h, mapState, clr]
              · simp [setTop, hf, hs, mapState, clr]
            | okOut f' o =>
              simp only [hd] at h
              dsimp only
              rw [stopCheck_report, hnone _ _ (by simp [setTop, hf])]
              by_cases hs : (s.stopAt == some e.id) = true
              · simp only [hs, if_true] at h
                simp [setTop, hf, hs, h, mapState, clr]
              · simp [setTop, hf, hs, mapState, clr]
            | newFrame f' callee => simp [mapState, clr]
            | err f' st' vals er => simp [mapState, clr, setTop, hf]
            | panic site => simp [mapState]
            | unsupported w => simp [mapState]

/-- **Completion at this step: the stop-run returns the completed node's value right here**,
while the run without the request goes on from the same state (for a call: after handing the
result to the caller). -/
theorem step_fires (d : Program → Frame → St → Expr → Disp) (s : State) (v : Value) (h : fires d s = some v) :
    ∃ s', stepWith d s = .done s' v ∧ ∃ s'', stepWith d (clr s) = .cont s'' := by
  unfold fires at h
  unfold stepWith
  match hf : s.frames with
  | [] => simp [hf] at h
  | f :: callers =>
    simp only [hf] at h
    match he : f.exprs with
    | [] =>
      simp only [he] at h
      simp only [clr, hf, he]
      cases callers with
      | nil => simp at h
      | cons caller rest =>
        cases hv : f.values with
        | nil => simp [hv] at h
        | cons rv vs =>
          simp only [hv] at h
          have hc : (f.callerId.isSome && s.stopAt == f.callerId) = true := by
            cases hb : (f.callerId.isSome && s.stopAt == f.callerId)
            · simp [hb] at h
            · rfl
          have hc2 : (f.callerId.isSome && (none : Option Nat) == f.callerId) = false := by
            cases f.callerId <;> simp
          simp only [hc, if_true] at h
          cases h
          simp [hc, hc2]
    | (st, e) :: rest =>
      simp only [he] at h
      simp only [clr, hf, he]
      split
      · rename_i hi; rw [if_pos hi] at h; cases h
      · rename_i hi
        split
        · rename_i hl; rw [if_neg hi, if_pos hl] at h; cases h
        · rename_i hl
          split
          · rename_i hsl; rw [if_neg hi, if_neg hl, if_pos hsl] at h; cases h
          · rename_i hsl
            simp only [hi, hl, hsl, if_false, Bool.false_eq_true, hf] at h
            by_cases hs : (s.stopAt == some e.id) = true
            · simp only [hs, if_true] at h
              have hnone : ∀ (a : State) (f' : Frame), a.stopAt = none → stopCheck a f' st e = .cont a :=
                fun a f' ha => stopCheck_none a f' st e ha
              cases hd : d s.prog { f with exprs := rest } st e with
              | ok f' =>
                simp only [hd] at h
                dsimp only
                simp only [stopCheck_report]
                simp [setTop, hf, hs, h]
              | okOut f' o =>
                simp only [hd] at h
                dsimp only
                simp only [stopCheck_report]
                simp [setTop, hf, hs, h]
              | newFrame f' callee => simp [hd] at h
              | err f' st' vals er => simp [hd] at h
              | panic site => simp [hd] at h
              | unsupported w => simp [hd] at h
            · simp [hs] at h

end EvalUpTo

-- ---------------------------------------------------------------- marking a node used (local)

namespace EvalUpTo
open Machine TestRunner

/-- Node kinds for which marking changes nothing below the node (no block flags are recomputed:
`setUsedExpr` only recurses with `true` into operands) and whose value is pushed by the node's own
completing step. Excluded: `if` / `match` (flags of the branches change), loops (the value is pushed
one step before completion; `break` reads the loop's flag), calls (the flag travels into the callee
frame), `return` / `break` / `continue` / parentheses (no value of their own is pushed). -/
def Simple : Expr → Bool
  | .int .. | .str .. | .var .. | .lambda .. | .binop .. | .letE .. | .assign .. | .update .. | .list .. | .tuple .. => true
  | _ => false

@[simp] theorem withUsed_id (u : Bool) (e : Expr) : (withUsed u e).id = e.id := by cases e <;> rfl
@[simp] theorem withUsed_used (u : Bool) (e : Expr) : (withUsed u e).used = u := by cases e <;> rfl
@[simp] theorem withUsed_withUsed (a b : Bool) (e : Expr) : withUsed a (withUsed b e) = withUsed a e := by cases e <;> rfl

/-- Forget the use flag of node `id` in a pending entry. -/
def unflag (id : Nat) (x : Expr) : Expr := if x.id == id then withUsed false x else x

def unflagF (id : Nat) (f : Frame) : Frame := { f with exprs := f.exprs.map fun sx => (sx.1, unflag id sx.2) }

def unflagD (id : Nat) : Disp → Disp
  | .ok f => .ok (unflagF id f)
  | .okOut f o => .okOut (unflagF id f) o
  | .newFrame f c => .newFrame (unflagF id f) c
  | .err f st vals e => .err (unflagF id f) st vals e
  | .panic s => .panic s
  | .unsupported w => .unsupported w

theorem unflag_marked (e : Expr) (u : Bool) : unflag e.id (withUsed u e) = unflag e.id e := by
  simp [unflag]

theorem unflagF_pushE (id : Nat) (f : Frame) (st : St) (x : Expr) :
    unflagF id (f.pushE st x) = (unflagF id f).pushE st (unflag id x) := by
  simp [unflagF, Frame.pushE]

theorem unflagF_foldl (id : Nat) (items : List Expr) (g : Frame) :
    unflagF id (items.foldl (fun f x => f.pushE .N x) g) =
      (items.map (unflag id)).foldl (fun f x => f.pushE .N x) (unflagF id g) := by
  induction items generalizing g with
  | nil => rfl
  | cons x xs ih => simp only [List.foldl, List.map]; rw [ih, unflagF_pushE]

/-- What the completing step of the marked node does, compared with the unmarked node. -/
def ExtraPush (d d' : Disp) : Prop :=
  match d with
  | .ok f1 => ∃ v, d' = .ok (f1.pushV v)
  | .err f1 st vals er => d' = .err f1 st vals er
  | .panic s => d' = .panic s
  | .unsupported w => d' = .unsupported w
  | .okOut _ _ => True
  | .newFrame _ _ => True

theorem simple_completion (p : Program) (f : Frame) (st : St) (e : Expr)
    (hs : Simple e = true) (hu : e.used = false) (hd : doneSub st e = true) :
    ExtraPush (dispatch p f st e) (dispatch p f st (withUsed true e)) := by
  cases e <;> simp [Simple] at hs <;> simp [Expr.used] at hu <;> subst hu
  case int => simp [dispatch, withUsed, ExtraPush, Frame.pushVIf, Expr.used]; exact ⟨_, rfl⟩
  case str => simp [dispatch, withUsed, ExtraPush, Frame.pushVIf, Expr.used]; exact ⟨_, rfl⟩
  case var =>
    simp only [dispatch, withUsed, Expr.used]
    split <;> simp [ExtraPush, Frame.pushVIf] <;> exact ⟨_, rfl⟩
  case lambda => simp [dispatch, withUsed, ExtraPush, Frame.pushVIf, Expr.used]; exact ⟨_, rfl⟩
  case binop =>
    have : st = .E := by cases st <;> simp [doneSub] at hd <;> rfl
    subst this
    simp only [dispatch, withUsed, Expr.used]
    repeat' split
    all_goals (simp [ExtraPush, Frame.pushVIf] at *)
    all_goals (first | exact ⟨_, rfl⟩ | skip)
  case letE =>
    have : st = .E := by cases st <;> simp [doneSub] at hd <;> rfl
    subst this
    simp only [dispatch, withUsed, Expr.used]
    repeat' split
    all_goals (simp [ExtraPush, Frame.pushVIf] at *)
    all_goals (first | exact ⟨_, rfl⟩ | skip)
  case assign =>
    have : st = .E := by cases st <;> simp [doneSub] at hd <;> rfl
    subst this
    simp only [dispatch, withUsed, Expr.used]
    repeat' split
    all_goals (simp [ExtraPush, Frame.pushVIf] at *)
    all_goals (first | exact ⟨_, rfl⟩ | skip)
  case update =>
    have : st = .E := by cases st <;> simp [doneSub] at hd <;> rfl
    subst this
    simp only [dispatch, withUsed, Expr.used]
    repeat' split
    all_goals (simp [ExtraPush, Frame.pushVIf] at *)
    all_goals (first | exact ⟨_, rfl⟩ | skip)
  case list =>
    have : st = .E := by cases st <;> simp [doneSub] at hd <;> rfl
    subst this
    simp only [dispatch, withUsed, Expr.used]
    repeat' split
    all_goals (simp [ExtraPush, Frame.pushVIf] at *)
    all_goals (first | exact ⟨_, rfl⟩ | skip)
  case tuple =>
    have : st = .E := by cases st <;> simp [doneSub] at hd <;> rfl
    subst this
    simp only [dispatch, withUsed, Expr.used]
    repeat' split
    all_goals (simp [ExtraPush, Frame.pushVIf] at *)
    all_goals (first | exact ⟨_, rfl⟩ | skip)

theorem simple_noncompleting (p : Program) (f : Frame) (st : St) (e : Expr)
    (hs : Simple e = true) (hd : doneSub st e = false) :
    unflagD e.id (dispatch p f st (withUsed true e)) = unflagD e.id (dispatch p f st e) := by
  have hne : (st != St.E) = true := by cases st <;> simp [doneSub] at hd ⊢
  cases e <;> simp [Simple] at hs
  case int => simp [doneSub] at hd
  case str => simp [doneSub] at hd
  case var => simp [doneSub] at hd
  case lambda => simp [doneSub] at hd
  case binop id u op l r =>
    simp only [dispatch, withUsed, hne, if_true, unflagD, unflagF_pushE, Expr.id]
    have := unflag_marked (.binop id u op l r) true
    simp only [withUsed, Expr.id] at this
    rw [this]
  case letE id u d x =>
    simp only [dispatch, withUsed, hne, if_true, unflagD, unflagF_pushE, Expr.id]
    have := unflag_marked (.letE id u d x) true
    simp only [withUsed, Expr.id] at this
    rw [this]
  case assign id u n x =>
    simp only [dispatch, withUsed, hne, if_true, unflagD, unflagF_pushE, Expr.id]
    have := unflag_marked (.assign id u n x) true
    simp only [withUsed, Expr.id] at this
    rw [this]
  case update id u a n x =>
    simp only [dispatch, withUsed, hne, if_true, unflagD, unflagF_pushE, Expr.id]
    have := unflag_marked (.update id u a n x) true
    simp only [withUsed, Expr.id] at this
    rw [this]
  case list id u items =>
    simp only [dispatch, withUsed, hne, if_true, unflagD, unflagF_foldl, unflagF_pushE, Expr.id]
    have := unflag_marked (.list id u items) true
    simp only [withUsed, Expr.id] at this
    rw [this]
  case tuple id u items =>
    simp only [dispatch, withUsed, hne, if_true, unflagD, unflagF_foldl, unflagF_pushE, Expr.id]
    have := unflag_marked (.tuple id u items) true
    simp only [withUsed, Expr.id] at this
    rw [this]

theorem doneSub_withUsed (u : Bool) (st : St) (e : Expr) : doneSub st (withUsed u e) = doneSub st e := by
  cases e <;> rfl

theorem marked_stop_reports (s : State) (f : Frame) (callers : List Frame) (st : St) (e : Expr)
    (rest : List (St × Expr)) (f1 : Frame)
    (hfr : s.frames = f :: callers) (hex : f.exprs = (st, withUsed true e) :: rest)
    (hq : (s.interrupted || s.interruptAt.contains (s.ticks + 1)) = false)
    (hl : limitReached s.tickLimit (s.ticks + 1) = false)
    (hsl : limitExceeded s.stackLimit s.frames.length = false)
    (hstop : s.stopAt = some e.id)
    (hs : Simple e = true) (hu : e.used = false) (hd : doneSub st e = true)
    (hplain : dispatch s.prog { f with exprs := rest } st e = .ok f1) :
    ∃ v, dispatch s.prog { f with exprs := rest } st (withUsed true e) = .ok (f1.pushV v) ∧
      fires dispatch s = some v := by
  have hc := simple_completion s.prog { f with exprs := rest } st e hs hu hd
  rw [hplain] at hc
  obtain ⟨v, hv⟩ := hc
  refine ⟨v, hv, ?_⟩
  unfold fires
  simp only [hfr, hex, hq, hl, Bool.false_eq_true, if_false]
  rw [hfr] at hsl
  simp only [hsl, Bool.false_eq_true, if_false, hstop, withUsed_id, beq_self_eq_true, if_true, hv]
  simp [report, doneSub_withUsed, hd, Frame.pushV]

end EvalUpTo
