import GardenVerif.Driver.Validators
import GardenVerif.Model.Fixes
/-! Driver ops of the program-level `check --fix` schema relations (C22, Model/Fixes.lean).

* `litfix_check <K> <id,id,…|-> <astx orig> <astx fixed>`: `unusedLiteralCheck` (is `fixed`, up to ids / flags,
  `orig` without the selected int / string literal statements?) and `dokProg` (hypothesis of
  `unused_literal_fix_sound_partial`): `OK (litfix <check> <dok> <closurefree>)`.
* `rbfix_check <astx orig> <astx fixed>`: search an operator `op ∈ {&&, ||}`, an operand index `k < 8` and a
  node `t` of `fixed` with `repeatedBoolCheck orig fixed op k t`:
  `OK (rbfix <1 | shape-only | 0> <and|or|-> <k> <t> <closurefree>)` (`shape-only`: the trees match the
  shape `x op d ↦ x` but `x` is not a call-free pure chain, so `repeated_bool_fix_sound_partial` does not apply).
-/

namespace DriverFixes
open Machine (Expr Case Dest Program FunDef BinOp)
open Validators Extract Fixes DriverValidators

mutual
partial def idsE (e : Expr) : List Nat :=
  e.id :: (match e with
  | .binop _ _ _ l r => idsE l ++ idsE r
  | .letE _ _ _ x => idsE x
  | .assign _ _ _ x => idsE x
  | .update _ _ _ _ x => idsE x
  | .ifE _ _ c th el => idsE c ++ idsL th ++ (match el with | some b => idsL b | none => [])
  | .whileE _ _ c b => idsE c ++ idsL b
  | .forE _ _ _ x b => idsE x ++ idsL b
  | .matchE _ _ x cs => idsE x ++ cs.flatMap fun | .mk _ _ b => idsL b
  | .ret _ _ (some x) => idsE x
  | .list _ _ es => idsL es
  | .tuple _ _ es => idsL es
  | .call _ _ r as => idsE r ++ idsL as
  | .lambda _ _ _ b => idsL b
  | .paren _ _ x => idsE x
  | _ => [])
partial def idsL (es : List Expr) : List Nat := es.flatMap idsE
end

def idsProg (p : Program) : List Nat := (p.funs.flatMap fun d => idsL d.body) ++ idsL p.toplevel

def handleLitfix (rest : String) : String :=
  match rest.splitOn " " with
  | ks :: ids :: sexpParts =>
    match ks.toNat?, Sexp.parseAll (" ".intercalate sexpParts) with
    | some K, some [sa, sb] =>
      if parseErrs sa != 0 || parseErrs sb != 0 then "OK (litfix parse-error)" else
      match parseProg sa, parseProg sb with
      | some pa, some pb =>
        let sel : List Nat := if ids == "-" then [] else (ids.splitOn ",").filterMap (·.toNat?)
        let f : Nat → Bool := fun i => sel.contains i
        s!"OK (litfix {b01 (unusedLiteralCheck pa.prog pb.prog f)} {b01 (dokProg f K pa.prog)} {b01 (!progHasLambda pa.prog)})"
      | _, _ => "ERR bad-astx"
    | _, _ => "ERR bad-args"
  | _ => "ERR args"

/-- The shape of the fix without the purity side condition (driver only: tells "shape matches but the chain
is not call-free pure, so the theorem does not apply" from "not this shape at all"). -/
def rbCfgRelaxed (op : BinOp) (k t : Nat) : WCfg :=
  { rbCfg op k t with wrap := fun x => match (operands op x)[k]? with
      | some d => .binop 0 false op x d
      | none => .paren 0 false x }

def handleRbfix (rest : String) : String :=
  match Sexp.parseAll rest with
  | some [sa, sb] =>
    if parseErrs sa != 0 || parseErrs sb != 0 then "OK (rbfix parse-error)" else
    match parseProg sa, parseProg sb with
    | some pa, some pb =>
      let cf := b01 (!progHasLambda pa.prog)
      let cands : List (BinOp × String) := [(.and, "and"), (.or, "or")]
      let found := cands.findSome? fun (op, name) =>
        (List.range 8).findSome? fun k =>
          (idsProg pb.prog).findSome? fun t =>
            if repeatedBoolCheck pa.prog pb.prog op k t then some (name, k, t) else none
      match found with
      | some (name, k, t) => s!"OK (rbfix 1 {name} {k} {t} {cf})"
      | none =>
        let relaxed := cands.findSome? fun (op, name) =>
          (List.range 8).findSome? fun k =>
            (idsProg pb.prog).findSome? fun t =>
              if progEq (WP stripCfg pa.prog) (WP (rbCfgRelaxed op k t) pb.prog) && hitsProg t pb.prog == 1
              then some (name, k, t) else none
        match relaxed with
        | some (name, k, t) => s!"OK (rbfix shape-only {name} {k} {t} {cf})"
        | none => s!"OK (rbfix 0 - 0 0 {cf})"
    | _, _ => "ERR bad-astx"
  | _ => "ERR bad-sexp"

def handle (op : String) (rest : String) : Option String :=
  if op == "litfix_check" then some (handleLitfix rest)
  else if op == "rbfix_check" then some (handleRbfix rest)
  else none

end DriverFixes
