import GardenVerif.Driver.Sexp
import GardenVerif.Model.Prelude
/-!
Driver op for M12/C32: `prelude <fname> <arg>…` evaluates the TRANSCRIPTION of a prelude function.

Arguments (S-expressions): `(s HEX)` / `(s)` a string (hex of its UTF-8), `(i N)` an integer,
`(li N…)` a list of integers, `(ls (s HEX)…)` a list of strings, `(f NAME)` one of the fixed
closures below. Response: `OK HEX` where HEX encodes the value rendered exactly like Garden's
`string_repr`, `EXN kind` for a Garden exception, `FUEL` if the (generous) fuel ran out.
-/

namespace DriverPrelude
open Prelude

inductive V where
  | int (i : Int)
  | str (s : Str)
  | bool (b : Bool)
  | list (l : List V)
  | tuple (l : List V)
  | some (v : V)
  | none
  deriving Inhabited

partial def V.beq : V → V → Bool
  | .int a, .int b => a == b
  | .str a, .str b => a == b
  | .bool a, .bool b => a == b
  | .list a, .list b => a.length == b.length && (a.zip b).all fun (x, y) => V.beq x y
  | .tuple a, .tuple b => a.length == b.length && (a.zip b).all fun (x, y) => V.beq x y
  | .some a, .some b => V.beq a b
  | .none, .none => true
  | _, _ => false

instance : BEq V := ⟨V.beq⟩

/-- `escape_string_literal` of src/values.rs. -/
def escapeStr (s : Str) : String :=
  "\"" ++ String.ofList (s.flatMap fun c =>
    if c = '"' then ['\\', '"'] else if c = '\n' then ['\\', 'n'] else if c = '\\' then ['\\', '\\'] else [c]) ++ "\""

/-- `Value::display` of src/values.rs for the value shapes that occur here. -/
partial def render : V → String
  | .int i => toString i
  | .str s => escapeStr s
  | .bool b => if b then "True" else "False"
  | .list l => "[" ++ ", ".intercalate (l.map render) ++ "]"
  | .tuple l => "(" ++ ", ".intercalate (l.map render) ++ (if l.length == 1 then "," else "") ++ ")"
  | .some v => "Some(" ++ render v ++ ")"
  | .none => "None"

def argStr : Sexp → Option Str
  | .list [.atom "s"] => some []
  | .list [.atom "s", .atom h] => (Hex.decode h).map String.toList
  | _ => none

def argInt : Sexp → Option Int
  | .list [.atom "i", .atom n] => n.toInt?
  | _ => none

def atomInt : Sexp → Option Int
  | .atom n => n.toInt?
  | _ => none

def argInts : Sexp → Option (List Int)
  | .list (.atom "li" :: xs) => xs.mapM atomInt
  | _ => none

def argStrs : Sexp → Option (List Str)
  | .list (.atom "ls" :: xs) => xs.mapM argStr
  | _ => none

/-- Either kind of list, as values. -/
def argList (x : Sexp) : Option (List V) :=
  match argInts x with
  | some l => some (l.map .int)
  | none => (argStrs x).map fun l => l.map .str

def argElem (x : Sexp) : Option V :=
  match argInt x with
  | some i => some (.int i)
  | none => (argStr x).map .str

/-- The fixed closures (the harness passes the same ones to the implementation). -/
def intPred : String → Option (Int → Bool)
  | "pos" => some fun x => x > 0          -- fun(x: Int) { x > 0 }
  | "ne2" => some fun x => x != 2         -- fun(x: Int) { x != 2 }
  | "all" => some fun _ => true           -- fun(_: Int) { True }
  | "nil" => some fun _ => false          -- fun(_: Int) { False }
  | "le1" => some fun x => x ≤ 1          -- fun(x: Int) { x <= 1 }
  | _ => none

def resV {α : Type} (f : α → V) : Res α → String
  | .ok v => "OK " ++ Hex.encode (render (f v))
  | .exn k => "EXN " ++ k
  | .outOfFuel => "FUEL"

def okV (v : V) : String := "OK " ++ Hex.encode (render v)

def vStr (s : Str) : V := .str s
def vStrs (l : List Str) : V := .list (l.map .str)
def vInts (l : List Int) : V := .list (l.map .int)
def vOpt {α : Type} (f : α → V) : Option α → V
  | some x => .some (f x)
  | none => .none

def fuelFor (n : Nat) : Nat := 4 * n + 16

def run (fname : String) (args : List Sexp) : String :=
  match fname, args with
  | "split", [a, b] =>
    match argStr a, argStr b with
    | some s, some n => resV vStrs (split (fuelFor s.length) s n)
    | _, _ => "ERR args"
  | "split_once", [a, b] =>
    match argStr a, argStr b with
    | some s, some n => resV (vOpt fun (p : Str × Str) => .tuple [.str p.1, .str p.2]) (splitOnce s n)
    | _, _ => "ERR args"
  | "join", [a, b] =>
    match argStr a, argStrs b with
    | some s, some l => okV (.str (join s l))
    | _, _ => "ERR args"
  | "replace", [a, b, c] =>
    match argStr a, argStr b, argStr c with
    | some s, some x, some y => resV vStr (replace (fuelFor s.length) s x y)
    | _, _, _ => "ERR args"
  | "contains", [a, b] =>
    match argStr a, argStr b with
    | some s, some n => resV .bool (contains (fuelFor s.length) s n)
    | _, _ => "ERR args"
  | "starts_with", [a, b] =>
    match argStr a, argStr b with
    | some s, some n => okV (.bool (startsWith s n))
    | _, _ => "ERR args"
  | "ends_with", [a, b] =>
    match argStr a, argStr b with
    | some s, some n => okV (.bool (endsWith s n))
    | _, _ => "ERR args"
  | "trim_left", [a] =>
    match argStr a with
    | some s => resV vStr (trimLeft (fuelFor s.length) s)
    | _ => "ERR args"
  | "trim_right", [a] =>
    match argStr a with
    | some s => resV vStr (trimRight (fuelFor s.length) s)
    | _ => "ERR args"
  | "trim", [a] =>
    match argStr a with
    | some s => resV vStr (trim (fuelFor s.length) s)
    | _ => "ERR args"
  | "strip_prefix", [a, b] =>
    match argStr a, argStr b with
    | some s, some n => resV vStr (stripPrefix s n)
    | _, _ => "ERR args"
  | "strip_suffix", [a, b] =>
    match argStr a, argStr b with
    | some s, some n => resV vStr (stripSuffix s n)
    | _, _ => "ERR args"
  | "index_of", [a, b] =>
    match argStr a, argStr b with
    | some s, some n => okV (vOpt .int (indexOf s n))
    | _, _ => "ERR args"
  | "substring", [a, b, c] =>
    match argStr a, argInt b, argInt c with
    | some s, some i, some j => resV vStr (substring s i j)
    | _, _, _ => "ERR args"
  | "chars", [a] =>
    match argStr a with
    | some s => okV (vStrs (chars s))
    | _ => "ERR args"
  | "len", [a] =>
    match argStr a with
    | some s => okV (.int (strLen s))
    | _ => "ERR args"
  | "lines", [a] =>
    match argStr a with
    | some s => okV (vStrs (lines s))
    | _ => "ERR args"
  | "slice", [a, b, c] =>
    match argList a, argInt b, argInt c with
    | some l, some i, some j => okV (.list (listSlice l i j))
    | _, _, _ => "ERR args"
  | "get", [a, b] =>
    match argList a, argInt b with
    | some l, some i => okV (vOpt id (listGet l i))
    | _, _ => "ERR args"
  | "first", [a] =>
    match argList a with
    | some l => okV (vOpt id (first l))
    | _ => "ERR args"
  | "last", [a] =>
    match argList a with
    | some l => okV (vOpt id (last l))
    | _ => "ERR args"
  | "list_len", [a] =>
    match argList a with
    | some l => okV (.int (listLen l))
    | _ => "ERR args"
  | "append", [a, b] =>
    match argList a, argElem b with
    | some l, some x => okV (.list (listAppend l x))
    | _, _ => "ERR args"
  | "list_contains", [a, b] =>
    match argList a, argElem b with
    | some l, some x => okV (.bool (listContains l x))
    | _, _ => "ERR args"
  | "list_index_of", [a, b] =>
    match argList a, argElem b with
    | some l, some x => okV (vOpt .int (listIndexOf l x))
    | _, _ => "ERR args"
  | "concat", [a, b] =>
    match argList a, argList b with
    | some l, some r => okV (.list (concat l r))
    | _, _ => "ERR args"
  | "enumerate", [a] =>
    match argList a with
    | some l => okV (.list ((enumerate l).map fun (p : Int × V) => .tuple [.int p.1, p.2]))
    | _ => "ERR args"
  | "map", [a, .list [.atom "f", .atom f]] =>
    match argInts a, f with
    | some l, "dbl1" => okV (vInts (map l fun x => x * 2 + 1))           -- fun(x: Int) { x * 2 + 1 }
    | some l, "neg" => okV (.list ((map l fun x => decide (x < 0)).map .bool))  -- fun(x: Int) { x < 0 }
    | some l, "pair" => okV (.list ((map l fun x => (x, x - 1)).map fun (p : Int × Int) => .tuple [.int p.1, .int p.2]))
    | _, _ => "ERR args"
  | "filter", [a, .list [.atom "f", .atom f]] =>
    match argInts a, intPred f with
    | some l, some p => okV (vInts (filter l p))
    | _, _ => "ERR args"
  | "range", [a, b] =>
    match argInt a, argInt b with
    | some i, some j => resV vInts (range (fuelFor (j - i).toNat) i j)
    | _, _ => "ERR args"
  | "sort_nums", [a] =>
    match argInts a with
    | some l => resV vInts (sortNums (fuelFor l.length) l)
    | _ => "ERR args"
  | "min", [a, b] =>
    match argInt a, argInt b with
    | some i, some j => okV (.int (Prelude.min i j))
    | _, _ => "ERR args"
  | "max", [a, b] =>
    match argInt a, argInt b with
    | some i, some j => okV (.int (Prelude.max i j))
    | _, _ => "ERR args"
  | _, _ => "ERR unknown-function"

def handle (op : String) (rest : String) : Option String :=
  if op != "prelude" then none else
  match Sexp.parseAll rest with
  | some (.atom fname :: args) => some (run fname args)
  | _ => some "ERR parse"

end DriverPrelude
