"""C16 — Programs that pass `check` raise no runtime type errors.

Proof: GardenVerif.Props.C16 over M8 (Model/Check.lean: the bidirectional checker for the fully
annotated monomorphic first-order core fragment) and the typed reference semantics
(Model/TypedSem.lean: runtime type errors as explicit outcomes).

Tie (C): on generated programs and their single-node mutants
  * verdict of the real `check` (hook op `check` = the CLI's pipeline: parse, load_toplevel_items,
    check_toplevel_items_in_env; accepted = no Error-severity diagnostic) vs `m8_check` on the real
    parser's tree (`astx`); a sample goes through the CLI `garden check --json`;
  * the runtime outcome class of the real evaluator (hook op `machine` = `garden run`'s
    eval_toplevel_items, with a tick limit; a sample goes through the CLI `garden run`) vs `m8_run`.
Direct oracle (model-independent, always runs): a fully annotated program (the generator only
emits annotated functions) that the real `check` accepts must not end in one of the type-error
message shapes when run.
"""
import json
import os
import re
from . import typed_gen as TG
from .common import hexs, unhex, pmap

LEAN_MODULES = ["GardenVerif.Props.C16"]

# message shapes of src/eval.rs -> coarse outcome class; True = a type error in the sense of C16
MSG_CLASSES = [
    (r"^No such variable", "unbound-var", True),
    (r"^\S+ is not currently bound", "not-bound", True),
    (r"^Expected `?Function`? ", "not-function", True),
    (r"^Expected an enum value", "not-enum", True),
    (r"^Expected an enum variant|^Patterns must be enum variants", "bad-pattern", True),
    (r"^Expected a tuple", "tuple-size", True),
    (r"^Expected `?[\w<>(), ]+`? but", "type-mismatch", True),
    (r"^Function .* requires \d+ arguments?, but got|^Closure expects|^Function .* expects \d+ argument", "arity", True),
    (r"^No cases in this `match`", "no-match", True),
    (r"^Unbound type in hint|^No such type", "unbound-type", True),
    (r"^No such method|^No such field|has no field|has no method", "no-member", True),
    (r"^Tried to divide .* by zero", "div-zero", False),
    (r"^Integer overflow on dividing", "div-overflow", False),
    (r"^Tried to calculate the remainder", "mod-zero", False),
    (r"^Cannot raise an integer to a negative power", "neg-pow", False),
    (r"^Exponent is too large", "pow-too-large", False),
    (r"^Integer overflow", "int-overflow", False),
]
TYPE_CLASSES = {c for _, c, t in MSG_CLASSES if t} | {"unsupported"}
MODEL_CLASS = {"operand-type": "type-mismatch", "arg-type": "type-mismatch", "let-type": "type-mismatch",
               "ret-type": "type-mismatch"}


def classify_msg(msg):
    for rx, cls, is_type in MSG_CLASSES:
        if re.match(rx, msg):
            return cls, is_type
    return "unclassified", True


def real_verdict(resp):
    """`check` hook response -> (n parse errors, [error messages], n warnings)"""
    if resp is None or not resp.startswith("OK"):
        return None
    perr = len(re.findall(r"\(perr ", resp))
    errs = [unhex(m) for m in re.findall(r"\(diag Error ([0-9a-f]*) ", resp)]
    warns = len(re.findall(r"\(diag Warning ", resp))
    return perr, errs, warns


def real_outcome(resp):
    """`machine` hook response -> (class, is_type_error, message)"""
    if resp is None:
        return "died", False, ""
    if resp.startswith("PANIC") or resp.startswith("DIED"):
        return "crash", False, resp[:200]
    m = re.match(r"^OK \(machine \((\w+)([^)]*)\)", resp)
    if not m:
        return "other", False, resp[:200]
    kind, rest = m.group(1), m.group(2).strip()
    if kind == "ok":
        return "ok", False, ""
    if kind == "exception":
        msg = unhex(rest.split(" ")[1])
        cls, is_type = classify_msg(msg)
        return cls, is_type, msg
    if kind == "ticklimit":
        return "timeout", False, ""
    if kind == "stacklimit":
        return "stack-limit", False, ""
    return kind, False, rest[:100]


FOR_LINE = re.compile(r"^(\s*for \w+ in )(.*)( \{)$", re.M)


def lossy_for_iterable(ctx, src):
    """True if the program is accepted only because a `for` iterable was CHECKED against List<Any>
    (known findings any-from-checked-if / error-from-checked-list): parenthesising the iterables makes
    the real `check` report an error."""
    src2 = FOR_LINE.sub(lambda m: m.group(1) + "(" + m.group(2) + ")" + m.group(3), src)
    if src2 == src:
        return False
    rv = real_verdict(ctx.garden_batch(["check " + hexs(src2)])[0])
    return rv is not None and rv[0] == 0 and bool(rv[1])


def model_check(resp):
    """-> ('accept'|'reject'|'outside'|'parse-error'|'bad', first diag, frag)"""
    if resp is None or not resp.startswith("OK"):
        return "bad", str(resp)[:100], False
    if resp.startswith("OK (m8 outside"):
        return "outside", unhex(resp.split(" ")[3].rstrip(")")), False
    if resp.startswith("OK (m8 parse-error"):
        return "parse-error", "", False
    m = re.match(r"^OK \(m8check (accept|reject (\S+) \d+) \(frag (\d)\)\)", resp)
    if not m:
        return "bad", resp[:100], False
    return ("accept" if m.group(1) == "accept" else "reject"), m.group(2) or "", m.group(3) == "1"


def model_run(resp):
    if resp is None or not resp.startswith("OK"):
        return "bad", False
    m = re.match(r"^OK \(m8run (ok|timeout|err (\S+)(?: (\S+))?) \(frag (\d)\)\)", resp)
    if not m:
        return ("outside", False) if "(m8 outside" in resp or "(m8 parse-error" in resp else ("bad", False)
    if m.group(1) in ("ok", "timeout"):
        return m.group(1), m.group(4) == "1"
    k = m.group(2)
    if k == "operand-type" and m.group(3) == "Function":
        return "not-function", m.group(4) == "1"
    return MODEL_CLASS.get(k, k), m.group(4) == "1"


def run(ctx):
    rng = ctx.rng
    n_base = ctx.scale(700, 12000)
    per_mut = ctx.scale(35, 900)
    progs = []      # (src, mutation or None)
    feats = {}
    while len(progs) < n_base:
        src, info = TG.gen_program(rng, size=rng.choice([20, 35, 50, 70]))
        progs.append((src, None))
        for k, v in info["features"].items():
            feats[k] = feats.get(k, 0) + v
    requested = {}      # mutants actually produced per kind
    for kind in TG.MUTATIONS:
        got, tries = 0, 0
        while got < per_mut and tries < per_mut * 8:
            tries += 1
            src, info = TG.gen_program(rng, size=rng.choice([20, 35, 50]), mutation=kind)
            if info["applied"]:
                progs.append((src, kind))
                got += 1
        requested[kind] = got
    ctx.rule = ("type-directed FULLY ANNOTATED programs over Int/Bool/String/Unit/List/Option/tuples (annotated "
                "functions incl. recursion, let with/without hints, shadowing, assignment, +=, if/else, bounded "
                "while, for over lists, match on Option/Bool with `_`, early return, break/continue, calls, "
                "println/string_repr) plus single-node mutants of %d kinds (%s). Each program: real `check` "
                "(Error diagnostics), real run (tick limit 40000), m8_check, m8_run. Non-trivial = the program "
                "is a mutant, or an accepted program whose run executed at least one function call and printed "
                "or raised something." % (len(TG.MUTATIONS), ", ".join(TG.MUTATIONS)))
    # replay of the recorded finding C16/error-from-checked-list, first in every run (known_findings.json)
    progs.insert(0, ("fun f(): Int {\n  let s = 0\n  for x in [(None, 1), (Some(2), 1)] {\n    s += x\n  }\n  s\n}\n"
                     "println(string_repr(f()))\n", None))
    srcs = [s for s, _ in progs]
    chk = ctx.garden_batch(["check " + hexs(s) for s in srcs], timeout=900)
    ast = ctx.garden_batch(["astx " + hexs(s) for s in srcs], timeout=900)
    runs = ctx.garden_batch(["machine %s - 40000 - notrace" % hexs(s) for s in srcs], timeout=900)
    bodies = [a[3:] if a and a.startswith("OK ") else "(astx 1)" for a in ast]
    mchk = ctx.model_batch(["m8_check " + b for b in bodies], timeout=900)
    mrun = ctx.model_batch(["m8_run 6000 " + b for b in bodies], timeout=900)

    acc = {"base": [0, 0]}
    outcome_hist, outcome_hist_rejected = {}, {}
    verdict_dis, run_dis = [], []
    n_outside = n_frag = n_timeout = n_frag_accepted = 0
    first_diag_hist = {}
    base_rej, base_rej_samples = {}, []
    for (src, mut), c, r, mc, mr in zip(progs, chk, runs, mchk, mrun):
        rv = real_verdict(c)
        if rv is None:
            ctx.fail("C16/check-crash", "the real check crashed or did not answer: %r" % (c,), src=src)
            continue
        perr, errs, warns = rv
        if perr:
            ctx.broken.append(dict(kind="generator", what="generated program does not parse", src=src))
            continue
        accepted = not errs
        cls, is_type, msg = real_outcome(r)
        if cls in ("crash", "died", "other"):
            # evaluator crashes are C02's subject; record, do not judge here
            ctx.cov["evaluator_crash_or_other"] = ctx.cov.get("evaluator_crash_or_other", 0) + 1
        key = mut or "base"
        a = acc.setdefault(key, [0, 0])
        a[0] += 1
        a[1] += 1 if accepted else 0
        if not accepted and not mut:
            why = re.sub(r"`[^`]*`", "`…`", errs[0])[:80]
            base_rej[why] = base_rej.get(why, 0) + 1
            if len(base_rej_samples) < 3:
                base_rej_samples.append({"why": errs[0], "src": src})
        h = outcome_hist if accepted else outcome_hist_rejected
        h[cls] = h.get(cls, 0) + 1
        out_len = 0
        mo = re.search(r"\(out ([0-9a-f]*)\)", r or "")
        if mo:
            out_len = len(mo.group(1)) // 2
        ctx.case(src, bool(mut) or (accepted and (out_len > 0 or cls != "ok")))
        # ---------------- direct oracle (the property itself, on the implementation)
        if accepted and is_type:
            okey = "C16/%s:%s" % (cls, key)
            if mut == "any-from-if":
                okey = "C16/any-from-checked-if"
            elif lossy_for_iterable(ctx, src):
                # diagnosis on the real checker alone: with every `for` iterable parenthesised (so that
                # its type is inferred instead of checked against List<Any>) the program is rejected
                okey = "C16/error-from-checked-list"
            ctx.fail(okey, "check accepts a fully annotated program whose run raises a type error (%s): %s"
                     % (cls, msg[:160]), src=src, mutation=mut, runtime_message=msg,
                     replay="garden check --json f.gdn (no error diagnostics); garden run f.gdn")
        # ---------------- correspondence: verdict
        mverdict, mdiag, frag = model_check(mc)
        if mverdict in ("outside", "parse-error"):
            n_outside += 1
            continue
        if mverdict == "bad":
            ctx.disagree("m8_check", {"src": src}, mc, "accepted" if accepted else errs[:1])
            continue
        if frag:
            n_frag += 1
        if mverdict == "reject":
            first_diag_hist[mdiag] = first_diag_hist.get(mdiag, 0) + 1
        if (mverdict == "accept") != accepted:
            verdict_dis.append((src, mut, mverdict, mdiag, errs[:2]))
        if frag and accepted:
            n_frag_accepted += 1
        # ---------------- correspondence: runtime outcome class
        mcls, _ = model_run(mr)
        if frag and mverdict == "accept" and mcls in TYPE_CLASSES:
            # an executable instance of check_sound_fragment on the model itself
            ctx.broken.append(dict(kind="proof", what="model accepts a fragment program whose model run is a type error "
                                   "(contradicts check_sound_fragment: driver and proved model differ?)", src=src, outcome=mcls))
        if mcls == "timeout" or cls == "timeout":
            n_timeout += 1
        elif mcls in ("bad", "outside"):
            if mverdict == "outside" or cls in ("crash", "died", "other", "stack-limit"):
                # resource exhaustion on both sides (or a program outside the model's syntax): nothing to compare
                ctx.cov["model_run_skipped"] = ctx.cov.get("model_run_skipped", 0) + 1
            else:
                ctx.disagree("m8_run", {"src": src}, mr, cls)
        elif cls not in ("crash", "died", "other", "stack-limit") and mcls != cls:
            if not (mcls == "unsupported"):
                run_dis.append((src, mut, mcls, cls, msg[:120]))
    for src, mut, mverdict, mdiag, errs in verdict_dis[:10]:
        what = ("model rejects (%s) but the real check accepts: model too strict, or a checker unsoundness"
                if mverdict == "reject" else "model accepts but the real check rejects (%s): model too lax") % (
                    mdiag or "; ".join(errs))
        ctx.disagree("check verdict", {"src": src, "mutation": mut}, mverdict + " " + mdiag, errs or "accepted",
                     detail=what)
    for src, mut, mcls, cls, msg in run_dis[:10]:
        ctx.disagree("runtime outcome class", {"src": src, "mutation": mut}, mcls, cls, detail=msg)
    ctx.cov["verdict_disagreements"] = len(verdict_dis)
    ctx.cov["runtime_disagreements"] = len(run_dis)

    # ---------------- CLI sample: `garden check --json` / `garden run` agree with the hook ops
    sample_idx = sorted(rng.sample(range(len(progs)), min(ctx.scale(48, 400), len(progs))))
    d = ctx.scratch("cli")

    def cli(i):
        p = os.path.join(d, "p%d.gdn" % i)
        open(p, "w").write(progs[i][0])
        rc, so, _ = ctx.garden(["check", "--json", p], timeout=120)
        n_err = sum(1 for l in so.split("\n") if l.strip() and json.loads(l).get("severity") == "error")
        rc2, so2, se2 = ctx.garden(["run", p], timeout=120)
        m = re.search(r"^(?:Exception|Error): (.*)$", so2 + "\n" + se2, re.M)
        return i, rc, n_err, rc2, (m.group(1) if m else None)
    cli_dis = 0
    for i, rc, n_err, rc2, msg in pmap(cli, sample_idx, workers=8):
        rv = real_verdict(chk[i])
        cls, _, _ = real_outcome(runs[i])
        if rv is None or rc2 == -9999 or cls == "timeout":
            continue
        if (n_err == 0) != (not rv[1]):
            cli_dis += 1
            ctx.disagree("hook check vs CLI check", {"src": progs[i][0]}, rv[1][:1], "cli errors=%d rc=%d" % (n_err, rc))
        cli_cls = classify_msg(msg)[0] if msg else "ok"
        if cli_cls != cls and cls not in ("crash", "died", "other"):
            cli_dis += 1
            ctx.disagree("hook machine vs CLI run", {"src": progs[i][0]}, cls, cli_cls + " / " + str(msg)[:100])
    ctx.cov["cli_sample"] = dict(programs=len(sample_idx), disagreements=cli_dis)

    ctx.cov["acceptance_rate"] = {k: dict(generated=v[0], accepted=v[1],
                                          rate=round(v[1] / v[0], 3) if v[0] else None) for k, v in sorted(acc.items())}
    mutants = [v for k, v in acc.items() if k != "base"]
    ctx.cov["mutants_total"] = sum(v[0] for v in mutants)
    ctx.cov["mutants_accepted"] = sum(v[1] for v in mutants)
    ctx.cov["runtime_outcomes_of_accepted"] = dict(sorted(outcome_hist.items()))
    ctx.cov["runtime_outcomes_of_rejected"] = dict(sorted(outcome_hist_rejected.items()))
    ctx.cov["model_first_diag_hist"] = dict(sorted(first_diag_hist.items()))
    ctx.cov["base_rejected_reasons"] = base_rej
    ctx.cov["base_rejected_samples"] = base_rej_samples
    ctx.cov["in_fragment"] = n_frag
    ctx.cov["in_fragment_and_accepted"] = n_frag_accepted
    ctx.cov["outside_model_syntax"] = n_outside
    ctx.cov["timeouts_skipped"] = n_timeout
    ctx.cov["generator_features"] = dict(sorted(feats.items()))
    for s, m in progs[:2] + [p for p in progs if p[1]][:3]:
        ctx.sample({"mutation": m, "src": s[:600]})
    ctx.assumptions += [
        "accepted = no Error-severity diagnostic (warnings such as unused variables make the CLI exit 1 but are "
        "not errors in the sense of the property)",
        "the real run is bounded by a tick limit of 40000 (non-termination is skipped)",
        "fragment hypotheses of check_sound_fragment (Check.fullyAnnotated): first order; `let` only as a block "
        "statement; the iterable of a `for` is a variable, a call or parenthesised (known findings "
        "C16/any-from-checked-if, C16/error-from-checked-list for bare list literals / if / match there); a `_` case "
        "binds no payload; distinct non-reserved function names; no toplevel `return`. Verdicts and outcome classes "
        "are compared for ALL generated programs the model's syntax can express, inside the fragment or not",
    ]
    ctx.log("programs=%d accepted base=%s mutants accepted=%d/%d verdict_dis=%d run_dis=%d" % (
        len(progs), acc["base"], ctx.cov["mutants_accepted"], ctx.cov["mutants_total"], len(verdict_dis), len(run_dis)))
