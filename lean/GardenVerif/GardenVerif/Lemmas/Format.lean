import GardenVerif.Model.Format
/-! Helper lemmas for C17 / C18 over Model/Format.lean. -/
namespace Fmt

/-! ### phase 9 -/
theorem popNlRev_idem (r : MText) : popNlRev (popNlRev r) = popNlRev r := by
  fun_induction popNlRev r with
  | case1 a b rest h ih => exact ih
  | case2 a b rest h => 
    rw [popNlRev]; simp [h]
  | case3 l h => 
    unfold popNlRev
    split
    · rename_i a b rest
      exact absurd rfl (h a b rest)
    · rfl

theorem popNlRev_head (r : MText) : ∀ a b rest, popNlRev r = a :: b :: rest → ¬ (isNl a && isNl b) := by
  fun_induction popNlRev r with
  | case1 a b rest h ih => exact ih
  | case2 a b rest h => 
    intro a' b' rest' heq
    cases heq
    simpa using h
  | case3 l h =>
    intro a b rest heq
    exact absurd heq (h a b rest)

theorem finalNewlineRev_idem (r : MText) : finalNewlineRev (finalNewlineRev r) = finalNewlineRev r := by
  unfold finalNewlineRev
  generalize hp : popNlRev r = p
  have hidem : popNlRev p = p := by rw [← hp, popNlRev_idem]
  have hhead := popNlRev_head r
  rw [hp] at hhead
  cases p with
  | nil => simp [popNlRev]
  | cons a rest =>
    by_cases ha : isNl a = true
    · simp [ha, hidem]
    · have ha' : isNl a = false := by simpa using ha
      have : popNlRev (NL :: a :: rest) = NL :: a :: rest := by
        rw [popNlRev]; simp [ha']
      have hnl : isNl NL = true := by simp [isNl, NL]
      simp only [ha', Bool.false_eq_true, ↓reduceIte, this, hnl]


/-! ### views of segmentations -/

theorem commentsSame_refl (l : List VComment) : commentsSame l l = true := by
  induction l with
  | nil => simp [commentsSame]
  | cons a as ih => simp [commentsSame, ih]

theorem toksSame_refl (l : List VTok) : ∀ hist, toksSame hist l l = true := by
  induction l with
  | nil => intro hist; simp [toksSame]
  | cons a as ih =>
    intro hist
    simp only [toksSame, ih, commentsSame_refl, beq_self_eq_true, Bool.and_true, Bool.true_and]
    rw [Bool.and_eq_true]
    constructor
    · cases touchRule hist a.text <;> cases a.touchesPrev <;> rfl
    · cases hist <;> simp

theorem sameTokens_refl (v : View) : sameTokens v v = true := by
  simp [sameTokens, toksSame_refl, commentsSame_refl]

theorem viewGo_congr (ps : List Piece) : ∀ (qs : List Piece) (st : VState),
    piecesLegal ps qs = true → viewGo st ps = viewGo st qs := by
  induction ps with
  | nil =>
    intro qs st h
    cases qs with
    | nil => rfl
    | cons q qs => simp [piecesLegal] at h
  | cons p ps ih =>
    intro qs st h
    cases qs with
    | nil => simp [piecesLegal] at h
    | cons q qs =>
      simp only [piecesLegal, Bool.and_eq_true, beq_iff_eq] at h
      obtain ⟨⟨⟨⟨⟨hk, ht⟩, _⟩, hn⟩, he⟩, hrest⟩ := h
      unfold viewGo
      simp only [hk, ht, hn, he]
      cases q.kind with
      | comment => simp only; exact ih qs _ hrest
      | tok => simp only; rw [ih qs _ hrest]

theorem view_eq_of_legal (a b : Segd) (h : legalGapRewrite a b = true) : a.view = b.view := by
  simp only [legalGapRewrite, Bool.and_eq_true] at h
  simp only [Segd.view, viewGo_congr a.pieces b.pieces _ h.1]

/-! ### span edits keep the token content -/

theorem content_append (a b : MText) : content (a ++ b) = content a ++ content b := by
  simp [content]

theorem content_unmarked (l : MText) (h : l.all (fun x => !marked x) = true) : content l = [] := by
  simp only [content, List.filter_eq_nil_iff]
  intro x hx
  have := List.all_eq_true.mp h x hx
  simpa using this

theorem content_spaces (k : Nat) : content (spaces k) = [] := by
  apply content_unmarked
  simp [spaces, List.all_replicate, marked, SP]

theorem split3 (t : MText) (s e : Nat) (h1 : s ≤ e) :
    t = t.take s ++ ((t.drop s).take (e - s) ++ t.drop e) := by
  have h : (t.drop s).drop (e - s) = t.drop e := by
    rw [List.drop_drop]; congr 1; omega
  rw [← h, List.take_append_drop, List.take_append_drop]

theorem replaceRange_content (t : MText) (e : SpanEdit) (h1 : e.start ≤ e.stop) (h2 : e.stop ≤ t.length)
    (hu : ((t.drop e.start).take (e.stop - e.start)).all (fun x => !marked x) = true)
    (hr : e.repl.all (fun x => !marked x) = true) :
    replaceRange t e = .ok (t.take e.start ++ e.repl ++ t.drop e.stop) ∧
    content (t.take e.start ++ e.repl ++ t.drop e.stop) = content t := by
  constructor
  · have a : ¬ e.start > e.stop := by omega
    have b : ¬ e.stop > t.length := by omega
    simp [replaceRange, a, b]
  · conv => rhs; rw [split3 t e.start e.stop h1]
    simp [content_append, content_unmarked _ hu, content_unmarked _ hr]

theorem applySorted_content (t : MText) : ∀ (es : List SpanEdit) (cur : MText) (bound : Nat),
    spansInGaps t bound es = true → bound ≤ cur.length → cur.take bound = t.take bound →
    ∃ r, applySorted cur es = .ok r ∧ content r = content cur := by
  intro es
  induction es with
  | nil => intro cur bound _ _ _; exact ⟨cur, rfl, rfl⟩
  | cons e es ih =>
    intro cur bound h hb hp
    simp only [spansInGaps, Bool.and_eq_true, decide_eq_true_eq] at h
    obtain ⟨⟨⟨⟨h1, h2⟩, hu⟩, hr⟩, hrest⟩ := h
    have hrange : (cur.drop e.start).take (e.stop - e.start) = (t.drop e.start).take (e.stop - e.start) := by
      rw [List.take_drop, List.take_drop]
      have hk : e.start + (e.stop - e.start) = e.stop := by omega
      rw [hk]
      have : cur.take e.stop = t.take e.stop := by
        have := congrArg (List.take e.stop) hp
        simpa [List.take_take, Nat.min_eq_left h2] using this
      rw [this]
    obtain ⟨hok, hc⟩ := replaceRange_content cur e h1 (by omega) (by rw [hrange]; exact hu) hr
    have hlen : e.start ≤ (cur.take e.start ++ e.repl ++ cur.drop e.stop).length := by
      simp; omega
    have hpre : (cur.take e.start ++ e.repl ++ cur.drop e.stop).take e.start = t.take e.start := by
      have hl : (cur.take e.start).length = e.start := by simp; omega
      rw [List.append_assoc, List.take_left' hl]
      have := congrArg (List.take e.start) hp
      simpa [List.take_take, Nat.min_eq_left (Nat.le_trans h1 h2)] using this
    obtain ⟨r, hr1, hr2⟩ := ih _ e.start hrest hlen hpre
    refine ⟨r, ?_, by rw [hr2, hc]⟩
    simp only [applySorted, hok]
    exact hr1


/-! ### indentation edits keep the token content -/
theorem content_single_unmarked (c : MByte) (h : (!marked c) = true) : content [c] = [] := by
  apply content_unmarked; simp [h]

theorem content_NL : content [NL] = [] := by decide


theorem rawLines_flatten (t : MText) : (rawLines t).flatMap Line.flat = t := by
  induction t with
  | nil => simp [rawLines]
  | cons c cs ih =>
    unfold rawLines
    split
    · rename_i hc
      simp [Line.flat, ih]
    · rename_i hc
      split
      · rename_i h0
        rw [h0] at ih
        simp at ih
        simp [Line.flat, ← ih]
      · rename_i l rest h0
        rw [h0] at ih
        simp only [List.flatMap_cons] at ih ⊢
        simp only [Line.flat] at ih ⊢
        rw [← ih]
        simp


theorem takeWhile_unmarked_content (t : MText) (h : (t.takeWhile isWs).all (fun x => !marked x) = true) :
    content (t.dropWhile isWs) = content t := by
  conv => rhs; rw [← List.takeWhile_append_dropWhile (p := isWs) (l := t)]
  rw [content_append, content_unmarked _ h]; simp

theorem termOK_content (l : Line) (h : (match l.term with | some c => !marked c | none => true) = true) :
    content l.term.toList = [] := by
  cases ht : l.term with
  | none => simp [content]
  | some c => rw [ht] at h; simpa [content] using h

theorem sep_content (l : Line) (n i : Nat)
    (h : (decide (i + 1 < n) || (match l.term with | some c => !marked c | none => true)) = true) :
    content (if i + 1 < n then [l.term.getD NL] else []) = content l.term.toList := by
  by_cases hk : i + 1 < n
  · simp only [hk, if_true]
    cases ht : l.term with
    | none => simp [content, marked, NL]
    | some c => simp
  · simp only [hk, if_false]
    simp only [hk, decide_false, Bool.false_or] at h
    rw [termOK_content l h]; simp [content]

theorem outLine_content (edits : List (Nat × Nat)) (n i : Nat) (l : Line)
    (h : lineOK edits n i l = true) : content (outLine edits n i l) = content l.flat := by
  unfold lineOK at h
  unfold outLine
  simp only [Line.flat, content_append]
  cases he : lookupEdit edits i with
  | none =>
    simp only [he, Bool.and_eq_true, beq_iff_eq] at h
    simp only [content_append, h.1, sep_content l n i h.2]
  | some k =>
    simp only [he, Bool.and_eq_true, beq_iff_eq] at h
    obtain ⟨⟨hws, hcr⟩, hterm⟩ := h
    have hc := takeWhile_unmarked_content l.text hws
    by_cases hemp : (l.text.dropWhile isWs).isEmpty = true
    · simp only [hemp, if_true] at hterm ⊢
      have : l.text.dropWhile isWs = [] := by simpa using hemp
      rw [this] at hc
      rw [content_NL, ← hcr, ← hc, termOK_content l hterm]
      simp [content]
    · simp only [hemp, if_false] at hterm ⊢
      simp only [Bool.false_eq_true, if_false] at hterm ⊢
      rw [content_append, content_append, content_spaces, hc, hcr, sep_content l n i hterm]
      simp

theorem indentGo_content (edits : List (Nat × Nat)) (n : Nat) (ls : List Line) : ∀ i,
    linesOK edits n i ls = true → content (indentGo edits n i ls) = content (ls.flatMap Line.flat) := by
  induction ls with
  | nil => intro i _; simp [indentGo]
  | cons l ls ih =>
    intro i h
    simp only [linesOK, Bool.and_eq_true] at h
    simp only [indentGo, List.flatMap_cons, content_append, outLine_content edits n i l h.1, ih (i + 1) h.2]


end Fmt
