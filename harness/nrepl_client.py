"""bencode codec, TCP client and server launcher for the garden nREPL server (C30, C31).

Every server process runs under `timeout` and an address-space limit, listens on a port chosen by
the OS (`--port 0`) and is killed by `Server.stop()`.  A `Client` records, for one connection,
the exact sequence of server messages and, for each client message, how many server messages had
been *received* before it was sent (`seen`): the real-time constraint the model replay uses
(a message received before the client sent c was appended to the response queue before the
reader handled c).
"""
import os
import re
import resource
import shutil
import socket
import subprocess
import threading
import time


# --------------------------------------------------------------------------- bencode
def bencode(v):
    if isinstance(v, int):
        return b"i%de" % v
    if isinstance(v, str):
        v = v.encode("utf-8")
    if isinstance(v, bytes):
        return b"%d:%s" % (len(v), v)
    if isinstance(v, (list, tuple)):
        return b"l" + b"".join(bencode(x) for x in v) + b"e"
    if isinstance(v, dict):
        items = sorted(((k.encode("utf-8") if isinstance(k, str) else k), x) for k, x in v.items())
        return b"d" + b"".join(bencode(k) + bencode(x) for k, x in items) + b"e"
    raise TypeError(type(v))


class Incomplete(Exception):
    pass


def _dec(b, i):
    if i >= len(b):
        raise Incomplete()
    c = b[i:i + 1]
    if c == b"i":
        j = b.find(b"e", i)
        if j < 0:
            raise Incomplete()
        return int(b[i + 1:j]), j + 1
    if c == b"l":
        i += 1
        out = []
        while True:
            if i >= len(b):
                raise Incomplete()
            if b[i:i + 1] == b"e":
                return out, i + 1
            x, i = _dec(b, i)
            out.append(x)
    if c == b"d":
        i += 1
        out = {}
        while True:
            if i >= len(b):
                raise Incomplete()
            if b[i:i + 1] == b"e":
                return out, i + 1
            k, i = _dec(b, i)
            x, i = _dec(b, i)
            out[k.decode("utf-8", "replace") if isinstance(k, bytes) else k] = x
    if c.isdigit():
        j = b.find(b":", i)
        if j < 0:
            if len(b) - i > 20:
                raise ValueError("bad bencode length")
            raise Incomplete()
        n = int(b[i:j])
        if j + 1 + n > len(b):
            raise Incomplete()
        return b[j + 1:j + 1 + n], j + 1 + n
    raise ValueError("bad bencode byte %r at %d" % (c, i))


def bdecode_prefix(b):
    """Decode one value from the front of b; returns (value, rest) or raises Incomplete."""
    v, i = _dec(b, 0)
    return v, b[i:]


def textify(v):
    """bytes -> str recursively (utf-8, replacement on error)."""
    if isinstance(v, bytes):
        return v.decode("utf-8", "replace")
    if isinstance(v, list):
        return [textify(x) for x in v]
    if isinstance(v, dict):
        return {k: textify(x) for k, x in v.items()}
    return v


# --------------------------------------------------------------------------- server
class Server:
    def __init__(self, garden, scratch_dir, delays=None, life_s=120, mem_gb=3):
        self.garden = garden
        self.dir = scratch_dir
        self.delays = dict(delays or {})
        self.life_s = life_s
        self.mem_gb = mem_gb
        self.p = None
        self.port = None
        self.stderr_tail = []

    def start(self, wait_s=20):
        os.makedirs(self.dir, exist_ok=True)
        env = dict(os.environ)
        env["GARDEN_LOG"] = "info"
        env["NO_COLOR"] = "1"
        env.pop("GARDEN_VERIF_DELAY", None)
        if self.delays:
            env["GARDEN_VERIF_DELAY"] = ",".join("%s:%d" % kv for kv in sorted(self.delays.items()))
        lim = int(self.mem_gb * (1 << 30))

        def pre():
            resource.setrlimit(resource.RLIMIT_AS, (lim, lim))
            resource.setrlimit(resource.RLIMIT_CORE, (0, 0))
            os.setsid()

        self.p = subprocess.Popen(
            ["timeout", "-k", "2", str(self.life_s), self.garden, "nrepl", "--port", "0",
             "--host", "127.0.0.1"],
            cwd=self.dir, env=env, stdin=subprocess.DEVNULL, stdout=subprocess.DEVNULL,
            stderr=subprocess.PIPE, preexec_fn=pre)
        found = threading.Event()

        def pump():
            for raw in self.p.stderr:
                line = re.sub(r"\x1b\[[0-9;]*m", "", raw.decode("utf-8", "replace"))
                self.stderr_tail.append(line.rstrip())
                del self.stderr_tail[:-50]
                m = re.search(r"nREPL server started on 127\.0\.0\.1:(\d+)", line)
                if m and self.port is None:
                    self.port = int(m.group(1))
                    found.set()

        threading.Thread(target=pump, daemon=True).start()
        t0 = time.time()
        while time.time() - t0 < wait_s and not found.is_set():
            if self.p.poll() is not None:
                break
            pf = os.path.join(self.dir, ".nrepl-port")
            try:
                txt = open(pf).read().strip()
                if txt.isdigit():
                    self.port = int(txt)
                    found.set()
                    break
            except OSError:
                pass
            found.wait(0.02)
        if self.port is None:
            self.stop()
            raise RuntimeError("nrepl server did not report a port: " + " | ".join(self.stderr_tail[-5:]))
        return self

    def panicked(self):
        return any("panicked" in l for l in self.stderr_tail)

    def stop(self):
        if self.p is not None:
            try:
                os.killpg(self.p.pid, 9)
            except (ProcessLookupError, PermissionError):
                pass
            try:
                self.p.kill()
            except Exception:
                pass
            try:
                self.p.wait(timeout=5)
            except Exception:
                pass
            self.p = None
        shutil.rmtree(self.dir, ignore_errors=True)

    def __enter__(self):
        return self.start()

    def __exit__(self, *a):
        self.stop()


# --------------------------------------------------------------------------- client
class Client:
    def __init__(self, port, connect_timeout=5):
        self.sock = socket.create_connection(("127.0.0.1", port), timeout=connect_timeout)
        self.sock.settimeout(None)
        self.sock.setsockopt(socket.IPPROTO_TCP, socket.TCP_NODELAY, 1)
        self.cv = threading.Condition()
        self.received = []      # textified server messages, in wire order
        self.recv_t = []
        self.sent = []          # (msg, seen) in send order
        self.eof = False
        self.error = None
        self.t = threading.Thread(target=self._reader, daemon=True)
        self.t.start()

    def _reader(self):
        buf = b""
        try:
            while True:
                data = self.sock.recv(65536)
                if not data:
                    break
                buf += data
                while buf:
                    try:
                        v, buf = bdecode_prefix(buf)
                    except Incomplete:
                        break
                    with self.cv:
                        self.received.append(textify(v))
                        self.recv_t.append(time.time())
                        self.cv.notify_all()
        except (OSError, ValueError) as e:
            self.error = repr(e)
        with self.cv:
            self.eof = True
            self.cv.notify_all()

    def send(self, msg):
        with self.cv:
            seen = len(self.received)
            self.sent.append((msg, seen))
        self.sock.sendall(bencode(msg))

    def wait(self, pred, timeout):
        """Wait until some received message satisfies pred; returns it or None on timeout."""
        end = time.time() + timeout
        with self.cv:
            i = 0
            while True:
                while i < len(self.received):
                    if pred(self.received[i]):
                        return self.received[i]
                    i += 1
                left = end - time.time()
                if left <= 0 or self.eof:
                    return None
                self.cv.wait(left)

    def wait_done(self, rid, timeout):
        return self.wait(lambda m: m.get("id") == rid and "done" in (m.get("status") or []), timeout)

    def wait_key(self, rid, key, timeout):
        return self.wait(lambda m: m.get("id") == rid and key in m, timeout)

    def close(self):
        try:
            self.sock.shutdown(socket.SHUT_RDWR)
        except OSError:
            pass
        self.sock.close()


def run_script(port, steps):
    """steps: list of
         ("send", msgdict) | ("wait_done", id, timeout_s) | ("wait_key", id, key, timeout_s)
         | ("sleep", seconds)
    Returns dict(sent=[(msg, seen)], received=[msg], timeouts=[step...], t=[recv times], error)."""
    c = Client(port)
    timeouts = []
    t0 = time.time()
    try:
        for st in steps:
            if st[0] == "send":
                c.send(st[1])
            elif st[0] == "wait_done":
                if c.wait_done(st[1], st[2]) is None:
                    timeouts.append(list(st))
            elif st[0] == "wait_key":
                if c.wait_key(st[1], st[2], st[3]) is None:
                    timeouts.append(list(st))
            elif st[0] == "sleep":
                time.sleep(st[1])
        # grace period: a message after the last awaited `done` would be a violation
        time.sleep(0.15)
    finally:
        with c.cv:
            out = dict(sent=list(c.sent), received=list(c.received),
                       t=[x - t0 for x in c.recv_t], timeouts=timeouts, error=c.error)
        c.close()
    return out
