import GardenVerif.Model.ValueEq
import GardenVerif.Lemmas.Types
/-!
`valueEq` decides Lean equality of `LitValue` (mutual structural induction over the nested
inductive), and what the pinned tree's `valueEqPinned` decides instead.
-/

theorem Ty.beq_iff (a b : Ty) : Ty.beq a b = true ↔ a = b :=
  ⟨Ty.eq_of_beq a b, fun h => h ▸ Ty.beq_refl a⟩

mutual
theorem valueEq_iff : ∀ (a b : LitValue), valueEq a b = true ↔ a = b
  | .int a, b => by cases b <;> simp [valueEq]
  | .float a, b => by cases b <;> simp [valueEq]
  | .str a, b => by cases b <;> simp [valueEq]
  | .list a, b => by cases b <;> simp [valueEq, listEq_iff a]
  | .tuple a, b => by cases b <;> simp [valueEq, listEq_iff a]
  | .dict a, b => by cases b <;> simp [valueEq, fieldsEq_iff a]
  | .variant t i p, b => by
      cases b <;> simp [valueEq, optEq_iff p, Ty.beq_iff, and_assoc]
  | .struct t f, b => by
      cases b <;> simp [valueEq, fieldsEq_iff f, Ty.beq_iff]
theorem listEq_iff : ∀ (a b : List LitValue), listEq a b = true ↔ a = b
  | [], b => by cases b <;> simp [listEq]
  | a :: as, b => by cases b <;> simp [listEq, valueEq_iff a, listEq_iff as]
theorem fieldsEq_iff : ∀ (a b : List (String × LitValue)), fieldsEq a b = true ↔ a = b
  | [], b => by cases b <;> simp [fieldsEq]
  | a :: as, b => by cases b <;> simp [fieldsEq, pairEq_iff a, fieldsEq_iff as]
theorem pairEq_iff : ∀ (a b : String × LitValue), pairEq a b = true ↔ a = b
  | (k, v), (k2, v2) => by simp [pairEq, valueEq_iff v]
theorem optEq_iff : ∀ (a b : Option LitValue), optEq a b = true ↔ a = b
  | none, b => by cases b <;> simp [optEq]
  | some a, b => by cases b <;> simp [optEq, valueEq_iff a]
end

mutual
/-- Does a value contain a float or a dict anywhere? (Where the pinned `eq` has no arm.) -/
def LitValue.hasFloatOrDict : LitValue → Bool
  | .int _ => false
  | .float _ => true
  | .str _ => false
  | .list a => LitValue.anyFD a
  | .tuple a => LitValue.anyFD a
  | .dict _ => true
  | .variant _ _ p => LitValue.optFD p
  | .struct _ f => LitValue.fieldsFD f
def LitValue.anyFD : List LitValue → Bool
  | [] => false
  | a :: as => LitValue.hasFloatOrDict a || LitValue.anyFD as
def LitValue.fieldsFD : List (String × LitValue) → Bool
  | [] => false
  | a :: as => LitValue.pairFD a || LitValue.fieldsFD as
def LitValue.pairFD : String × LitValue → Bool
  | (_, v) => LitValue.hasFloatOrDict v
def LitValue.optFD : Option LitValue → Bool
  | none => false
  | some a => LitValue.hasFloatOrDict a
end

mutual
/-- The pinned `eq` is irreflexive exactly on values containing a float or a dict. -/
theorem valueEqPinned_self : ∀ (a : LitValue), valueEqPinned a a = !a.hasFloatOrDict
  | .int a => by simp [valueEqPinned, LitValue.hasFloatOrDict]
  | .float a => by simp [valueEqPinned, LitValue.hasFloatOrDict]
  | .str a => by simp [valueEqPinned, LitValue.hasFloatOrDict]
  | .list a => by simp [valueEqPinned, LitValue.hasFloatOrDict, listEqPinned_self a]
  | .tuple a => by simp [valueEqPinned, LitValue.hasFloatOrDict, listEqPinned_self a]
  | .dict a => by simp [valueEqPinned, LitValue.hasFloatOrDict]
  | .variant t i p => by
      simp [valueEqPinned, LitValue.hasFloatOrDict, optEqPinned_self p, Ty.beq_refl]
  | .struct t f => by
      simp [valueEqPinned, LitValue.hasFloatOrDict, fieldsEqPinned_self f, Ty.beq_refl]
theorem listEqPinned_self : ∀ (a : List LitValue), listEqPinned a a = !LitValue.anyFD a
  | [] => by simp [listEqPinned, LitValue.anyFD]
  | a :: as => by simp [listEqPinned, LitValue.anyFD, valueEqPinned_self a, listEqPinned_self as]
theorem fieldsEqPinned_self : ∀ (a : List (String × LitValue)), fieldsEqPinned a a = !LitValue.fieldsFD a
  | [] => by simp [fieldsEqPinned, LitValue.fieldsFD]
  | a :: as => by simp [fieldsEqPinned, LitValue.fieldsFD, pairEqPinned_self a, fieldsEqPinned_self as]
theorem pairEqPinned_self : ∀ (a : String × LitValue), pairEqPinned a a = !LitValue.pairFD a
  | (k, v) => by simp [pairEqPinned, LitValue.pairFD, valueEqPinned_self v]
theorem optEqPinned_self : ∀ (a : Option LitValue), optEqPinned a a = !LitValue.optFD a
  | none => by simp [optEqPinned, LitValue.optFD]
  | some a => by simp [optEqPinned, LitValue.optFD, valueEqPinned_self a]
end
