import GardenVerif.Driver.Sexp
import GardenVerif.Driver.Machine
import GardenVerif.Model.Session
/-! Driver op for M6:
`session_run <pinned|patched|s,r,a flags> <fuel> <interrupt ticks|-> <request sexprs…>`.

Requests:
  `(run <id|-> h<hex input> (astx …) <(astx …)|noargs>)`  — the raw input, the `astx` dump of the
      input parsed as source, the `astx` dump of the command arguments (for `:replace` / `:type`)
  `(malformed)`  `(interrupt)`  `(other <what>)`
Answer: `OK <line> ;; <line> …`, one canonical line per response, and a last line `END <outcome>`.
Node ids of request k are shifted by (k+1)·100000 (+50000 for the inline expression) so that ids
are unique over the session, as in the implementation (one `IdGenerator` per session). -/

namespace DriverSession
open Machine Session

mutual
partial def shiftE (k : Nat) : Expr → Expr
  | .int i u v => .int (i + k) u v
  | .str i u s => .str (i + k) u s
  | .var i u n => .var (i + k) u n
  | .binop i u op l r => .binop (i + k) u op (shiftE k l) (shiftE k r)
  | .letE i u d e => .letE (i + k) u d (shiftE k e)
  | .assign i u n e => .assign (i + k) u n (shiftE k e)
  | .update i u a n e => .update (i + k) u a n (shiftE k e)
  | .ifE i u c t e => .ifE (i + k) u (shiftE k c) (t.map (shiftE k)) (e.map (·.map (shiftE k)))
  | .whileE i u c b => .whileE (i + k) u (shiftE k c) (b.map (shiftE k))
  | .forE i u d e b => .forE (i + k) u d (shiftE k e) (b.map (shiftE k))
  | .matchE i u s cs => .matchE (i + k) u (shiftE k s) (cs.map (shiftC k))
  | .ret i u e => .ret (i + k) u (e.map (shiftE k))
  | .brk i u => .brk (i + k) u
  | .cont i u => .cont (i + k) u
  | .list i u items => .list (i + k) u (items.map (shiftE k))
  | .tuple i u items => .tuple (i + k) u (items.map (shiftE k))
  | .call i u r args => .call (i + k) u (shiftE k r) (args.map (shiftE k))
  | .lambda i u ps b => .lambda (i + k) u ps (b.map (shiftE k))
  | .paren i u e => .paren (i + k) u (shiftE k e)
  | .invalid i u => .invalid (i + k) u
  | .unsup i u w => .unsup (i + k) u w
partial def shiftC (k : Nat) : Case → Case
  | .mk v d b => .mk v d (b.map (shiftE k))
end

def itemsOf (k : Nat) (items : List Sexp) : Option (List Item) :=
  items.mapM fun it =>
    match it with
    | .list [.atom "fun", .atom name, .list (.atom "params" :: ps), rh, b] => do
      let names := ps.filterMap fun (x : Sexp) => match x with
        | .list [.atom "p", .atom n, _] => some n
        | _ => none
      let hinted := ps.any (fun (x : Sexp) => match x with
        | .list [.atom "p", _, .atom "nohint"] => false
        | _ => true) || (match rh with | .atom "nohint" => false | _ => true)
      let body ← DriverMachine.blockOf b
      if hinted then some (Item.other "function with type hints")
      else some (Item.funD { name := name, params := names, body := body.map (shiftE k) })
    | .list (.atom "enum" :: .atom name :: vs) =>
      let variants := vs.filterMap fun (x : Sexp) => match x with
        | .list [.atom "variant", .atom v, .atom p] => some (v, p == "payload")
        | _ => none
      some (Item.enumD { name := name, variants := variants })
    | .list [.atom "expr", e] => do some (Item.expr (shiftE k (← DriverMachine.exprOf e)))
    | .list [.atom "blockitem", b] => do some (Item.block ((← DriverMachine.blockOf b).map (shiftE k)))
    | .list [.atom "test", .atom name, b] => do
      some (Item.testD { name := name, body := (← DriverMachine.blockOf b).map (shiftE k) })
    | .list [.atom "unsupitem", .atom w] => some (Item.other w)
    | _ => none

/-- `(astx nerr items…)` → `none` on parse errors. -/
def parsedOf (k : Nat) : Sexp → Option (Option (List Item))
  | .list (.atom "astx" :: .atom nerr :: items) =>
    if nerr != "0" then some none else (itemsOf k items).map some
  | _ => none

/-- The inline expression of `:replace` / `:type`: the first toplevel expression of the argument
text; parse errors or no expression → `none` (the command prints its usage message). -/
def inlineOf (k : Nat) : Sexp → Option Expr
  | .list (.atom "astx" :: .atom "0" :: .list [.atom "expr", e] :: _) =>
    (DriverMachine.exprOf e).map (shiftE k)
  | _ => none

def reqOf (ix : Nat) : Sexp → Option Req
  | .list [.atom "run", .atom ids, .atom hexInput, src, args] => do
    let input ← Hex.decode (hexInput.drop 1).toString
    let base := (ix + 1) * 100000
    let items ← parsedOf base src
    some (.run ids.toNat? input items (inlineOf (base + 50000) args))
  | .list [.atom "malformed"] => some .malformed
  | .list [.atom "interrupt"] => some .interrupt
  | .list [.atom "other", .atom w] => some (.other w)
  | _ => none

def idStr : Option Nat → String
  | some n => toString n
  | none => "-"

def us (s : String) : String := s.map (fun c => if c == ' ' then '_' else c)

def respLine (printed : String) : Resp → String
  | .evalOk id v fr =>
    s!"evalok id={idStr id} value={match v with | some t => Hex.encode t | none => "-"} frame={us fr} printed={Hex.encode printed}"
  | .evalErr id e fr => s!"evalerr id={idStr id} err={us e.toString} frame={us fr} printed={Hex.encode printed}"
  | .parseErr => s!"parseerr printed={Hex.encode printed}"
  | .cmd id msg fr => s!"cmd id={idStr id} msg={us msg} frame={us fr} printed={Hex.encode printed}"
  | .malformed id => s!"malformed id={idStr id} printed={Hex.encode printed}"
  | .interrupted => s!"interrupted printed={Hex.encode printed}"

def outcomeStr : Outcome → String
  | .ok => "ok"
  | .sessionPanic s => "panic-session " ++ Hex.encode s
  | .evalPanic s => "panic-eval " ++ Hex.encode s
  | .outOfFuel => "fuel"
  | .exit => "exit"
  | .unsupported w => "unsupported " ++ Hex.encode w

def cfgOf (s : String) : Option Cfg :=
  if s == "pinned" then some Cfg.pinned
  else if s == "patched" then some Cfg.patched
  else match s.splitOn "," with
    | [a, b, c] => some ⟨a == "1", b == "1", c == "1"⟩
    | _ => none

def runAll (cfg : Cfg) (fuel : Nat) (st : Session.State) (reqs : List Req) (acc : Array String) :
    Array String × Outcome × Session.State :=
  match reqs with
  | [] => (acc, .ok, st)
  | r :: rest =>
    let h := Session.handle cfg fuel st r
    let acc := h.responses.foldl (fun a x => a.push (respLine h.printed x)) acc
    match h.outcome with
    | .ok => runAll cfg fuel h.state rest acc
    | o => (acc, o, h.state)

def stateStr (st : Session.State) : String :=
  match st.m.frames with
  | f :: _ => s!"(state {st.m.ticks} {st.m.frames.length} {f.exprs.length} {f.values.length} {f.blocks.length})"
  | [] => "(state none)"

def handle (op : String) (rest : String) : Option String :=
  if op != "session_run" then none else
  match rest.splitOn " " with
  | cfgs :: fuels :: ints :: sexpParts =>
    match cfgOf cfgs, Sexp.parseAll (" ".intercalate sexpParts) with
    | some cfg, some reqSexps =>
      let interrupts := if ints == "-" then [] else (ints.splitOn ",").filterMap (·.toNat?)
      let reqs := (List.range reqSexps.length).zip reqSexps |>.mapM (fun (i, s) => reqOf i s)
      match reqs with
      | none => some "ERR bad-request"
      | some reqs =>
        let st0 : Session.State := { Session.fresh with m := { Session.fresh.m with interruptAt := interrupts } }
        let (lines, o, st) := runAll cfg (fuels.toNat?.getD 100000) st0 reqs #[]
        some ("OK " ++ " ;; ".intercalate (lines.toList ++ [s!"END {outcomeStr o} {stateStr st}"]))
    | _, _ => some "ERR bad-args"
  | _ => some "ERR args"

end DriverSession
