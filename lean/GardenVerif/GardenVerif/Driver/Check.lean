import GardenVerif.Driver.Sexp
import GardenVerif.Model.TypedSem
/-! Driver ops for M8 / the typed reference semantics (C16):

* `m8_check <astx sexpr>` → `OK (m8check accept|reject <first diag> <n diags>) (frag 1|0))`
* `m8_run <fuel> <astx sexpr>` → `OK (m8run ok | err <kind> | timeout) (frag 1|0))`
* either answers `OK (m8 outside <hex reason>)` when the program uses a construct the fragment's
  syntax cannot express (unannotated function, lambda, method call, struct, destructuring, …).

The input is the `astx` dump of the real parser (src/verif_machine.rs); hints arrive as their
source text and are parsed here. -/

namespace DriverCheck
open Check

def strOf (a : String) : Option String :=
  if a.startsWith "s:" then Hex.decode (a.drop 2).toString else none

-- ------------------------------------------------------------------ hint source text

def isIdent (c : Char) : Bool := c.isAlphanum || c == '_'

def skipWs : List Char → List Char
  | c :: cs => if c == ' ' then skipWs cs else c :: cs
  | [] => []

def takeIdent : List Char → List Char → List Char × List Char
  | c :: cs, acc => if isIdent c then takeIdent cs (c :: acc) else (acc.reverse, c :: cs)
  | [], acc => (acc.reverse, [])

mutual
/-- `Int`, `List<Int>`, `Option<(Int, String)>`, `(Int, String)`. -/
partial def parseHint (cs : List Char) : Option (Hint × List Char) :=
  match skipWs cs with
  | '(' :: rest => do
    let (hs, rest) ← parseHints rest ')'
    some (.tuple hs, rest)
  | cs =>
    let (name, rest) := takeIdent cs []
    match String.ofList name, skipWs rest with
    | "Int", r => some (.int, r)
    | "Bool", r => some (.bool, r)
    | "String", r => some (.str, r)
    | "Unit", r => some (.unit, r)
    | "List", '<' :: r => do
      let (hs, r) ← parseHints r '>'
      match hs with | [h] => some (.list h, r) | _ => none
    | "Option", '<' :: r => do
      let (hs, r) ← parseHints r '>'
      match hs with | [h] => some (.option h, r) | _ => none
    | _, _ => none
partial def parseHints (cs : List Char) (close : Char) : Option (List Hint × List Char) :=
  match skipWs cs with
  | c :: rest =>
    if c == close then some ([], rest) else do
      let (h, r) ← parseHint (c :: rest)
      match skipWs r with
      | ',' :: r => do
        let (hs, r) ← parseHints r close
        some (h :: hs, r)
      | c2 :: r => if c2 == close then some ([h], r) else none
      | [] => none
  | [] => none
end

def hintOf : Sexp → Option Hint
  | .list [.atom "hint", .atom a] => do
    let s ← strOf a
    let (h, rest) ← parseHint s.toList
    if (skipWs rest).isEmpty then some h else none
  | _ => none

-- ------------------------------------------------------------------ astx → TExpr

def binopOf : String → Option BinOp
  | "Add" => some .add | "Subtract" => some .sub | "Multiply" => some .mul | "Divide" => some .div
  | "Modulo" => some .mod | "Exponent" => some .pow | "BitwiseAnd" => some .bitand
  | "BitwiseOr" => some .bitor | "LessThan" => some .lt | "LessThanOrEqual" => some .le
  | "GreaterThan" => some .gt | "GreaterThanOrEqual" => some .ge | "Equal" => some .eq
  | "NotEqual" => some .ne | "And" => some .and | "Or" => some .or | "StringConcat" => some .concat
  | _ => none

mutual
partial def exprOf : Sexp → Except String TExpr
  | .list (.atom kind :: .atom _ :: .atom _ :: rest) =>
    match kind, rest with
    | "int", [.atom v] => match v.toInt? with
      | some i => .ok (.int (Int64.ofInt i))
      | none => .error "bad int"
    | "str", [.atom a] => match strOf a with
      | some s => .ok (.str s)
      | none => .error "bad str"
    | "var", [.atom n] => .ok (.var n)
    | "paren", [e] => do .ok (.paren (← exprOf e))
    | "binop", [.atom op, l, r] =>
      (match binopOf op with
       | some o => do .ok (.binop o (← exprOf l) (← exprOf r))
       | none => .error ("operator " ++ op))
    | "let", [.list [.atom "sym", .atom x], .atom "nohint", e] => do .ok (.letE x none (← exprOf e))
    | "let", [.list [.atom "sym", .atom x], h, e] =>
      (match hintOf h with
       | some hh => do .ok (.letE x (some hh) (← exprOf e))
       | none => .error "hint outside the fragment")
    | "let", _ => .error "destructuring let"
    | "assign", [.atom x, e] => do .ok (.assign x (← exprOf e))
    | "update", [.atom k, .atom x, e] => do .ok (.update (k == "Add") x (← exprOf e))
    | "if", [c, t, .atom "noelse"] => do .ok (.ifE (← exprOf c) (← blockOf t) false [])
    | "if", [c, t, e] => do .ok (.ifE (← exprOf c) (← blockOf t) true (← blockOf e))
    | "while", [c, b] => do .ok (.whileE (← exprOf c) (← blockOf b))
    | "for", [.list [.atom "sym", .atom x], e, b] => do .ok (.forE x (← exprOf e) (← blockOf b))
    | "for", _ => .error "destructuring for"
    | "match", scrut :: cases => do .ok (.matchE (← exprOf scrut) (← cases.mapM caseOf))
    | "return", [.atom "none"] => .ok .retUnit
    | "return", [e] => do .ok (.ret (← exprOf e))
    | "break", [] => .ok .brk
    | "continue", [] => .ok .cont
    | "list", items => do .ok (.list (← items.mapM exprOf))
    | "tuple", items => do .ok (.tuple (← items.mapM exprOf))
    | "call", .list [.atom "var", .atom _, .atom _, .atom f] :: args => do .ok (.call f (← args.mapM exprOf))
    | "call", _ => .error "call of a non-name"
    | k, _ => .error ("node " ++ k)
  | _ => .error "bad expr"
partial def blockOf : Sexp → Except String (List TExpr)
  | .list (.atom "block" :: es) => es.mapM exprOf
  | _ => .error "bad block"
partial def caseOf : Sexp → Except String Case
  | .list [.atom "case", .atom v, .atom "nodest", b] => do .ok (.mk v none (← blockOf b))
  | .list [.atom "case", .atom v, .list [.atom "sym", .atom x], b] => do .ok (.mk v (some x) (← blockOf b))
  | _ => .error "destructuring pattern"
end

def paramOf : Sexp → Except String (String × Hint)
  | .list [.atom "p", .atom n, h] =>
    (match hintOf h with
     | some hh => .ok (n, hh)
     | none => .error "parameter without a fragment hint")
  | _ => .error "bad param"

def programOf (items : List Sexp) : Except String Program := do
  let mut funs : List FunDef := []
  let mut top : List TExpr := []
  for it in items do
    match it with
    | .list [.atom "fun", .atom name, .list (.atom "params" :: ps), rh, b] =>
      let params ← ps.mapM paramOf
      let ret ← match hintOf rh with
        | some h => pure h
        | none => throw "return type outside the fragment"
      funs := funs ++ [{ name := name, params := params, ret := ret, body := ← blockOf b }]
    | .list [.atom "expr", e] => top := top ++ [← exprOf e]
    | .list (.atom k :: _) => throw ("item " ++ k)
    | _ => throw "bad item"
  pure { funs := funs, top := top }

def withProgram (sexp : String) (k : Program → String) : String :=
  match Sexp.parseAll sexp with
  | some [.list (.atom "astx" :: .atom nerr :: items)] =>
    if nerr != "0" then "OK (m8 parse-error)" else
    (match programOf items with
     | .error why => s!"OK (m8 outside {Hex.encode why})"
     | .ok p => k p)
  | _ => "ERR bad-sexp"

def fragFlag (p : Program) : String := if fullyAnnotated p then "(frag 1)" else "(frag 0)"

def handle (op : String) (rest : String) : Option String :=
  if op == "m8_check" then
    some (withProgram rest fun p =>
      match check p with
      | [] => s!"OK (m8check accept {fragFlag p})"
      | d :: ds => s!"OK (m8check reject {d.toString} {ds.length + 1} {fragFlag p})")
  else if op == "m8_run" then
    match rest.splitOn " " with
    | fuel :: sexpParts =>
      some (withProgram (" ".intercalate sexpParts) fun p =>
        match run (fuel.toNat?.getD 10000) p with
        | .ok => s!"OK (m8run ok {fragFlag p})"
        | .err e => s!"OK (m8run err {e.toString} {fragFlag p})"
        | .timeout => s!"OK (m8run timeout {fragFlag p})")
    | _ => some "ERR args"
  else none

end DriverCheck
