"""C18 — Formatting is idempotent.

Proof (GardenVerif.Props.C18, partial by design): the string phases that depend on the text only
are idempotent / the identity on an empty edit list. Whether the edit collectors emit no edits on
formatted text is decided here, per input, by running the REAL formatter twice.

Oracle: for every input x (parseable or not): format(format(x)) == format(x); and
`garden format --check f` exits 0 on a file holding format(x) (CLI, sample).
Keys (complete fixed set, see KEYS / classify): C18/second-pass-failed, C18/carriage-return,
C18/second-pass-unattributed, C18/second-pass-<phase>[-parse-error] for phase in wrap, spans, indent,
blanks, types, spacing, final, C18/check-rejects-formatter-output, C18/check-with-testing-footer,
C18/check-times-out.
Tie: the Lean phase models reproduce the real intermediate texts (`fmt_trace`) of every input,
including the unparseable ones (the C17 run does the same for parseable inputs with token marks).
"""
import os

from . import format_common as F
from . import prog_gen as G
from .common import hexs, unhex, pmap

LEAN_MODULES = ["GardenVerif.Props.C18"]
LEVEL = "translation_validation"


def damage(rng, src):
    """Make a (probably) unparseable variant: drop / duplicate / insert structural characters."""
    if not src:
        return "}"
    r = rng.random()
    i = rng.randrange(len(src))
    if r < 0.3:
        j = min(len(src), i + rng.randint(1, 12))
        return src[:i] + src[j:]
    if r < 0.6:
        return src[:i] + rng.choice(["{", "}", "(", ")", "\"", ",", " fun ", " let ", "=>", "[", "::", ".", " if "]) + src[i:]
    if r < 0.8:
        return src[:i]
    k = src.find("}", i)
    return src if k < 0 else src[:k] + src[k + 1:]


PHASES = ["wrap", "spans", "indent", "blanks", "types", "spacing", "final"]

# The complete, fixed set of keys this check can emit. Every observable failure maps to exactly one of
# them, by mechanism (never by the random input): see `classify`.
KEYS = (["C18/second-pass-failed",            # the formatter does not return on its own output
         "C18/carriage-return",               # format(x) still contains `\r` (str::lines strips one per phase)
         "C18/second-pass-unattributed",      # outputs differ but no phase of the traced 2nd pass changes its input
         "C18/check-rejects-formatter-output",  # CLI `format --check` exits non-zero on format(x)
         "C18/check-with-testing-footer",       # same, file has a `// args:` reftest footer (CLI strips it first)
         "C18/check-times-out"]                 # CLI `format --check` does not finish in 300 s (after a 30 s attempt)
        + ["C18/second-pass-%s%s" % (p, q) for p in PHASES for q in ("", "-parse-error")])


def classify(ctx, src, f1_hex):
    """Deterministic, total classification of one non-idempotence (format(f1) != f1, f1 = format(src)):
      1. f1 still contains a `\r`                         -> C18/carriage-return
      2. p = the first phase of the SECOND pass (fmt_trace on f1) whose output differs from its input;
         none                                             -> C18/second-pass-unattributed
      3. f1 has parse errors (or the front end fails)     -> C18/second-pass-<p>-parse-error
         otherwise                                        -> C18/second-pass-<p>
    The key depends only on the mechanism (which phase still finds work on formatted text) and on whether
    the text is a valid program, so a new seed cannot produce a new key for an old mechanism."""
    if "\r" in unhex(f1_hex):
        return "C18/carriage-return"
    tr, ast = F.garden_batch(ctx, ["fmt_trace " + f1_hex, "ast " + f1_hex], shards=1)
    texts = F.trace_texts(tr or "")
    phase = None
    prev = f1_hex
    for p in PHASES:
        if p in texts:
            if texts[p] != prev:
                phase = p
                break
            prev = texts[p]
    if phase is None:
        return "C18/second-pass-unattributed"
    pa = F.parse_ast(ast)
    perr = pa is None or pa[1] > 0
    return "C18/second-pass-%s%s" % (phase, "-parse-error" if perr else "")


def run(ctx):
    rng = ctx.rng
    items = F.corpus(ctx, ctx.scale(350, 8000), 3, seeds_perturb=ctx.scale(1, 2))
    extra = []
    for o, s in items:
        if o.startswith("gen") and rng.random() < 0.35:
            extra.append((o + ".dmg", damage(rng, s)))
        if o.startswith("gen") and o.endswith(".v0") and rng.random() < 0.25 and not F.line_starts_in_string(s):
            extra.append((o + ".crlf", G.to_crlf(s)))
    items += extra
    items = [(o, s) for o, s in items if not F.has_nonascii_outside(s)]
    ctx.rule = ("the C17 corpus (generated programs canonical + 3 perturbed renderings, repo .gdn files as-is and "
                "perturbed, probes) plus damaged (unparseable) variants and CRLF renderings; every input on which the "
                "formatter returns is judged. Non-trivial = the first formatting pass changed the text.")
    hx = [hexs(s) for _, s in items]
    r1 = F.garden_batch(ctx, ["format " + h for h in hx])
    ok = [i for i, r in enumerate(r1) if r and r.startswith("OK ")]
    ctx.cov["inputs_generated"] = len(items)
    ctx.cov["formatter_did_not_return_skipped"] = len(items) - len(ok)   # panics: C01
    f1 = {i: r1[i][3:] for i in ok}
    r2 = dict(zip(ok, F.garden_batch(ctx, ["format " + f1[i] for i in ok])))
    n_unparse = 0
    n_changed = 0
    for i in ok:
        o, s = items[i]
        out1 = unhex(f1[i])
        changed = out1 != s
        n_changed += changed
        ctx.case(s, changed)
        if ".dmg" in o:
            n_unparse += 1
        rr = r2[i]
        if not rr or not rr.startswith("OK "):
            ctx.fail("C18/second-pass-failed", "formatter failed on its own output: %r" % (rr or "")[:200],
                     origin=o, input=s, first=out1)
            continue
        if rr[3:] != f1[i]:
            out2 = unhex(rr[3:])
            key = classify(ctx, s, f1[i])
            ctx.fail(key, "format(format(x)) != format(x)", origin=o, input=s, first=out1, second=out2,
                     command="garden format f.gdn > g.gdn; garden format g.gdn | diff g.gdn -")
    ctx.cov["programs"] = len(ok)
    ctx.cov["disagreements_checked"] = len(ok)
    ctx.cov["changed_by_first_pass"] = n_changed
    ctx.cov["damaged_inputs"] = n_unparse

    # ---- tie: phase models vs real intermediate texts, all inputs (no token marks needed)
    r_tr = dict(zip(ok, F.garden_batch(ctx, ["fmt_trace " + hx[i] for i in ok])))
    fc_idx = [i for i in ok if r_tr[i] and r_tr[i].startswith("OK ")]
    tt = {i: F.trace_texts(r_tr[i]) for i in fc_idx}
    idx_ml = [i for i in fc_idx if "indent" in tt[i] and F.line_starts_in_string(unhex(tt[i]["indent"]))]
    r_lex_indent = dict(zip(idx_ml, F.garden_batch(ctx, ["lex " + tt[i]["indent"] for i in idx_ml])))
    r_fc = dict(zip(fc_idx, F.model_batch(ctx, ["fmt_check %s (marks_wrap) (marks_spans) (marks_indent %s)" % (
        r_tr[i][3:], F.lex_spans(r_lex_indent.get(i, ""))) for i in fc_idx])))
    n_panic_model = 0
    for i in fc_idx:
        fc = r_fc[i] or ""
        if not fc.startswith("OK "):
            ctx.broken.append(dict(kind="correspondence", what="fmt_check driver op failed", input=items[i][1], model=fc))
            continue
        if "(spans panic)" in fc:
            n_panic_model += 1   # model says replace_range panics but the real formatter returned
            ctx.disagree("format phase model `spans` (model panics, implementation returned)", items[i][1], fc, "returned")
            continue
        for ph in ("spans", "indent", "blanks", "final"):
            if "(%s eq)" % ph not in fc and not (ph == "blanks" and "(blanks eqfix)" in fc):
                ctx.disagree("format phase model `%s`" % ph, items[i][1], fc, "real intermediate text (fmt_trace)")
    ctx.cov["phase_model_runs"] = len(fc_idx)

    # ---- CLI: `garden format --check` accepts formatter output
    d = ctx.scratch("check")
    sample = [i for i in ok if r2[i] and r2[i][3:] == f1[i]]
    rng.shuffle(sample)
    sample = sample[:ctx.scale(150, 1500)]

    def one(i):
        p = os.path.join(d, "f%d.gdn" % i)
        with open(p, "w", encoding="utf-8", newline="") as f:
            f.write(unhex(f1[i]))
        rc, so, se = ctx.garden(["format", "--check", p], timeout=30)
        if rc == -9999:
            # a 0.3 s command that hits the wall-clock limit is machine load, not the formatter:
            # judge it only after a second, generous attempt
            rc, so, se = ctx.garden(["format", "--check", p], timeout=300)
        return i, rc, se

    n_cli = 0
    for i, rc, se in pmap(one, sample):
        n_cli += 1
        ctx.case(("check", items[i][1]), True)
        if rc != 0:
            out1 = unhex(f1[i])
            key = "C18/check-rejects-formatter-output"
            if rc == -9999:
                key = "C18/check-times-out"
            elif "// args:" in out1 or "// expected" in out1:
                key = "C18/check-with-testing-footer"
            ctx.fail(key, "`garden format --check` exits %d on a file the formatter produced: %s" % (rc, se[:200]),
                     origin=items[i][0], file_contents=out1, command="garden format --check f.gdn")
    ctx.cov["format_check_cli_runs"] = n_cli
    ctx.log("judged %d inputs (%d damaged), first pass changed %d, cli --check runs %d" % (
        len(ok), n_unparse, n_changed, n_cli))
    ctx.assumptions += [
        "idempotence of the edit collectors is decided per input by running the real formatter twice, not proved",
        "normalizeBlankLines_idem / apply_no_indentation_edits_id need `no carriage return` (str::lines strips one "
        "`\\r` per pass): see the C18/carriage-return finding",
    ]
