import GardenVerif.Driver.Sexp
import GardenVerif.Model.LspPos
/-!
Driver ops for M9 (same request lines as the `garden verif` hook ops of `verif_lsp_op`):

* `lsp_o2p <hexsrc> <offset> <line>`            → `OK <line> <character>` | `PANIC`
* `lsp_lc2o <hexsrc> <line> <character>`        → `OK <offset>`
* `lsp_whole <hexsrc>`                          → `OK <sl> <sc> <el> <ec>`
* `lsp_range <hexsrc> <so> <eo> <sline> <eline>`→ `OK <sl> <sc> <el> <ec>` | `PANIC`  (model only)
* `lsp_apply <hexdoc> <sl> <sc> <el> <ec> <hexnew>` → `OK <hex of the edited document>`
  (model only: the LSP specification's edit application)
* `lsp_specoff <hexdoc> <line> <character>`     → `OK <byte offset the specification assigns>`
-/

namespace DriverLspPos
open LspPos

def nat? (s : String) : Option Nat := s.toNat?

def docOf (h : String) : Option (List Char) := (Hex.decode h).map (·.toList)

def handle (op : String) (rest : String) : Option String :=
  if op != "lsp_o2p" && op != "lsp_lc2o" && op != "lsp_whole" && op != "lsp_range"
      && op != "lsp_apply" && op != "lsp_specoff" then none else
  let parts := rest.splitOn " "
  let src? := docOf (parts.getD 0 "")
  let num (i : Nat) : Option Nat := (parts[i]?).bind nat?
  match src? with
  | none => some "ERR hex"
  | some src =>
    match op with
    | "lsp_o2p" =>
      match num 1, num 2 with
      | some o, some l =>
        match offsetToLspPosition src o l with
        | some p => some s!"OK {p.line} {p.character}"
        | none => some "PANIC"
      | _, _ => some "ERR args"
    | "lsp_lc2o" =>
      match num 1, num 2 with
      | some l, some c => some s!"OK {lineCharToOffset src l c}"
      | _, _ => some "ERR args"
    | "lsp_whole" =>
      let r := wholeDocumentRange src
      some s!"OK {r.start.line} {r.start.character} {r.stop.line} {r.stop.character}"
    | "lsp_range" =>
      match num 1, num 2, num 3, num 4 with
      | some so, some eo, some sl, some el =>
        match gardenPosToLspRange src so eo sl el with
        | some r => some s!"OK {r.start.line} {r.start.character} {r.stop.line} {r.stop.character}"
        | none => some "PANIC"
      | _, _, _, _ => some "ERR args"
    | "lsp_apply" =>
      match num 1, num 2, num 3, num 4, docOf (parts.getD 5 "") with
      | some sl, some sc, some el, some ec, some t =>
        some s!"OK {Hex.encode (String.ofList (applyEdit src ⟨⟨sl, sc⟩, ⟨el, ec⟩⟩ t))}"
      | _, _, _, _, _ => some "ERR args"
    | "lsp_specoff" =>
      match num 1, num 2 with
      | some l, some c => some s!"OK {byteLen (src.take (specIndex src l c))}"
      | _, _ => some "ERR args"
    | _ => none

end DriverLspPos
